"""Problem-level rules: R-TRIGGER-JOIN, R-INIT-COHERENCE (Problem.init), R-SPLIT (Problem.split)."""
from __future__ import annotations

import ast
from typing import Any, Dict, List, Optional, Set, Tuple

from ..core import Ctx
from ..interp import ALL, Dual, EnumVal, Event, Interp, LoopSummary, PathResult, State, Tup, View, as_view, NONE
from ..program import AnalysisError, FuncInfo, Program
from ..terms import Aff, K, ONE, S, ZERO, atoms_in, cmp_cond, show_val
from .engine import calls_named, loops_of, init

PB_MOD = "problems.problem"


def _all_loops(events: List[Event], acc: Optional[List[LoopSummary]] = None) -> List[LoopSummary]:
    acc = [] if acc is None else acc
    for l in loops_of(events):
        if l not in acc:
            acc.append(l)
            for bp in l.paths:
                _all_loops(bp.events, acc)
    return acc


class InitAnalysis:
    """One abstract path of Problem.init (the pinned code has exactly one; a rewrite with a branch has several: each is held to the rules)."""

    def __init__(self, fn: FuncInfo, it: Interp, path: PathResult):
        self.fn = fn
        self.it = it
        self.path = path
        self.loops = _all_loops(path.state.trace)


def init_analyses(prog: Program) -> List[InitAnalysis]:
    c = getattr(prog, "_init_ans", None)
    if c is None:
        fn = prog.func(f"{prog.package}.{PB_MOD}", "Problem.init")
        it = Interp(prog)
        res = [r for r in it.run(fn) if r.outcome == "return"]
        if not res or len(res) > 16:
            raise AnalysisError(f"Problem.init: {len(res)} abstract paths")
        c = [InitAnalysis(fn, it, r) for r in res]
        prog._init_ans = c  # type: ignore[attr-defined]
    return c


def _stores(l: LoopSummary, root_suffix: str) -> List[Tuple[PathResult, Event]]:
    out = []
    for bp in l.paths:
        for e in bp.events:
            if e.kind == "store" and e.root and (e.root == root_suffix or e.root.endswith("." + root_suffix)) and e.fn == l.fn:
                out.append((bp, e))
    return out


def rule_trigger_join(ctx: Ctx, prog: Program) -> None:
    ctx.rule("R-TRIGGER-JOIN")
    n_total = 0
    for a in init_analyses(prog):
        n_total += _trigger_join_one(ctx, prog, a)
        n_own = _trigger_own_call(ctx, prog, a)
        ctx.floor("R-TRIGGER-JOIN:own-call", n_own, 1)
    ctx.floor("R-TRIGGER-JOIN:stores", n_total, 1)


def _trigger_join_one(ctx: Ctx, prog: Program, a: InitAnalysis) -> int:
    fn = a.fn
    ctx.fn(fn.fq)
    n = 0
    for l in a.loops:
        for bp, e in _stores(l, "triggers"):
            if len(e.idx) != 2:
                continue
            # direct stores of this loop's own body only (nested loops are visited on their own)
            if not _event_in_own_body(l, bp, e):
                continue
            if not isinstance(e.idx[0], Aff):
                # a vector store: triggers[dom_indices[vars], p] (|)= ...  -- NumPy evaluates a fancy-indexed in-place operation as
                # gather / operate / scatter, so with a repeated index (two variables on one shared domain) only the last write survives
                n += 1
                if "dom_indices" in repr(e.idx[0]) or "fancy" in repr(e.idx[0]):
                    ctx.violation("R-TRIGGER-JOIN", fn.path, "Problem.init", "triggers-vector-store", f"{fn.path}:{e.line}",
                                  "the wake-up table is filled by one fancy-indexed store over all variables of the constraint: when two of them share a "
                                  "domain the index repeats and NumPy keeps only the last write (even with |=), dropping the events of the others; "
                                  "accumulate cell by cell (or with np.bitwise_or.at)")
                continue
            n += 1
            dom = e.idx[0]
            # is the table indexed with ONE variable of the constraint (an element of its variable list, i.e. something that
            # depends on a loop over that list nested in the loop over the constraints) or with the whole list at once?
            its = {x for x in atoms_in(dom) if isinstance(x, tuple) and x[0] == "it"}
            if len(its) < 2 and any(isinstance(x, tuple) and x[0] in ("init", "hav") and "propagators" in str(x[1] if x[0] == "init" else x[2]) for x in atoms_in(dom)):
                ctx.violation("R-TRIGGER-JOIN", fn.path, "Problem.init", "triggers-vector-store", f"{fn.path}:{e.line}",
                              "the wake-up table is filled by one fancy-indexed store over all variables of the constraint (not cell by cell in a loop "
                              "over them): when two of them share a domain the index repeats and NumPy keeps only the last write (even with |=), "
                              "dropping the events of the others; accumulate cell by cell (or with np.bitwise_or.at)")
                continue
            via_table = isinstance(dom, Aff) and any(
                isinstance(x, tuple) and x[0] in ("init", "hav") and ("dom_indices" in str(x[1] if x[0] == "init" else x[2])) for x in atoms_in(dom)
            )
            joined = False
            if e.aug is not None and e.aug[0] == "BitOr":
                joined = True
            else:
                v = e.value if isinstance(e.value, Aff) else a.it.scalar(bp.state, e.value)
                at = v.single_atom()
                if at is not None and at[0] == "bitor" and e.old is not None and (at[1] == e.old or at[2] == e.old):
                    joined = True
            if via_table and not joined:
                ctx.violation("R-TRIGGER-JOIN", fn.path, "Problem.init", "triggers-store", f"{fn.path}:{e.line}",
                              "the wake-up table cell triggers[dom_indices[var], propagator] is assigned inside the loop over the "
                              "constraint's variables; two variables of one constraint can share a domain, so the last one overwrites the "
                              "events of the others (the store must accumulate with |=)")
            elif via_table:
                ctx.ok("R-TRIGGER-JOIN", "Problem.init: triggers[dom_indices[var], p] |= triggers_of_var", sample={"cell": repr(View(e.root, e.idx)), "aug": str(e.aug)})
            else:
                ctx.violation("R-TRIGGER-JOIN", fn.path, "Problem.init", "triggers-index", f"{fn.path}:{e.line}",
                              f"the wake-up table is indexed by {show_val(dom)}, not by the shared-domain index of the variable (dom_indices[var])")
    return n


def _iterates_constraints(L: LoopSummary) -> bool:
    """the loop runs over the list of constraints itself (for .. in [enumerate(]self.propagators[)]), not over a component of one constraint"""
    iv = L.iter_value
    inner = iv.inner if isinstance(iv, EnumVal) else iv
    v = as_view(inner) if inner is not None else None
    return isinstance(v, View) and v.root.split(".")[-1] == "propagators" and not v.idx


def _trigger_own_call(ctx: Ctx, prog: Program, a: InitAnalysis) -> int:
    """Every iteration of the loop over the constraints that fills the constraint's column of the wake-up table has itself asked the trigger
    function of THIS constraint's algorithm, with THIS constraint's arity and parameters, and what it stores comes from that answer.  The
    events a constraint must be woken for depend on its parameters (the sign of each coefficient for the linear inequalities): an answer
    kept from another constraint of the same kind (a memo keyed by algorithm and arity, a vector computed before the loop) makes the
    constraint watch the bounds the other one needed."""
    fn = a.fn
    n = 0
    for L in a.loops:
        idx = show_val(L.index) if L.index is not None else None
        for bp in L.paths:
            nested = [e for e in bp.events if e.kind == "loop" and e.loop is not L and _stores(e.loop, "triggers")]
            own = [e for e in bp.events if e.kind == "store" and e.root and (e.root == "triggers" or e.root.endswith(".triggers")) and len(e.idx) == 2 and _event_in_own_body(L, bp, e)]
            stores = [(b2, s) for e in nested for (b2, s) in _stores(e.loop, "triggers")] + [(bp, s) for s in own]
            if not stores or idx is None or not _iterates_constraints(L):
                continue
            icalls = [e for e in bp.events if e.kind == "icall" and "TRIGGERS" in (e.name or "")]
            for b2, st in stores:
                n += 1
                line = st.line
                v = st.value
                vtxt = show_val(v) if not isinstance(v, View) else repr(v)
                mine = [e for e in icalls if e.ret is not None and repr(e.ret) in vtxt]
                if not mine:
                    ctx.violation("R-TRIGGER-JOIN", fn.path, "Problem.init", "triggers-not-own-call", f"{fn.path}:{line}",
                                  "an iteration of the loop over the constraints stores into its column of the wake-up table a value that is not the answer of "
                                  "the trigger function called in that iteration"
                                  + (" (on this path the trigger function is not called at all: the answer is reused from another constraint)" if not icalls else "")
                                  + ": the events a constraint needs depend on its own parameters (coefficient signs of the linear inequalities), so a vector kept "
                                  "per algorithm / arity or computed once before the loop makes constraints watch the wrong bounds")
                    continue
                e = mine[0]
                a0 = show_val(e.args[0]) if e.args and not isinstance(e.args[0], View) else repr(e.args[0]) if e.args else ""
                a1 = (show_val(e.args[1]) if not isinstance(e.args[1], View) else repr(e.args[1])) if len(e.args) > 1 else ""
                ok_alg = f"[{idx}, 1]" in (e.name or "")
                ok_n = f"{idx}(0)" in a0 or f"[{idx}, 0]" in a0
                ok_p = f"[{idx}, 2]" in a1
                if ok_alg and ok_n and ok_p:
                    ctx.ok("R-TRIGGER-JOIN", "Problem.init: the column of constraint p is filled from GET_TRIGGERS[alg(p)](arity(p), parameters(p)) asked in the same iteration",
                           sample={"call": e.name, "args": [a0, a1]})
                else:
                    what = "algorithm" if not ok_alg else "number of variables" if not ok_n else "parameters"
                    ctx.violation("R-TRIGGER-JOIN", fn.path, "Problem.init", f"triggers-foreign-{what.split()[0]}", f"{fn.path}:{e.line}",
                                  f"the trigger function asked for constraint p is not given p's own {what} ({e.name}({a0}, {a1})): the wake-up events stored in "
                                  "p's column are those of another constraint")
    return n


def _event_in_own_body(l: LoopSummary, bp: PathResult, e: Event) -> bool:
    """Is `e` executed directly in an iteration of `l` (and not inside a nested loop's iteration)?"""
    depth = 0
    for x in bp.events:
        if x is e:
            return depth == 0
        if x.kind == "iter" and x.loop is not l:
            depth += 1
        elif x.kind == "loop" and x.loop is not l:
            depth = max(0, depth - 1)
    return False


def rule_init_coherence(ctx: Ctx, prog: Program) -> None:
    ctx.rule("R-INIT-COHERENCE")
    for a in init_analyses(prog):
        _init_coherence_one(ctx, prog, a)
    _sort_guard(ctx, prog)
    _parallel_lists(ctx, prog)


def _parallel_lists(ctx: Ctx, prog: Program) -> None:
    """init() re-orders the constraints (sort by complexity).  Whatever it derives per constraint must come from the constraint tuple at
    that position, or from arrays init itself built after the sort.  A list kept on the problem since posting time (one entry per
    add_propagator call) is in posting order: read by position inside a loop over the sorted constraints it describes another constraint."""
    m = prog.modules.get(f"{prog.package}.{PB_MOD}")
    init = m.classes.get("Problem", {}).get("init") if m else None
    if init is None:
        raise AnalysisError("anchor function vanished: Problem.init")
    sorts = any(isinstance(n, ast.Call) and isinstance(n.func, ast.Attribute) and n.func.attr == "sort" and ast.unparse(n.func.value) == "self.propagators"
                for n in ast.walk(init.node))
    sorts = sorts or any(isinstance(n, ast.Assign) and any(ast.unparse(t) == "self.propagators" for t in n.targets) for n in ast.walk(init.node))
    if not sorts:
        ctx.ok("R-INIT-COHERENCE", "init does not re-order the constraints", nontrivial=False)
        return
    derived = {t.attr for n in ast.walk(init.node) if isinstance(n, (ast.Assign, ast.AnnAssign))
               for t in (n.targets if isinstance(n, ast.Assign) else [n.target])
               for t in ([t] if isinstance(t, ast.Attribute) else [x for x in ast.walk(t) if isinstance(x, ast.Attribute)])
               if isinstance(t.value, ast.Name) and t.value.id == "self"}
    n_loops = 0
    for loop in [n for n in ast.walk(init.node) if isinstance(n, ast.For)]:
        it = ast.unparse(loop.iter)
        if "self.propagators" not in it and "self.propagator_nb" not in it:
            continue
        n_loops += 1
        idx = None
        if isinstance(loop.target, ast.Tuple) and loop.target.elts and isinstance(loop.target.elts[0], ast.Name) and it.startswith("enumerate("):
            idx = loop.target.elts[0].id
        elif isinstance(loop.target, ast.Name) and it.startswith("range("):
            idx = loop.target.id
        if idx is None:
            continue
        for n in ast.walk(loop):
            if isinstance(n, ast.Subscript) and isinstance(n.ctx, ast.Load) and isinstance(n.value, ast.Attribute) and isinstance(n.value.value, ast.Name) \
                    and n.value.value.id == "self" and n.value.attr not in derived and n.value.attr != "propagators" \
                    and any(isinstance(x, ast.Name) and x.id == idx for x in ast.walk(n.slice)):
                ctx.violation("R-INIT-COHERENCE", init.path, "Problem.init", f"posting-order-list:{n.value.attr}", f"{init.path}:{n.lineno}",
                              f"init() reads `{ast.unparse(n)}` by position inside a loop over the constraints it has just sorted by complexity; "
                              f"self.{n.value.attr} is not rebuilt by init(), so it is in posting order and entry {idx} describes another constraint "
                              "as soon as the sort moves anything (permuting the constraints of a model changes its solutions)")
    if n_loops:
        ctx.ok("R-INIT-COHERENCE", "per-constraint data read by position comes from arrays init() itself builds after the sort", sample={"loops": n_loops}, nontrivial=False)


def _sort_guard(ctx: Ctx, prog: Program) -> None:
    """init() may be called several times on one problem (once per solver) and the problem may be extended in between.  If the sort of the
    constraints is skipped under a condition on attributes of the problem (`if not self.sorted: ... sort ...`), every method that changes the
    constraint list must invalidate those attributes; otherwise constraints added after a first solver stay in posting order and the
    scheduling order -- hence statistics, and results wherever the order matters -- depends on whether a solver was built earlier."""
    m = prog.modules.get(f"{prog.package}.{PB_MOD}")
    if m is None:
        raise AnalysisError("anchor module vanished: problems.problem")
    methods = m.classes.get("Problem", {})
    init = methods.get("init")
    if init is None:
        raise AnalysisError("anchor function vanished: Problem.init")

    def is_sort(n: ast.AST) -> bool:
        return isinstance(n, ast.Call) and isinstance(n.func, ast.Attribute) and n.func.attr == "sort" and ast.unparse(n.func.value) == "self.propagators"

    guards: List[str] = []

    def walk(stmts: List[ast.stmt], conds: List[ast.expr]) -> None:
        for st in stmts:
            if isinstance(st, ast.If):
                walk(st.body, conds + [st.test])
                walk(st.orelse, conds + [st.test])
            elif isinstance(st, (ast.For, ast.While, ast.With, ast.Try)):
                for nm in ("body", "orelse", "finalbody"):
                    walk(getattr(st, nm, []) or [], conds)
            elif any(is_sort(n) for n in ast.walk(st)):
                for c in conds:
                    for n in ast.walk(c):
                        if isinstance(n, ast.Attribute) and isinstance(n.value, ast.Name) and n.value.id == "self" and n.attr not in guards:
                            guards.append(n.attr)
    walk(init.node.body, [])
    if not guards:
        ctx.ok("R-INIT-COHERENCE", "the sort of the constraints is not conditional on state of the problem", nontrivial=False)
        return
    mutators = []
    for name, f in methods.items():
        if name in ("init", "__init__"):
            continue
        mut = False
        for n in ast.walk(f.node):
            if isinstance(n, ast.Call) and isinstance(n.func, ast.Attribute) and ast.unparse(n.func.value) == "self.propagators" \
                    and n.func.attr in ("append", "extend", "insert", "remove", "pop", "clear", "reverse", "sort"):
                mut = True
            if isinstance(n, (ast.Assign, ast.AugAssign)):
                tg = n.targets if isinstance(n, ast.Assign) else [n.target]
                if any(ast.unparse(t).startswith("self.propagators") for t in tg):
                    mut = True
        if mut:
            mutators.append((name, f))
    for g in guards:
        for name, f in mutators:
            resets = any(isinstance(n, ast.Assign) and any(ast.unparse(t) == f"self.{g}" for t in n.targets) for n in ast.walk(f.node))
            if resets:
                ctx.ok("R-INIT-COHERENCE", f"Problem.{name} invalidates self.{g}, which conditions the sort in init()")
            else:
                ctx.violation("R-INIT-COHERENCE", f.path, f"Problem.{name}", f"sort-guard-stale:{g}", f.loc(),
                              f"init() sorts the constraints only under a condition on self.{g}, and Problem.{name} changes the constraint list without "
                              f"touching self.{g}: constraints added after a first solver was built stay in posting order, so the scheduling order "
                              "(statistics, and results wherever the order matters) depends on whether a solver was built earlier")


def _init_coherence_one(ctx: Ctx, prog: Program, a: InitAnalysis) -> None:
    fn, it, path = a.fn, a.it, a.path
    ctx.fn(fn.fq)
    evs = path.state.trace
    RG_START, RG_END = prog.C("RG_START"), prog.C("RG_END")
    # (a) sort precedes every loop over the propagators; stable in-place sort with a key reading only the tuple
    sort_pos = [i for i, e in enumerate(evs) if e.kind == "mcall" and e.name == "sort" and as_view(e.recv) == View("self.propagators", ())]
    loop_pos = [i for i, e in enumerate(evs) if e.kind in ("iter", "loop") and e.loop is not None and _iterates(e.loop, "self.propagators")]
    if len(sort_pos) == 1 and loop_pos and sort_pos[0] < min(loop_pos):
        ctx.ok("R-INIT-COHERENCE", "sort precedes every derivation loop")
    elif not sort_pos:
        ctx.ok("R-INIT-COHERENCE", "no sort: posting order is kept", nontrivial=False)
    else:
        ctx.violation("R-INIT-COHERENCE", fn.path, "Problem.init", "sort-order", fn.loc(),
                      "the constraints are re-ordered after (or between) loops that derived per-constraint arrays from the old order")
    for i in sort_pos:
        kw = dict(evs[i].kwargs)
        key = kw.get("key")
        node = getattr(key, "node", None)
        if node is not None:
            names = {n.id for n in ast.walk(node.body) if isinstance(n, ast.Name)}
            argn = {x.arg for x in node.args.args}
            free = {n for n in names if n not in argn and prog.resolve(fn.module, n) is None and n not in ("len",)}
            if free - {"self"} or "self" in names:
                ctx.violation("R-INIT-COHERENCE", fn.path, "Problem.init", "sort-key", fn.loc(),
                              f"the sort key reads state other than the constraint tuple ({sorted(names - argn)})")
            else:
                ctx.ok("R-INIT-COHERENCE", "sort key is a function of the constraint tuple only")
    # (b) per-constraint caches
    prop_loops = [l for l in a.loops if _iterates(l, "self.propagators")]
    ctx.floor("R-INIT-COHERENCE:loops-over-propagators", len(prop_loops), 1)
    seen = {"algorithms": 0, "var_bounds": 0, "param_bounds": 0, "props_dom_indices": 0, "props_dom_offsets": 0, "props_parameters": 0}
    for l in prop_loops:
        idx = l.index
        for bp in l.paths:
            s = bp.state
            for e in bp.events:
                if e.kind != "store" or not e.root or not e.root.startswith("self.") or not _event_in_own_body(l, bp, e):
                    continue
                name = e.root[5:]
                prop = lambda k: _prop_elem(it, s, idx, k)
                if name == "algorithms":
                    seen[name] += 1
                    okk = tuple(e.idx) == (idx,) and _same(it, s, e.value, prop(1))
                    _verdict(ctx, fn, okk, "algorithms[p] = propagator[1]", e, "algorithms[p] must be the algorithm of constraint p")
                elif name in ("var_bounds", "param_bounds"):
                    seen[name] += 1
                    k = 0 if name == "var_bounds" else 2
                    if len(e.idx) == 2 and e.idx[0] == idx and e.idx[1] == K(RG_START):
                        prev = it.scalar(s, e.value)
                        okk = _is_cell(prev, e.root, (idx - ONE, K(RG_END))) and s.facts.decide(cmp_cond(">=", idx, ONE)) is True
                        _verdict(ctx, fn, okk, f"{name}[p, START] = {name}[p-1, END] (p>0)", e, f"{name}[p, START] must continue where constraint p-1 ended")
                    elif len(e.idx) == 2 and e.idx[0] == idx and e.idx[1] == K(RG_END):
                        v = it.scalar(s, e.value)
                        ln = Aff.atom(("len", "self.propagators", (idx, K(k))))
                        start_now = it.load_at(s, e.hpos, e.root, (idx, K(RG_START)))
                        okk = (v - ln) == start_now or _is_cell(v - ln, e.root, (idx, K(RG_START))) or _is_cell(v - ln, e.root, (idx - ONE, K(RG_END)))
                        _verdict(ctx, fn, okk, f"{name}[p, END] = {name}[p, START] + len(propagator[{k}])", e,
                                 f"{name}[p, END] must be START + the number of {'variables' if k == 0 else 'parameters'} of constraint p")
                elif name in ("props_dom_indices", "props_dom_offsets"):
                    seen[name] += 1
                    src = "dom_indices" if name == "props_dom_indices" else "dom_offsets"
                    sl = e.idx[0] if len(e.idx) == 1 else None
                    okk_slice = _is_bounds_slice(sl, "self.var_bounds", idx, RG_START, RG_END)
                    val = as_view(e.value)
                    okk_val = False
                    if isinstance(val, View) and src in val.root and len(val.idx) == 1:
                        c = val.idx[0]
                        pv = prop(0)
                        okk_val = (isinstance(c, tuple) and c[0] == "fancy" and as_view(c[1]) == as_view(pv)) or (isinstance(c, Aff) and c == it.scalar(s, pv))
                    _verdict(ctx, fn, okk_slice and okk_val, f"{name}[var_start:var_end] = {src}_arr[propagator[0]]", e,
                             f"{name} must cache, at the constraint's own variable range, the {src} of the constraint's variables")
                elif name == "props_parameters":
                    seen[name] += 1
                    sl = e.idx[0] if len(e.idx) == 1 else None
                    okk = _is_bounds_slice(sl, "self.param_bounds", idx, RG_START, RG_END) and _same(it, s, e.value, prop(2))
                    _verdict(ctx, fn, okk, "props_parameters[param_start:param_end] = propagator[2]", e,
                             "props_parameters must hold, at the constraint's own parameter range, the constraint's parameters")
            # triggers come from the constraint's own trigger function
            for e in bp.events:
                if e.kind == "icall" and "GET_TRIGGERS_FCTS" in repr(e.recv) and _event_in_own_body(l, bp, e):
                    rv = as_view(e.recv)
                    alg_then = it.load_at(s, e.hpos, "self.propagators", (idx, K(1)))
                    okk = isinstance(rv, View) and len(rv.idx) == 1 and rv.idx[0] == alg_then
                    a0 = it.scalar(s, e.args[0]) if e.args else None
                    okk = okk and len(e.args) == 2 and a0 == Aff.atom(("len", "self.propagators", (idx, K(0)))) \
                        and as_view(e.args[1]) == View("self.propagators", (idx, K(2)))
                    _verdict(ctx, fn, okk, "triggers = GET_TRIGGERS_FCTS[propagator[1]](len(propagator[0]), propagator[2])", e,
                             "the wake-up events of constraint p must come from its own trigger function, arity and parameters")
    for k, v in seen.items():
        if v == 0:
            # no per-constraint store recognised (e.g. the table is built in one vectorised step): nothing is decided about its content
            ctx.undecided_site("R-INIT-COHERENCE", f"per-constraint fill of {k}", "no per-constraint store of this table found (built in one go?): its content is not decided")
    # (c) derived attributes are assigned from fresh allocations, never accumulated
    derived = ["dom_indices_arr", "dom_offsets_arr", "algorithms", "var_bounds", "param_bounds", "props_dom_indices", "props_dom_offsets", "props_parameters", "triggers"]
    for d in derived:
        assigns = [e for e in evs if e.kind == "store" and e.root == f"self.{d}" and not e.idx]
        if not assigns:
            ctx.violation("R-INIT-COHERENCE", fn.path, "Problem.init", f"not-reassigned:{d}", fn.loc(), f"init() does not re-create self.{d}")
            continue
        first = assigns[0]
        v = as_view(first.value)
        org = it.allocs.get(v.root) if isinstance(v, View) else None
        advanced = isinstance(v, View) and any(isinstance(c, tuple) and c and c[0] == "fancy" for c in v.idx)  # a[list] is a copy, not a view
        if not advanced and org and org[0] in ("mcall", "call") and "reshape" in str(org):
            rv = as_view(org[1]) if org[0] == "mcall" else None
            advanced = isinstance(rv, View) and any(isinstance(c, tuple) and c and c[0] == "fancy" for c in rv.idx)
        if (org and org[0] == "alloc") or advanced:
            ctx.ok("R-INIT-COHERENCE", f"self.{d} is re-created by init()", nontrivial=False)
        else:
            ctx.violation("R-INIT-COHERENCE", fn.path, "Problem.init", f"not-fresh:{d}", f"{fn.path}:{first.line}",
                          f"self.{d} is not assigned from a fresh allocation: a second init() (second solver on the same problem) would build on stale data")
    for e in evs:
        if e.kind == "mcall" and e.name in ("append", "extend", "insert") and isinstance(as_view(e.recv), View) and as_view(e.recv).root.startswith("self."):
            ctx.violation("R-INIT-COHERENCE", fn.path, "Problem.init", f"accumulates:{as_view(e.recv).root}", f"{fn.path}:{e.line}",
                          f"init() accumulates into {as_view(e.recv).root}: repeated solver construction changes the problem")
    # (d) dtype / extents of the trigger table
    trg = [e for e in evs if e.kind == "store" and e.root == "self.triggers" and not e.idx]
    if trg:
        org = it.allocs.get(as_view(trg[0].value).root)
        shape = org[2][0] if org and org[2] else None
        okk = isinstance(shape, Tup) and len(shape.items) == 2 and as_view(shape.items[0]) == View("self.shr_domain_nb", ()) and as_view(shape.items[1]) == View("self.propagator_nb", ())
        zero = org is not None and org[1] == "numpy.zeros"
        if okk and zero:
            ctx.ok("R-INIT-COHERENCE", "triggers = zeros((shr_domain_nb, propagator_nb))")
        elif not okk:
            ctx.violation("R-INIT-COHERENCE", fn.path, "Problem.init", "triggers-extent", f"{fn.path}:{trg[0].line}",
                          "the wake-up table must have shape (number of shared domains, number of constraints): the engine indexes its first axis with every "
                          "shared-domain index a decision, a replayed alternative or a shaving probe touches (compiled code performs no bounds check)")
        else:
            ctx.violation("R-INIT-COHERENCE", fn.path, "Problem.init", "triggers-shape", f"{fn.path}:{trg[0].line}",
                          "the wake-up table must start as zeros of shape (number of shared domains, number of constraints)")


def _iterates(l: LoopSummary, root: str) -> bool:
    v = l.iter_value
    if isinstance(v, EnumVal):
        v = v.inner
    v = as_view(v)
    return isinstance(v, View) and v.root == root and not v.idx


def _prop_elem(it: Interp, s: State, idx: Aff, k: int) -> View:
    return View("self.propagators", (idx, K(k)))


def _same(it: Interp, s: State, a: Any, b: Any) -> bool:
    a, b = as_view(a), as_view(b)
    if a == b:
        return True
    return it.scalar(s, a) == it.scalar(s, b)


def _is_cell(v: Aff, root: str, idx: Tuple[Any, ...]) -> bool:
    at = v.single_atom()
    if at is None:
        return False
    if at[0] == "init":
        return at[1] == root and tuple(at[2]) == tuple(idx)
    if at[0] == "hav":
        return at[2] == root and tuple(at[3]) == tuple(idx)
    return False


def _is_bounds_slice(sl: Any, root: str, idx: Aff, start: int, end: int) -> bool:
    return (
        isinstance(sl, tuple) and sl[0] == "slice" and isinstance(sl[1], Aff) and isinstance(sl[2], Aff)
        and _is_cell(sl[1], root, (idx, K(start))) and _is_cell(sl[2], root, (idx, K(end)))
    )


def _verdict(ctx: Ctx, fn: FuncInfo, okk: bool, inst: str, e: Event, msg: str) -> None:
    if okk:
        ctx.ok("R-INIT-COHERENCE", inst, sample={"line": e.line})
    else:
        what = repr(View(e.root, e.idx)) if e.kind == "store" else e.name
        ctx.violation("R-INIT-COHERENCE", fn.path, "Problem.init", inst.split(" ")[0].split("[")[0], f"{fn.path}:{e.line}",
                      f"{msg} (found: {what} = {e.value!r})" if e.kind == "store" else f"{msg} (found call {what}{[repr(x) for x in e.args]})")


# ----------------------------------------------------------------------------- split
def rule_split(ctx: Ctx, prog: Program) -> None:
    ctx.rule("R-SPLIT")
    fn = prog.func(f"{prog.package}.{PB_MOD}", "Problem.split")
    ctx.fn(fn.fq)
    if len(fn.params) != 3:
        raise AnalysisError("Problem.split: expected (self, split_nb, var_idx)")
    _, knm, vnm = fn.params
    it = Interp(prog)
    k = init(knm)
    var = init(vnm)
    lo = init("self.shr_domains_lst", var, K(0))
    hi = init("self.shr_domains_lst", var, K(1))
    st0 = State()
    st0.facts.add(cmp_cond("<=", lo, hi))  # contract: the domains of a problem are non-empty
    res = [r for r in it.run(fn, state=st0) if r.outcome == "return"]
    n_loops = 0
    for r in res:
        loops = [l for l in _all_loops(r.state.trace) if l.kind == "for"]
        # (0) what is returned: a list built in this call, filled only by the splitting loop with deep copies
        rv = as_view(r.value)
        built_here = isinstance(rv, View) and not rv.idx and it.allocs.get(rv.root, ("",))[0] in ("list", "alloc", "listcomp", "call") and rv.root.startswith("list#")
        appended_ok = True
        n_app = 0
        for l in loops:
            for bp in l.paths:
                copies_ = [as_view(e.ret) for e in bp.events if e.kind == "call" and e.name == "copy.deepcopy"]
                for e in bp.events:
                    if e.kind == "mcall" and e.name in ("append", "insert", "extend") and as_view(e.recv) == rv:
                        n_app += 1
                        if not (len(e.args) == 1 and as_view(e.args[0]) in copies_):
                            appended_ok = False
        outside = [e for e in r.events if e.kind == "mcall" and e.name in ("append", "insert", "extend") and as_view(e.recv) == rv]
        if built_here and loops and appended_ok and n_app >= 1 and not outside:
            ctx.ok("R-SPLIT", "returns a fresh list holding only the deep copies made by the splitting loop", sample={"returned": repr(rv)})
        else:
            what = repr(r.value) if not built_here else ("no part is appended" if n_app == 0 or not loops else "something other than a deep copy is appended")
            ctx.violation("R-SPLIT", fn.path, "Problem.split", "returned-parts", f"{fn.path}:{_ret_line_of(r)}",
                          f"split has a path that returns {what}: every returned sub-problem must be a deep copy made by the splitting loop "
                          "(returning the problem itself lets a later change of a part alter the original)")
        for l in loops:
            n_loops += 1
            rv = l.iter_value
            parts = rv.stop - rv.start if rv.__class__.__name__ == "RangeVal" else None
            if parts is None:
                # `for part in <parts computed by something else>`: the arithmetic of the parts is not in this loop; no verdict on it
                raise AnalysisError("Problem.split: the splitting loop does not run over a range of part numbers (the parts are computed elsewhere): "
                                    "the partition clauses of R-SPLIT have no model of this shape")
            # (iv) number of parts bounded by the domain size
            f = r.state.facts
            size = hi - lo + ONE
            if parts is not None and f.decide(cmp_cond("<=", parts, size)) is True:
                ctx.ok("R-SPLIT", "number of parts <= domain size before the loop", sample={"parts": show_val(parts)})
            else:
                ctx.violation("R-SPLIT", fn.path, "Problem.split", "parts-bounded", fn.loc(),
                              "the number of parts is not bounded by the size of the domain before the splitting loop: with more parts than "
                              "values the surplus parts get the empty domain [m, m-1], which the solver cannot digest")
            for bp in l.paths:
                s = bp.state
                stores = [e for e in bp.events if e.kind == "store"]
                # (i) deep copy per part; the only store targets the copy
                copies = [e for e in bp.events if e.kind == "call" and e.name == "copy.deepcopy"]
                okc = len(copies) == 1 and as_view(copies[0].args[0]) == View("self", ())
                if not okc:
                    ctx.violation("R-SPLIT", fn.path, "Problem.split", "deepcopy", fn.loc(), "each part must be a deep copy of the problem")
                    continue
                croot = as_view(copies[0].ret).root
                bad = [e for e in stores if not (e.root or "").startswith(croot)]
                muts = [e for e in bp.events if e.kind == "mcall" and isinstance(as_view(e.recv), View) and as_view(e.recv).root.startswith("self")
                        and e.name in ("append", "extend", "insert", "pop", "remove", "clear", "sort", "__setitem__")]
                if bad or muts:
                    x = (bad + muts)[0]
                    ctx.violation("R-SPLIT", fn.path, "Problem.split", "original-untouched", f"{fn.path}:{x.line}",
                                  "split modifies the original problem (a store or mutation that does not go through the copy)")
                else:
                    ctx.ok("R-SPLIT", "stores go through the deep copy only")
                dom_stores = [e for e in stores if e.root == f"{croot}.shr_domains_lst"]
                whole = [e for e in dom_stores if len(e.idx) == 1]
                elems = [e for e in dom_stores if len(e.idx) == 2]
                cell_ok = all(e.idx[0] == var for e in dom_stores) and (
                    (len(whole) == 1 and not elems) or
                    (not whole and len(elems) == 2 and sorted(x.idx[1].c for x in elems if isinstance(x.idx[1], Aff) and x.idx[1].is_const()) == [0, 1]))
                if not cell_ok:
                    ctx.violation("R-SPLIT", fn.path, "Problem.split", "single-cell", fn.loc(),
                                  "each part must differ from the original in exactly the split variable's domain")
                    continue
                if elems:
                    # narrowing in place is confined to the split variable only if no other position holds the same list object: the deep
                    # copy preserves sharing, so every writer of the domain list must store lists created on the spot
                    fresh, sites, nw = domain_lists_fresh(prog)
                    if not fresh:
                        ctx.violation("R-SPLIT", fn.path, "Problem.split", "single-cell:aliased-domain-lists", f"{fn.path}:{elems[0].line}",
                                      f"split narrows the split variable's [min, max] list in place, and {sites[0][0]} (line {sites[0][1]}) stores a "
                                      "domain list it did not create: two positions written as the same list object (e.g. [[0, n-1]] * n) stay the "
                                      "same object in the deep copy, so the part narrows every one of them -- solutions are lost")
                        continue
                    ctx.ok("R-SPLIT", "in-place narrowing: every writer of the domain list stores lists created on the spot", sample={"writers": nw})
                items = None
                e = dom_stores[0]
                if elems:
                    pm_ = _part_bounds(it, bp)
                    items = pm_
                else:
                    val = e.value
                    if isinstance(val, Tup) and len(val.items) == 2:
                        items = [it.scalar(s, x) for x in val.items]
                    else:
                        # the interpreter coerces list literals to an opaque scalar when storing; re-evaluate the node
                        node = e.node.value if isinstance(e.node, ast.Assign) else None
                        if isinstance(node, (ast.List, ast.Tuple)) and len(node.elts) == 2:
                            items = []
                            for el in node.elts:
                                if isinstance(el, ast.Name) and el.id in s.env:
                                    items.append(it.scalar(s, s.env[el.id]))
                            if len(items) != 2:
                                items = None
                if items is None:
                    ctx.violation("R-SPLIT", fn.path, "Problem.split", "part-domain", f"{fn.path}:{e.line}", "cannot read the part's [min, max]")
                    continue
                pmin, pmax = items
                # (ii) adjacency: the loop-carried minimum of the next part is this part's max + 1
                carried = [nm for nm in l.assigned if isinstance(l.pre_env.get(nm), (Aff, Dual, View)) and nm in s.env]
                adj = False
                first_ok = False
                for nm in carried:
                    start_atom = Aff.atom(("lv", nm, l.loop_id))
                    if pmin == start_atom:
                        if it.scalar(s, s.env[nm]) == pmax + ONE:
                            adj = True
                        if it.scalar(r.state, l.pre_env[nm]) == lo:
                            first_ok = True
                # (ii') the part moves with the domain: translating the split domain by t (lo, hi and the carried start all move by t) must
                # translate the part's maximum by t -- the coefficients of those symbols in pmax sum to 1.  A maximum laid out in absolute
                # coordinates (as if the domain started at 0) fails this for every domain that does not start at 0.
                if isinstance(pmax, Aff):
                    movers = [lo.single_atom(), hi.single_atom()]
                    for nm in carried:
                        pv = l.pre_env.get(nm)
                        if isinstance(pv, (Aff, Dual)) and any(a_ in (lo.single_atom(), hi.single_atom()) for a_ in atoms_in(it.scalar(r.state, pv))):
                            movers.append(("lv", nm, l.loop_id))
                    cov = sum(pmax.coef(a_) for a_ in movers if a_ is not None)
                    _v(ctx, fn, cov == 1, "translation: the part's maximum moves with the split domain", e,
                       f"the maximum of a part ({show_val(pmax)}) does not move with the split domain (the symbols that shift with the domain have total "
                       f"coefficient {cov}, expected 1): the parts are laid out as if the domain started at 0, so for any other minimum the last parts "
                       "run past the declared maximum (values outside the domain are enumerated)")
                _v(ctx, fn, adj, "adjacency: min of part i+1 = max of part i + 1", e,
                   "consecutive parts must be adjacent (next minimum = this maximum + 1): otherwise parts overlap or leave a gap")
                _v(ctx, fn, first_ok, "first part starts at the domain minimum", e, "the first part must start at the minimum of the split domain")
    ctx.floor("R-SPLIT:loops", n_loops, 1)
    _copy_protocol(ctx, prog)
    # (vi) the parts cover the domain exactly: sizes are q + 1 for the first r parts and q for the others, q = s // k, r = s % k.
    # Lemma (arithmetic, proved once by hand): sum_{i<k} (q + [i < r]) = k*q + r = s for 0 <= r < k.  The rule recognises the two sizes and
    # the threshold of the conditional; an off-by-constant threshold is a definite violation, an unrecognised distribution is undecided.
    decided = False
    for r in res:
        for l in [l for l in _all_loops(r.state.trace) if l.kind == "for"]:
            rv = l.iter_value
            if rv.__class__.__name__ != "RangeVal" or not (rv.start == ZERO):
                continue
            Kp = rv.stop
            sz = hi - lo + ONE
            sizes = []
            for bp in l.paths:
                pm = _part_bounds(it, bp)
                if pm is None:
                    sizes = []
                    break
                sizes.append((bp, pm[1] - pm[0] + ONE))
            if len(sizes) < 2:
                continue
            q = Aff.atom(("floordiv", sz, Kp))
            rr = Aff.atom(("mod", sz, Kp))
            consts = [(bp, (sv - q)) for bp, sv in sizes]
            if not all(c.is_const() for _, c in consts):
                continue
            big = [bp for bp, c in consts if c.c == 1]
            small = [bp for bp, c in consts if c.c == 0]
            if not big or not small or len(big) + len(small) != len(consts):
                continue
            idx = l.index
            # the threshold of the conditional must be the remainder of the SAME division as the quotient (same size, same number of parts)
            foreign = []
            for bp in big + small:
                for cnd in bp.state.facts.conds:
                    if idx.single_atom() in atoms_in(cnd):
                        for a_ in atoms_in(cnd):
                            if isinstance(a_, tuple) and a_[0] == "mod" and Aff.atom(a_) != rr and a_ not in foreign:
                                foreign.append(a_)
            if foreign:
                decided = True
                ctx.violation("R-SPLIT", fn.path, "Problem.split", "covers-domain", f"{fn.path}:{getattr(l.node, 'lineno', 0)}",
                              f"the extra value is given to the parts below {show_val(Aff.atom(foreign[0]))}, which is not the remainder of the division that "
                              f"gives the part size ({show_val(rr)}): the sizes no longer add up to the size of the split domain (parts run past its maximum "
                              "or stop short of it)")
                continue
            for d in (0, 1, -1, 2, -2):
                okb = all(bp.state.facts.decide(cmp_cond("<=", idx, rr.addc(d - 1))) is True for bp in big)
                oks = all(bp.state.facts.decide(cmp_cond(">=", idx, rr.addc(d))) is True for bp in small)
                if okb and oks:
                    decided = True
                    if d == 0:
                        ctx.ok("R-SPLIT", "parts cover the domain exactly: size s//k + 1 for the first s % k parts, s//k for the others",
                               sample={"q": show_val(q), "r": show_val(rr), "lemma": "sum_{i<k}(q + [i<r]) = k*q + r = s"})
                    else:
                        ctx.violation("R-SPLIT", fn.path, "Problem.split", "covers-domain", f"{fn.path}:{getattr(l.node, 'lineno', 0)}",
                                      f"the remainder of the division is spread over s % k {'+' if d > 0 else '-'} {abs(d)} parts instead of s % k: the parts "
                                      f"cover s {'+' if d > 0 else '-'} {abs(d)} values, so the last part ends {'beyond' if d > 0 else 'before'} the maximum of the split domain "
                                      "(values outside the domain are manufactured / solutions are lost)")
                    break
    if not decided:
        ctx.undecided_site("R-SPLIT", "covers-domain", "the distribution of sizes over the parts is not of the recognised form q+[i<r]: 'the last part ends at the domain maximum' is not decided")


COPY_HOOKS = ("__getstate__", "__deepcopy__", "__copy__", "__reduce__", "__reduce_ex__", "__getnewargs__", "__getnewargs_ex__")


def _copy_protocol(ctx: Ctx, prog: Program) -> None:
    """split() copies the problem with copy.deepcopy, which runs the copy / pickle hooks of the class *on the original*.  A hook that edits
    the object's own attribute dictionary (`state = self.__dict__; state.pop(..)`) or assigns / deletes attributes strips the original while
    it is being copied: 'splitting leaves the original problem unchanged' no longer holds."""
    m = prog.modules.get(f"{prog.package}.{PB_MOD}")
    hooks = [(n, f) for n, f in (m.classes.get("Problem", {}) if m else {}).items() if n in COPY_HOOKS]
    if not hooks:
        ctx.ok("R-SPLIT", "Problem defines no copy / pickle hook: deepcopy reads the original only", nontrivial=False)
        return
    for name, f in hooks:
        aliases = {"self.__dict__", "vars(self)"}
        for n in ast.walk(f.node):
            if isinstance(n, ast.Assign) and len(n.targets) == 1 and isinstance(n.targets[0], ast.Name) and ast.unparse(n.value) in ("self.__dict__", "vars(self)"):
                aliases.add(n.targets[0].id)
        bad = None
        for n in ast.walk(f.node):
            if isinstance(n, ast.Call) and isinstance(n.func, ast.Attribute) and ast.unparse(n.func.value) in aliases \
                    and n.func.attr in ("pop", "popitem", "clear", "update", "setdefault", "__setitem__", "__delitem__"):
                bad = n
            if isinstance(n, ast.Delete) and any(ast.unparse(t.value) in aliases for t in n.targets if isinstance(t, ast.Subscript)):
                bad = n
            if isinstance(n, ast.Delete) and any(isinstance(t, ast.Attribute) and ast.unparse(t.value) == "self" for t in n.targets):
                bad = n
            if isinstance(n, (ast.Assign, ast.AugAssign)):
                for t in (n.targets if isinstance(n, ast.Assign) else [n.target]):
                    if (isinstance(t, ast.Subscript) and ast.unparse(t.value) in aliases) or (isinstance(t, ast.Attribute) and ast.unparse(t.value) == "self"):
                        bad = n
        # a hand-written copy hook: every list-valued attribute of the model must be deep-copied, or the parts share it with the original
        shared: List[str] = []
        if name in ("__deepcopy__", "__copy__"):
            init_ = m.classes.get("Problem", {}).get("__init__")
            lists_ = set()
            if init_ is not None:
                for n in ast.walk(init_.node):
                    tg = n.targets[0] if isinstance(n, ast.Assign) and len(n.targets) == 1 else n.target if isinstance(n, ast.AnnAssign) else None
                    if isinstance(tg, ast.Attribute) and isinstance(tg.value, ast.Name) and tg.value.id == "self" and n.value is not None \
                            and (isinstance(n.value, (ast.List, ast.ListComp, ast.Dict)) or (isinstance(n.value, ast.Name) and n.value.id.endswith("_lst"))):
                        lists_.add(tg.attr)
            deep = set()
            for n in ast.walk(f.node):
                if isinstance(n, ast.Assign) and len(n.targets) == 1 and isinstance(n.targets[0], ast.Attribute) and isinstance(n.value, ast.Call) \
                        and ast.unparse(n.value.func) in ("copy.deepcopy", "deepcopy"):
                    deep.add(n.targets[0].attr)
            whole = any(isinstance(n, ast.Call) and ast.unparse(n.func) in ("copy.deepcopy", "deepcopy") and n.args and ast.unparse(n.args[0]) in ("self.__dict__", "vars(self)")
                        for n in ast.walk(f.node))
            if not whole:
                shared = sorted(lists_ - deep)
        if shared and bad is None:
            ctx.violation("R-SPLIT", f.path, f"Problem.{name}", f"deepcopy:hook-shares:{shared[0]}", f.loc(),
                          f"Problem.{name} replaces copy.deepcopy for the parts made by split and does not deep-copy {shared}: the parts and the original "
                          "share those lists, so refining one part (adding a constraint) changes the original and every other part")
        elif bad is None:
            ctx.ok("R-SPLIT", f"Problem.{name} does not modify the object it is asked to describe")
        else:
            ctx.violation("R-SPLIT", f.path, f"Problem.{name}", "original-untouched:copy-hook", f"{f.path}:{bad.lineno}",
                          f"Problem.{name} is run by copy.deepcopy (hence by split) on the ORIGINAL problem and modifies it (`{ast.unparse(bad)[:60]}` acts on the "
                          "object's own attribute dictionary): splitting strips the original of what the hook removes -- a solver built on it before the "
                          "split fails afterwards")


def _part_bounds(it, bp):
    """[min, max] stored into the copy's domain list on this body path, or None.  Two forms: the cell is replaced by a fresh pair, or
    its two elements are overwritten in place."""
    inplace = {}
    for e in bp.events:
        if e.kind == "store" and e.root and e.root.endswith(".shr_domains_lst") and not e.root.startswith("self."):
            if len(e.idx) == 2 and isinstance(e.idx[1], Aff) and e.idx[1].is_const() and e.idx[1].c in (0, 1):
                inplace[e.idx[1].c] = it.scalar(bp.state, e.value)
                continue
            val = e.value
            if isinstance(val, Tup) and len(val.items) == 2:
                return [it.scalar(bp.state, x) for x in val.items]
            node = e.node.value if isinstance(e.node, ast.Assign) else None
            if isinstance(node, (ast.List, ast.Tuple)) and len(node.elts) == 2:
                items = []
                for el in node.elts:
                    if isinstance(el, ast.Name) and el.id in bp.state.env:
                        items.append(it.scalar(bp.state, bp.state.env[el.id]))
                if len(items) == 2:
                    return items
    if len(inplace) == 2:
        return [inplace[0], inplace[1]]
    return None


def _fresh_pair(prog: Program, mod: str, e: ast.expr, elem: str, depth: int = 0) -> bool:
    """Is the expression a list object created at this point (so that no two positions of the domain list, and no caller-owned object,
    can be the same object)?  `elem` is the name of the value being converted."""
    if isinstance(e, (ast.List, ast.ListComp)):
        return True
    if isinstance(e, ast.IfExp):
        return _fresh_pair(prog, mod, e.body, elem, depth) and _fresh_pair(prog, mod, e.orelse, elem, depth)
    if isinstance(e, ast.Call) and isinstance(e.func, ast.Name) and e.func.id == "list" and len(e.args) == 1:
        return True
    if isinstance(e, ast.Call) and isinstance(e.func, ast.Name) and depth < 3:
        r = prog.resolve(mod, e.func.id)
        if r and r[0] == "func":
            f = r[1]
            rets = [n for n in ast.walk(f.node) if isinstance(n, ast.Return)]
            return bool(rets) and all(n.value is not None and _fresh_pair(prog, f.module, n.value, elem, depth + 1) for n in rets)
    return False


def domain_lists_fresh(prog: Program) -> Tuple[bool, List[Tuple[str, int]], int]:
    """Every writer of Problem.shr_domains_lst stores lists created on the spot: (all fresh, offending sites, writers seen)."""
    m = prog.modules.get(f"{prog.package}.{PB_MOD}")
    if m is None:
        raise AnalysisError("anchor module vanished: problems.problem")
    bad: List[Tuple[str, int]] = []
    n = 0
    for meth, f in m.classes.get("Problem", {}).items():
        for node in ast.walk(f.node):
            elts: List[ast.expr] = []
            if isinstance(node, ast.Assign) and any(isinstance(t, ast.Attribute) and t.attr == "shr_domains_lst" and isinstance(t.value, ast.Name) and t.value.id == "self"
                                                    for t in node.targets):
                v = node.value
                if isinstance(v, ast.ListComp):
                    elts = [v.elt]
                elif isinstance(v, ast.List):
                    elts = list(v.elts)
                else:
                    bad.append((f"Problem.{meth}", node.lineno))
                    n += 1
                    continue
            elif isinstance(node, ast.Call) and isinstance(node.func, ast.Attribute) and node.func.attr in ("append", "extend", "insert") \
                    and isinstance(node.func.value, ast.Attribute) and node.func.value.attr == "shr_domains_lst" \
                    and isinstance(node.func.value.value, ast.Name) and node.func.value.value.id == "self" and node.args:
                a = node.args[-1]
                if node.func.attr == "extend":
                    if isinstance(a, ast.ListComp):
                        elts = [a.elt]
                    elif isinstance(a, ast.List):
                        elts = list(a.elts)
                    else:
                        bad.append((f"Problem.{meth}", node.lineno))
                        n += 1
                        continue
                else:
                    elts = [a]
            else:
                continue
            n += 1
            for el in elts:
                if not _fresh_pair(prog, m.name, el, ""):
                    bad.append((f"Problem.{meth}", node.lineno))
    return (not bad, bad, n)


def _ret_line_of(r) -> int:
    for e in reversed(r.events):
        if e.kind == "return":
            return e.line
    return 0


def _v(ctx: Ctx, fn: FuncInfo, okk: bool, inst: str, e: Event, msg: str) -> None:
    if okk:
        ctx.ok("R-SPLIT", inst)
    else:
        ctx.violation("R-SPLIT", fn.path, "Problem.split", inst.split(":")[0].replace(" ", "-"), f"{fn.path}:{e.line}", msg)


# ------------------------------------------------------------------------------------------ R-DOMAIN-LISTS
def rule_domain_lists(ctx: Ctx, prog: Program) -> None:
    """A model may write several domains as one Python object (`[[0, n - 1]] * n`, a reused list variable) or as distinct objects: the
    two writings mean the same.  They behave the same as long as either (a) every writer of Problem.shr_domains_lst stores [min, max]
    lists created on the spot, or (b) no code of the package overwrites an element of such a list in place.  Rule: if some function
    stores into `<problem>.shr_domains_lst[i][k]`, then (a) must hold."""
    ctx.rule("R-DOMAIN-LISTS")
    sites: List[Tuple[str, str, int, str]] = []
    for f in prog.all_functions():
        for node in ast.walk(f.node):
            tgts: List[ast.expr] = []
            if isinstance(node, ast.Assign):
                tgts = list(node.targets)
            elif isinstance(node, (ast.AugAssign, ast.AnnAssign)):
                tgts = [node.target]
            for t in tgts:
                for tt in (t.elts if isinstance(t, ast.Tuple) else [t]):
                    if isinstance(tt, ast.Subscript) and isinstance(tt.value, ast.Subscript) and isinstance(tt.value.value, ast.Attribute) \
                            and tt.value.value.attr == "shr_domains_lst":
                        sites.append((f.path, ast.unparse(tt), node.lineno, f.qualname))
    fresh, bad, nw = domain_lists_fresh(prog)
    ctx.floor("R-DOMAIN-LISTS", nw, 3)
    if sites and not fresh:
        rel, txt, line, qn = sites[0]
        ctx.violation("R-DOMAIN-LISTS", rel, qn, "aliased-domain-lists", f"{rel}:{line}",
                      f"`{txt} = ...` overwrites an element of a domain's [min, max] list in place, and {bad[0][0]} (line {bad[0][1]}) stores a domain "
                      "list it did not create: a model that writes two domains as the same list object (e.g. [[0, n-1]] * n) no longer behaves "
                      "like the same model written with distinct objects or tuples")
    else:
        ctx.ok("R-DOMAIN-LISTS", "no in-place store into a domain's [min, max] list" if not sites else
               "in-place stores into domain lists, and every writer of the domain list stores lists created on the spot",
               sample={"in_place_sites": len(sites), "writers": nw, "all_fresh": fresh})


# ------------------------------------------------------------------------------------------ R-OPTIONAL-ZERO
def rule_optional_zero(ctx: Ctx, prog: Program) -> None:
    """An optional integer argument of the model API (`dom_index: Optional[int] = None`, a shared-domain index or an offset) has 0 among its
    valid values.  Resolving 'not given' by truthiness (`x or default`, `if not x`, `if x`) treats the valid value 0 as absent: a variable
    declared on shared domain 0 silently gets a private domain, an offset 0 ... Rule: an Optional[int] parameter is only ever tested with
    `is None` / `is not None`."""
    ctx.rule("R-OPTIONAL-ZERO")
    n = 0
    for f in prog.all_functions():
        if not (f.module.startswith(f"{prog.package}.problems") or f.module.startswith(f"{prog.package}.solvers")):
            continue
        a = f.node.args
        ps = a.posonlyargs + a.args + a.kwonlyargs
        opt_int = set()
        for p in ps:
            ann = ast.unparse(p.annotation) if p.annotation is not None else ""
            if ann.replace(" ", "") in ("Optional[int]", "int|None", "None|int", "Union[int,None]"):
                opt_int.add(p.arg)
        _element_truthiness(ctx, f, ps)
        if not opt_int:
            continue
        # the parameter may be re-bound after its 'is None' resolution; only uses before the first assignment to it are concerned
        for node in ast.walk(f.node):
            bad = None
            if isinstance(node, ast.BoolOp) and isinstance(node.op, ast.Or) and isinstance(node.values[0], ast.Name) and node.values[0].id in opt_int \
                    and not (len(node.values) == 2 and isinstance(node.values[1], ast.Constant) and type(node.values[1].value) is int and node.values[1].value == 0):
                # (`x or 0` is exempt: the value 0 and 'not given' resolve to the same 0)
                bad = (node.values[0].id, f"`{ast.unparse(node)}`")
            if isinstance(node, (ast.If, ast.IfExp, ast.While)):
                t = node.test
                if isinstance(t, ast.UnaryOp) and isinstance(t.op, ast.Not):
                    t = t.operand
                if isinstance(t, ast.Name) and t.id in opt_int:
                    bad = (t.id, f"`{ast.unparse(node.test)}` used as a test")
            if bad and not _assigned_before(f.node, bad[0], node.lineno):
                ctx.violation("R-OPTIONAL-ZERO", f.path, f.qualname, f"truthiness:{bad[0]}", f"{f.path}:{node.lineno}",
                              f"{f.qualname} resolves its optional integer argument '{bad[0]}' by truthiness ({bad[1]}): the valid value 0 "
                              "(first shared domain, null offset, variable 0) is treated as 'not given'")
        for p in sorted(opt_int):
            n += 1
            ctx.ok("R-OPTIONAL-ZERO", f"{f.qualname}: optional integer '{p}' is only tested with `is None`", nontrivial=False)
    ctx.floor("R-OPTIONAL-ZERO:optional-int-parameters", n, 2)


def _element_truthiness(ctx: Ctx, f: FuncInfo, ps: List[ast.arg]) -> None:
    """The same for the *elements* of a list-of-integers argument (givens of a square, costs, capacities): a value reached by iterating
    such an argument down to its integers is a value of the model, 0 included; testing it for truth takes the value 0 for 'absent'."""
    depth: Dict[str, int] = {}  # name -> number of list levels left above the integers
    for p_ in ps:
        ann = ast.unparse(p_.annotation).replace(" ", "") if p_.annotation is not None else ""
        if ann.startswith("Optional[") and ann.endswith("]"):
            ann = ann[9:-1]
        k = 0
        while ann.startswith("List[") and ann.endswith("]"):
            ann = ann[5:-1]
            k += 1
        if k and ann == "int":
            depth[p_.arg] = k
    if not depth:
        return
    changed = True
    while changed:
        changed = False
        for node in ast.walk(f.node):
            pairs = []
            if isinstance(node, ast.For):
                pairs.append((node.target, node.iter))
            for g in getattr(node, "generators", []) or []:
                pairs.append((g.target, g.iter))
            for tgt, it in pairs:
                if isinstance(tgt, ast.Name) and isinstance(it, ast.Name) and depth.get(it.id, 0) >= 1 and tgt.id not in depth:
                    depth[tgt.id] = depth[it.id] - 1
                    changed = True
    ints = {k_ for k_, d_ in depth.items() if d_ == 0}
    if not ints:
        return
    for node in ast.walk(f.node):
        tests: List[ast.expr] = []
        if isinstance(node, (ast.If, ast.IfExp, ast.While)):
            tests.append(node.test)
        for g in getattr(node, "generators", []) or []:
            tests.extend(g.ifs)
        if isinstance(node, ast.BoolOp):
            tests.extend(node.values[:-1] if isinstance(node.op, ast.Or) else node.values)
        for t in tests:
            while isinstance(t, ast.UnaryOp) and isinstance(t.op, ast.Not):
                t = t.operand
            if isinstance(t, ast.Name) and t.id in ints:
                ctx.violation("R-OPTIONAL-ZERO", f.path, f.qualname, f"element-truthiness:{t.id}", f"{f.path}:{t.lineno}",
                              f"{f.qualname} tests '{t.id}', an integer taken from a list-of-integers argument, for truth: the value 0 is a value of the "
                              "model like any other (a given cell of colour 0) and is taken for 'absent' (the model translated so that a given "
                              "becomes 0 loses that given: its solution set is no longer the translate of the original's)")
    ctx.ok("R-OPTIONAL-ZERO", f"{f.qualname}: the integers of its list arguments ({', '.join(sorted(ints))}) are never tested for truth", nontrivial=False)


def _assigned_before(fn: ast.FunctionDef, name: str, line: int) -> bool:
    for n in ast.walk(fn):
        if isinstance(n, ast.Assign) and getattr(n, "end_lineno", n.lineno) < line and any(isinstance(t, ast.Name) and t.id == name for t in n.targets) \
                and not isinstance(n.value, ast.BoolOp):
            # re-bound unconditionally at function level?
            if n in fn.body:
                return True
    return False


# ------------------------------------------------------------------------------------------ R-CONSTANTS
def rule_constants(ctx: Ctx, prog: Program, want: Tuple[str, ...] = ("events", "status", "axes", "stats")) -> None:
    """The engine's protocol constants are a vocabulary: event bits must be three distinct single bits and the combined masks their unions;
    the three answers of a propagator (and of a pass) must be pairwise distinct; the two positions of every 2-wide axis must be 0 and 1; the
    statistics indices must be a permutation of 0..STATS_MAX-1.  Two names folding to the same value merge two protocol states."""
    ctx.rule("R-CONSTANTS")
    C = prog.C
    path = "nucs/constants.py"

    def bad(key: str, msg: str) -> None:
        ctx.violation("R-CONSTANTS", path, "<module>", key, f"{path}:1", msg)

    if "events" in want:
        b = {n: C(f"EVENT_MASK_{n}") for n in ("MIN", "MAX", "GROUND")}
        single = all(isinstance(v, int) and v > 0 and v & (v - 1) == 0 for v in b.values())
        if not single or len(set(b.values())) != 3:
            bad("events:bits", f"the event bits are not three distinct single bits: {b}")
        else:
            ctx.ok("R-CONSTANTS", "event bits are three distinct single bits", sample=b)
        combos = {"MIN_MAX": ("MIN", "MAX"), "MIN_GROUND": ("MIN", "GROUND"), "MAX_GROUND": ("MAX", "GROUND"), "MIN_MAX_GROUND": ("MIN", "MAX", "GROUND")}
        for nm, parts in combos.items():
            want_v = 0
            for p_ in parts:
                want_v |= b[p_]
            got = C(f"EVENT_MASK_{nm}")
            if got != want_v:
                bad(f"events:{nm}", f"EVENT_MASK_{nm} is {got}, not the union of {'|'.join(parts)} ({want_v}): a decision or a write-back announced with it wakes the wrong watchers")
            else:
                ctx.ok("R-CONSTANTS", f"EVENT_MASK_{nm} = " + " | ".join(parts), nontrivial=False)
    if "status" in want:
        for fam, names in (("PROP", ("PROP_INCONSISTENCY", "PROP_CONSISTENCY", "PROP_ENTAILMENT")), ("PROBLEM", ("PROBLEM_INCONSISTENT", "PROBLEM_UNBOUND", "PROBLEM_BOUND"))):
            vals = {n: C(n) for n in names}
            if len(set(vals.values())) != 3:
                bad(f"status:{fam}", f"the three {fam}_* answers are not pairwise distinct: {vals}")
            else:
                ctx.ok("R-CONSTANTS", f"{fam}_* answers pairwise distinct", sample=vals)
    if "axes" in want:
        for a_, b_ in (("MIN", "MAX"), ("RG_START", "RG_END"), ("DOM_UPDATE_IDX", "DOM_UPDATE_EVENTS")):
            if {C(a_), C(b_)} != {0, 1}:
                bad(f"axes:{a_}", f"{a_} / {b_} are {C(a_)} / {C(b_)}: the two positions of a 2-wide axis must be 0 and 1")
            else:
                ctx.ok("R-CONSTANTS", f"{a_}/{b_} are the two positions of a 2-wide axis", nontrivial=False)
    if "stats" in want:
        m = prog.modules.get(f"{prog.package}.constants")
        idx = {n: v for n, v in (m.consts.items() if m else []) if n.startswith("STATS_IDX_")}
        mx = C("STATS_MAX")
        if sorted(idx.values()) != list(range(mx)):
            bad("stats:indices", f"the statistics indices are not a permutation of 0..STATS_MAX-1 ({sorted(idx.values())} vs {mx})")
        else:
            ctx.ok("R-CONSTANTS", f"{len(idx)} statistics indices = 0..STATS_MAX-1", sample={"STATS_MAX": mx})
        lbl = {n: v for n, v in (m.consts.items() if m else []) if n.startswith("STATS_LBL_")}
        if len(set(lbl.values())) != len(lbl) or len(lbl) != mx:
            bad("stats:labels", f"the statistics labels are not {mx} distinct strings")
        else:
            ctx.ok("R-CONSTANTS", "statistics labels distinct", nontrivial=False)


# ------------------------------------------------------------------------------------------ R-PROBLEM-READONLY / R-OPTIONAL-OVERRIDE
MUTATORS_ = ("append", "extend", "insert", "pop", "remove", "clear", "sort", "reverse", "update", "setdefault", "__setitem__", "fill")


def rule_problem_readonly(ctx: Ctx, prog: Program) -> None:
    """A solver works on its own copies (the choice-point stacks, built from the problem when the search is (re)initialised).  The problem
    object is the *model*: it can be given to further solvers, extended, re-solved.  Solver code that stores into the problem's lists or
    arrays -- directly or through a local bound to one of them -- changes the model as a side effect of solving it (an objective bound
    left in the domains after an optimisation: the next solve of the 'same' model sees a truncated one).  Rule: in the solvers package
    nothing is stored through `self.problem` / a `problem` parameter; the only call that may change it is `problem.init()`."""
    ctx.rule("R-PROBLEM-READONLY")
    n = n_bad = 0
    fields: Set[str] = set()  # what the model consists of: the attributes its own class (and subclasses) define
    for f in prog.all_functions():
        if f.cls and f.module.startswith(f"{prog.package}.problems"):
            for node in ast.walk(f.node):
                if isinstance(node, (ast.Assign, ast.AnnAssign, ast.AugAssign)):
                    for t in (node.targets if isinstance(node, ast.Assign) else [node.target]):
                        if isinstance(t, ast.Attribute) and isinstance(t.value, ast.Name) and t.value.id == "self":
                            fields.add(t.attr)
    if len(fields) < 5:
        raise AnalysisError(f"R-PROBLEM-READONLY: only {len(fields)} model fields found in {prog.package}.problems")
    for f in prog.all_functions():
        if f.njit or not f.module.startswith(f"{prog.package}.solvers"):
            continue
        roots = {"self.problem", "problem"} if ("problem" in f.params or f.cls) else set()
        if not roots:
            continue

        def rooted(e: ast.AST) -> bool:
            cur = e
            while isinstance(cur, (ast.Subscript, ast.Attribute)):
                if ast.unparse(cur) in roots:
                    return True
                cur = cur.value
            return ast.unparse(cur) in roots if isinstance(cur, (ast.Name, ast.Attribute)) else False

        aliases: Set[str] = set()
        for node in ast.walk(f.node):
            if isinstance(node, ast.Assign) and len(node.targets) == 1 and isinstance(node.targets[0], ast.Name) \
                    and isinstance(node.value, (ast.Subscript, ast.Attribute)) and rooted(node.value) and ast.unparse(node.value) not in roots:
                aliases.add(node.targets[0].id)  # a list / row of the problem: a store through it is a store into the problem
        n += 1
        for node in ast.walk(f.node):
            tg: List[ast.expr] = []
            if isinstance(node, ast.Assign):
                tg = list(node.targets)
            elif isinstance(node, (ast.AugAssign, ast.AnnAssign)):
                tg = [node.target]
            elif isinstance(node, ast.Delete):
                tg = list(node.targets)
            bad = None
            for t in tg:
                for x in (t.elts if isinstance(t, ast.Tuple) else [t]):
                    if isinstance(x, (ast.Subscript, ast.Attribute)) and (rooted(x.value) or (isinstance(x, ast.Subscript) and isinstance(x.value, ast.Name) and x.value.id in aliases)):
                        if ast.unparse(x) == "self.problem":
                            continue
                        if isinstance(x, ast.Attribute) and ast.unparse(x.value) in roots and x.attr not in fields:
                            continue  # an attribute the model does not define (a back-reference, a cache): not part of its meaning
                        bad = x
            if isinstance(node, ast.Call) and isinstance(node.func, ast.Attribute) and node.func.attr in MUTATORS_ \
                    and (rooted(node.func.value) and ast.unparse(node.func.value) not in roots or (isinstance(node.func.value, ast.Name) and node.func.value.id in aliases)):
                bad = node
            if bad is not None:
                n_bad += 1
                ctx.violation("R-PROBLEM-READONLY", f.path, f.qualname, f"writes-problem:{ast.unparse(bad)[:40]}", f"{f.path}:{bad.lineno}",
                              f"{f.qualname} stores into the problem it solves (`{ast.unparse(bad)[:70]}`): the model is changed as a side effect of solving it, so "
                              "solving it again, extending it or giving it to another solver no longer addresses the model that was written down "
                              "(e.g. the objective bound of a finished optimisation stays in the domains: the next minimize returns None)")
    # the compiled side of the same rule: the arrays Problem.init() derives from the model travel into the engine as arguments; a store
    # through one of them (an entailed propagator's column of the wake-up table cleared 'at the root') changes the model for every later
    # search, restart and solver
    from ..roles import get_roles
    from .engine import _stores_through
    roles = get_roles(prog)
    n_arr = 0
    for role in ("triggers", "algorithms", "var_bounds", "param_bounds", "dom_indices_arr", "dom_offsets_arr", "props_dom_indices", "props_dom_offsets", "props_parameters"):
        for f, p_ in roles.functions_with_role(role):
            if f.module.startswith(f"{prog.package}.problems") or ".tests" in f.module:
                continue
            n_arr += 1
            if _stores_through(f, p_):
                n_bad += 1
                ctx.violation("R-PROBLEM-READONLY", f.path, f.qualname, f"writes-model-array:{role}", f.loc(),
                              f"{f.qualname} stores through its parameter '{p_}', which carries the problem's {role} array (derived once by Problem.init() and "
                              "shared by every search, restart and solver on that problem): what one search writes there stays for all later ones "
                              "(a propagator made deaf 'at the root' stays deaf after the next restart)")
    ctx.floor("R-PROBLEM-READONLY:model-array-parameters", n_arr, 20)
    if not n_bad:
        ctx.ok("R-PROBLEM-READONLY", "no solver code stores into the problem object (only problem.init() rebuilds its derived arrays)", sample={"functions": n})
    ctx.floor("R-PROBLEM-READONLY:functions-with-a-problem", n, 3)


def rule_optional_override(ctx: Ctx, prog: Program) -> None:
    """An optional argument of the model API that the caller *did* give must be used: an assignment to such a parameter is the resolution
    of 'not given' and has to sit under a test of that very parameter against None.  Assigned under a test of another parameter
    (`if dom_indices_lst is None: ... dom_offsets_lst = [0] * n`) it silently discards what the caller passed."""
    ctx.rule("R-OPTIONAL-ZERO")
    n = 0
    for f in prog.all_functions():
        if f.njit or not (f.module.startswith(f"{prog.package}.problems") or f.module.startswith(f"{prog.package}.solvers")):
            continue
        a = f.node.args
        opt = {p_.arg for p_ in a.posonlyargs + a.args + a.kwonlyargs
               if p_.annotation is not None and (ast.unparse(p_.annotation).replace(" ", "").startswith("Optional[") or "|None" in ast.unparse(p_.annotation).replace(" ", ""))}
        if not opt:
            continue

        def walk(stmts: List[ast.stmt], known_none: Set[str]) -> None:
            nonlocal n
            for st in stmts:
                if isinstance(st, ast.If):
                    t = st.test
                    nm_t = nm_f = None
                    if isinstance(t, ast.Compare) and len(t.ops) == 1 and isinstance(t.left, ast.Name) and isinstance(t.comparators[0], ast.Constant) and t.comparators[0].value is None:
                        if isinstance(t.ops[0], ast.Is):
                            nm_t = t.left.id
                        elif isinstance(t.ops[0], ast.IsNot):
                            nm_f = t.left.id
                    walk(st.body, known_none | ({nm_t} if nm_t else set()))
                    walk(st.orelse, known_none | ({nm_f} if nm_f else set()))
                    continue
                if isinstance(st, (ast.For, ast.While, ast.With, ast.Try)):
                    for fld in ("body", "orelse", "finalbody"):
                        walk(getattr(st, fld, []) or [], known_none)
                    continue
                if isinstance(st, ast.Assign):
                    for tgt in st.targets:
                        for x in (tgt.elts if isinstance(tgt, ast.Tuple) else [tgt]):
                            if isinstance(x, ast.Name) and x.id in opt:
                                n += 1
                                v = st.value
                                self_resolving = (isinstance(v, ast.IfExp) and any(isinstance(y, ast.Name) and y.id == x.id for y in ast.walk(v.test))) or \
                                    (isinstance(v, ast.BoolOp) and isinstance(v.values[0], ast.Name) and v.values[0].id == x.id)
                                derived = any(isinstance(y, ast.Name) and y.id == x.id for y in ast.walk(v))  # `p = list(p)`, `p = p`: the given value, normalised
                                if x.id in known_none or self_resolving or derived:
                                    ctx.ok("R-OPTIONAL-ZERO", f"{f.qualname}: '{x.id}' is given its default only when it is None", nontrivial=False)
                                else:
                                    ctx.violation("R-OPTIONAL-ZERO", f.path, f.qualname, f"given-argument-overwritten:{x.id}", f"{f.path}:{st.lineno}",
                                                  f"{f.qualname} assigns its optional argument '{x.id}' (`{ast.unparse(st)[:60]}`) on a path where it has not been "
                                                  "found to be None: a value the caller passed is silently replaced by the default (offsets given without "
                                                  "domain indices are dropped: the model written with offsets differs from the same model written with "
                                                  "translated domains)")
        walk(f.node.body, set())
    ctx.floor("R-OPTIONAL-ZERO:optional-parameter-assignments", n, 4)


# ------------------------------------------------------------------------------------------ R-DECISION-COVER
def _full_range(e: ast.Call, counts: Set[str]) -> bool:
    a = [ast.unparse(x) for x in e.args]
    if e.keywords:
        return False
    return (len(a) == 1 and a[0] in counts) or (len(a) == 2 and a[0] == "0" and a[1] in counts) or (len(a) == 3 and a[0] == "0" and a[1] in counts and a[2] == "1")


def rule_decision_cover(ctx: Ctx, prog: Program) -> None:
    """The search reports a solution when *every* shared domain is a single value (is_solved scans the whole top level of the stack) and it
    branches only on the decision domains.  With the decision set left to its default, 'all domains', nothing else instantiates a shared
    domain no propagator happens to ground -- in particular the shared domains no variable refers to (add_variable always appends one,
    a view leaves it unused).  A default that covers less than 0..shr_domain_nb-1 makes the search run out of decisions before is_solved
    can hold: those solutions are never reported.  Rule: the value given to `decision_domains` when it is None is the full range over
    the number of shared domains."""
    ctx.rule("R-DECISION-COVER")
    f = prog.func(f"{prog.package}.solvers.backtrack_solver", "BacktrackSolver.__init__")
    if "decision_domains" not in f.params:
        raise AnalysisError("BacktrackSolver.__init__ has no decision_domains parameter")
    defaults: List[ast.expr] = []
    for node in ast.walk(f.node):
        if isinstance(node, ast.Assign) and any(isinstance(t, ast.Name) and t.id == "decision_domains" for t in node.targets):
            v = node.value
            if isinstance(v, ast.IfExp):
                t = v.test
                if isinstance(t, ast.Compare) and isinstance(t.left, ast.Name) and t.left.id == "decision_domains" and len(t.ops) == 1:
                    defaults.append(v.body if isinstance(t.ops[0], ast.Is) else v.orelse)
                    continue
            if any(isinstance(y, ast.Name) and y.id == "decision_domains" for y in ast.walk(v)):
                continue  # a normalisation of the given value (list(...), sorted(...)), not the default
            defaults.append(v)
    if not defaults:
        raise AnalysisError("BacktrackSolver.__init__: no default for decision_domains found")
    counts = {"problem.shr_domain_nb", "self.problem.shr_domain_nb", "len(problem.shr_domains_lst)", "len(self.problem.shr_domains_lst)"}

    def strip(e: ast.expr) -> ast.expr:
        while isinstance(e, ast.Call) and isinstance(e.func, ast.Name) and e.func.id in ("list", "sorted", "tuple") and len(e.args) == 1:
            e = e.args[0]
        return e
    for d in defaults:
        e = strip(d)
        full = False
        if isinstance(e, ast.Call) and ast.unparse(e.func) in ("range", "np.arange", "numpy.arange"):
            full = _full_range(e, counts)
        if isinstance(e, ast.ListComp) and len(e.generators) == 1 and not e.generators[0].ifs and isinstance(e.elt, ast.Name) \
                and isinstance(e.generators[0].target, ast.Name) and e.elt.id == e.generators[0].target.id:
            e2 = strip(e.generators[0].iter)
            full = isinstance(e2, ast.Call) and ast.unparse(e2.func) == "range" and _full_range(e2, counts)
        if full:
            ctx.ok("R-DECISION-COVER", f"the default decision set is `{ast.unparse(d)}`: every shared domain is_solved looks at is branched on")
            continue
        src = ast.unparse(d)
        shifted_range = isinstance(e, ast.Call) and ast.unparse(e.func) in ("range", "np.arange", "numpy.arange") and any(c in src for c in counts)
        if "dom_indices" in src or "variable_nb" in src or shifted_range or isinstance(e, (ast.List, ast.Constant)):
            ctx.violation("R-DECISION-COVER", f.path, f.qualname, "default-not-all-domains", f"{f.path}:{d.lineno}",
                          f"the default decision set is `{src[:70]}`, not the range over all shared domains: a shared domain outside it (one no variable refers to -- "
                          "add_variable leaves one behind for every view -- or whatever the expression skips) is never branched on, is_solved never "
                          "holds on a branch where no propagator grounds it, and the solutions of that branch are not reported")
        else:
            raise AnalysisError(f"R-DECISION-COVER: cannot classify the default decision set `{src[:80]}` ({f.path}:{d.lineno})")


# ------------------------------------------------------------------------------------------ R-PARTS-USED
def rule_parts_used(ctx: Ctx, prog: Program) -> None:
    """split() is only half of the partition: each part must be what one worker searches.  Wherever the package iterates over the result
    of `.split(...)` to build solvers, the loop variable -- the part -- has to reach a solver constructor, directly or through a helper
    whose corresponding parameter does.  A helper that ignores its parameter and closes over the whole problem gives every worker the whole
    problem: every solution is found once per worker."""
    ctx.rule("R-SPLIT")
    n = 0

    def reaches_solver(fn_node: ast.AST, name: str, helpers: Dict[str, ast.FunctionDef], depth: int = 0) -> bool:
        for c in ast.walk(fn_node):
            if not isinstance(c, ast.Call):
                continue
            cname = ast.unparse(c.func).split(".")[-1]
            args = list(c.args) + [k.value for k in c.keywords]
            pos = [i for i, a in enumerate(c.args) if any(isinstance(y, ast.Name) and y.id == name for y in ast.walk(a))]
            kws = [k.arg for k in c.keywords if any(isinstance(y, ast.Name) and y.id == name for y in ast.walk(k.value))]
            if not pos and not kws:
                continue
            if cname.endswith("Solver"):
                return True
            h = helpers.get(cname)
            if h is not None and depth < 3:
                ps = [a.arg for a in h.args.posonlyargs + h.args.args]
                for i in pos:
                    if i < len(ps) and reaches_solver(h, ps[i], helpers, depth + 1):
                        return True
                for k in kws:
                    if k in ps and reaches_solver(h, k, helpers, depth + 1):
                        return True
        return False

    for m in prog.modules.values():
        if ".tests" in m.name:
            continue
        helpers = {x.name: x for x in ast.walk(m.tree) if isinstance(x, ast.FunctionDef)}
        for x in ast.walk(m.tree):
            gens: List[Tuple[ast.expr, ast.expr, List[ast.AST]]] = []
            if isinstance(x, (ast.ListComp, ast.GeneratorExp, ast.SetComp)):
                for g in x.generators:
                    gens.append((g.target, g.iter, [x.elt]))
            elif isinstance(x, ast.For):
                gens.append((x.target, x.iter, list(x.body)))
            for tgt, it_, body in gens:
                if not (isinstance(it_, ast.Call) and isinstance(it_.func, ast.Attribute) and it_.func.attr == "split" and len(it_.args) == 2):
                    continue
                if not isinstance(tgt, ast.Name):
                    continue
                builds = any(isinstance(c, ast.Call) and (ast.unparse(c.func).split(".")[-1].endswith("Solver") or ast.unparse(c.func).split(".")[-1] in helpers) for b in body for c in ast.walk(b))
                if not builds:
                    continue
                n += 1
                wrapper = ast.Module(body=[ast.Expr(value=b) if isinstance(b, ast.expr) else b for b in body], type_ignores=[])
                if reaches_solver(wrapper, tgt.id, helpers):
                    ctx.ok("R-SPLIT", f"{m.relpath}:{x.lineno}: each part of the split is handed to the solver built for it")
                else:
                    ctx.violation("R-SPLIT", m.relpath, "<module>", "part-not-used", f"{m.relpath}:{x.lineno}",
                                  f"the solvers built while iterating over `{ast.unparse(it_)[:50]}` do not receive the part '{tgt.id}' (it is not an argument of a "
                                  "solver constructor, nor of a helper whose parameter reaches one): every worker searches the same problem and every "
                                  "solution is reported once per worker")
    ctx.floor("R-SPLIT:consumers-of-split", n, 1)


# ------------------------------------------------------------------------------------------ R-POSTED-KEPT
def rule_posted_kept(ctx: Ctx, prog: Program) -> None:
    """Every constraint that is posted stays posted.  The list of constraints of a problem has three legitimate writers: the constructor (a
    fresh empty list), add_propagator / add_propagators (append / extend, on every path) and init() (an in-place sort).  A presolve that drops a
    constraint because its filtering function answers 'entailed' on the initial domains is wrong twice over: the answer is given for a box, not
    for the constraint's lifetime (the filtering done in that very call is thrown away with it; a restart, a split part or an objective bound
    gives other domains), and the box is easily not the constraint's own (views without their offsets).  Who-may-write rule, every module:
    `<x>.propagators` is never reassigned outside a constructor, never shortened (remove / pop / del / clear / slice or filtered
    reassignment), and the posting methods append their argument unconditionally."""
    ctx.rule("R-POSTED-KEPT")
    n_writers = 0
    shrinkers = {"remove", "pop", "clear", "__delitem__"}
    for f in prog.all_functions():
        if not f.module.startswith(prog.package + "."):
            continue
        for n in ast.walk(f.node):
            # reassignment / deletion / slice store
            tg: List[ast.expr] = []
            if isinstance(n, ast.Assign):
                tg = list(n.targets)
            elif isinstance(n, (ast.AugAssign, ast.AnnAssign)):
                tg = [n.target]
            elif isinstance(n, ast.Delete):
                tg = list(n.targets)
            for t in tg:
                base = t.value if isinstance(t, ast.Subscript) else t
                if isinstance(base, ast.Attribute) and base.attr == "propagators":
                    n_writers += 1
                    fresh = isinstance(n, (ast.Assign, ast.AnnAssign)) and not isinstance(t, ast.Subscript) and isinstance(n.value, ast.List) and not n.value.elts
                    same = isinstance(n, ast.Assign) and isinstance(n.value, ast.Call) and ast.unparse(n.value.func).split(".")[-1] in ("sorted", "list", "copy", "deepcopy") \
                        and n.value.args and ast.unparse(n.value.args[0]) == ast.unparse(t)
                    if not same and isinstance(n, ast.Assign) and isinstance(n.value, ast.ListComp) and len(n.value.generators) == 1 and not n.value.generators[0].ifs \
                            and isinstance(n.value.generators[0].target, ast.Name) and isinstance(n.value.elt, ast.Subscript) \
                            and ast.unparse(n.value.elt.value) == ast.unparse(t) and ast.unparse(n.value.elt.slice) == n.value.generators[0].target.id:
                        # [self.propagators[k] for k in order]: kept whole when `order` is a permutation (the result of an argsort / sorted(range(len(..))))
                        itx = n.value.generators[0].iter
                        if isinstance(itx, ast.Name):
                            ds = [a_.value for a_ in ast.walk(f.node) if isinstance(a_, ast.Assign) and len(a_.targets) == 1 and isinstance(a_.targets[0], ast.Name) and a_.targets[0].id == itx.id]
                            itx = ds[0] if len(ds) == 1 else itx
                        same = isinstance(itx, ast.Call) and ast.unparse(itx.func).split(".")[-1] in ("argsort", "sorted", "lexsort")
                    if same:
                        ctx.ok("R-POSTED-KEPT", f"{f.qualname}: the list of constraints is re-ordered / copied as a whole", nontrivial=False)
                    elif fresh and f.name == "__init__":
                        ctx.ok("R-POSTED-KEPT", f"{f.qualname}: the list of constraints starts empty", nontrivial=False)
                    elif isinstance(n, ast.AugAssign) and isinstance(n.op, ast.Add):
                        ctx.ok("R-POSTED-KEPT", f"{f.qualname}: constraints are added (+=)", nontrivial=False)
                    else:
                        ctx.violation("R-POSTED-KEPT", f.path, f.qualname, "constraint-list-rewritten", f"{f.path}:{n.lineno}",
                                      f"{f.qualname} rewrites the list of posted constraints (`{ast.unparse(n)[:70]}`): a constraint that was posted can disappear "
                                      "from the model that is solved (a filter on 'entailed by the initial domains' judges one box, not the constraint)")
            if isinstance(n, ast.Call) and isinstance(n.func, ast.Attribute) and isinstance(n.func.value, ast.Attribute) and n.func.value.attr == "propagators":
                n_writers += 1
                if n.func.attr in shrinkers:
                    ctx.violation("R-POSTED-KEPT", f.path, f.qualname, "constraint-removed", f"{f.path}:{n.lineno}",
                                  f"{f.qualname} removes an element of the list of posted constraints ({n.func.attr})")
    # the posting methods append their argument on every path
    m = prog.modules.get(f"{prog.package}.{PB_MOD}")
    cls = m.classes.get("Problem", {}) if m else {}
    n_post = 0
    for name in ("add_propagator", "add_propagators"):
        f = cls.get(name)
        if f is None:
            raise AnalysisError(f"R-POSTED-KEPT: Problem.{name} not found")
        arg = f.params[1] if len(f.params) > 1 else None
        ok = False
        for st in f.node.body:
            if isinstance(st, ast.Expr) and isinstance(st.value, ast.Call) and isinstance(st.value.func, ast.Attribute):
                c = st.value
                if c.func.attr in ("append", "extend") and isinstance(c.func.value, ast.Attribute) and c.func.value.attr == "propagators" \
                        and len(c.args) == 1 and isinstance(c.args[0], ast.Name) and c.args[0].id == arg:
                    ok = True
            if isinstance(st, ast.AugAssign) and isinstance(st.op, ast.Add) and isinstance(st.target, ast.Attribute) and st.target.attr == "propagators":
                ok = True
            if isinstance(st, ast.For) and isinstance(st.iter, ast.Name) and st.iter.id == arg and isinstance(st.target, ast.Name):
                for s2 in st.body:  # unconditional delegation, one by one
                    if isinstance(s2, ast.Expr) and isinstance(s2.value, ast.Call) and isinstance(s2.value.func, ast.Attribute) \
                            and s2.value.func.attr in ("add_propagator", "append") and len(s2.value.args) == 1 \
                            and isinstance(s2.value.args[0], ast.Name) and s2.value.args[0].id == st.target.id:
                        ok = True
        n_post += 1
        if ok:
            ctx.ok("R-POSTED-KEPT", f"Problem.{name} appends its argument on every path")
        else:
            cond = any(isinstance(x, ast.Call) and isinstance(x.func, ast.Attribute) and x.func.attr in ("append", "extend", "add_propagator") for x in ast.walk(f.node))
            if cond:
                ctx.violation("R-POSTED-KEPT", f.path, f"Problem.{name}", "conditionally-posted", f.loc(),
                              f"Problem.{name} adds the constraint only on some paths (the append is nested under a condition): a constraint the caller posted "
                              "is silently left out of the model")
            else:
                raise AnalysisError(f"R-POSTED-KEPT: Problem.{name}: how the constraint is recorded is not read")
    ctx.floor("R-POSTED-KEPT:writers of the constraint list", n_writers, 4)
