"""R-MARK-REUSE  a mark array whose verdict has been taken is cleared before the next marking pass starts.

A *mark array* is a local array that is only ever written with the constant True (directly or by the functions it is handed to, recursion
included) or reset as a whole to False.  A *verdict* is a whole-array read of it (np.all / np.any / .all() / .any() / np.sum / count_nonzero).
Typestate over the statements of the function that owns the array (helpers that receive it are read in place, depth 3):

    CLEAN --mark--> MARKED --verdict--> CONSUMED --clean--> CLEAN ...          CONSUMED --mark--> violation

A second marking pass that starts on marks whose verdict has already been taken answers for the union of both passes: the second verdict is
implied by the first and tests nothing (the connectivity constraint then checks only one of its two reachability conditions and accepts
successor vectors that are not strongly connected).  Two passes with no verdict between them (a deliberate union) are not reported."""
from __future__ import annotations

import ast
from typing import Dict, List, Optional, Set, Tuple

from ..core import Ctx
from ..program import FuncInfo, Program

_VERDICTS = {"all", "any", "sum", "count_nonzero", "alltrue"}
_ALLOCS = {"zeros", "empty", "zeros_like", "empty_like", "full"}


def _is_true(e: ast.expr) -> bool:
    return isinstance(e, ast.Constant) and (e.value is True or e.value == 1 and not isinstance(e.value, bool))


def _is_false(e: ast.expr) -> bool:
    return isinstance(e, ast.Constant) and (e.value is False or (e.value == 0 and not isinstance(e.value, bool)))


def _full_slice(sl: ast.expr) -> bool:
    return isinstance(sl, ast.Slice) and sl.lower is None and sl.upper is None and sl.step is None


class _NotMarkArray(Exception):
    pass


def _events(prog: Program, fn: FuncInfo, name: str, depth: int, stack: Tuple[str, ...]) -> List[Tuple[str, int, str]]:
    """Event sequence ('clean' | 'mark' | 'verdict', line, function) of array `name` over the body of fn, in statement order."""
    out: List[Tuple[str, int, str]] = []

    def expr_events(e: ast.AST) -> None:
        for x in ast.walk(e):
            if not isinstance(x, ast.Call):
                continue
            f = x.func
            fname = f.attr if isinstance(f, ast.Attribute) else f.id if isinstance(f, ast.Name) else ""
            # A.all() / A.fill(False)
            if isinstance(f, ast.Attribute) and isinstance(f.value, ast.Name) and f.value.id == name:
                if fname in _VERDICTS:
                    out.append(("verdict", x.lineno, fn.name))
                elif fname == "fill" and x.args and _is_false(x.args[0]):
                    out.append(("clean", x.lineno, fn.name))
                elif fname == "fill":
                    raise _NotMarkArray()
                continue
            pos = [k for k, a in enumerate(x.args) if isinstance(a, ast.Name) and a.id == name]
            # np.all(~A), np.all(A == ...), ...: a whole-array read nested in the argument
            nested = any(isinstance(y, ast.Name) and y.id == name for a in x.args for y in ast.walk(a)) and not pos
            if not pos and not nested:
                continue
            if isinstance(f, ast.Attribute) and isinstance(f.value, ast.Name) and f.value.id in ("np", "numpy"):
                if fname in _VERDICTS or fname in ("logical_not", "invert"):
                    if fname in _VERDICTS:
                        out.append(("verdict", x.lineno, fn.name))
                continue
            if nested:
                continue
            r = prog.resolve(fn.module, fname) if isinstance(f, ast.Name) else None
            if not (r and r[0] == "func"):
                raise _NotMarkArray()  # handed to something unknown: not a mark array we can follow
            g: FuncInfo = r[1]
            if pos[0] >= len(g.params):
                raise _NotMarkArray()
            if g.fq in stack or depth <= 0:
                # recursion / depth: the callee as one atomic step, judged by its own stores
                kinds = _store_kinds(prog, g, g.params[pos[0]], set())
                if kinds - {"true"}:
                    raise _NotMarkArray()
                if "true" in kinds:
                    out.append(("mark", x.lineno, fn.name))
                continue
            sub = _events(prog, g, g.params[pos[0]], depth - 1, stack + (g.fq,))
            # a callee that only marks (recursively) is one marking step at the call site
            if sub and all(k == "mark" for k, _, _ in sub):
                out.append(("mark", x.lineno, fn.name))
            else:
                out.extend(sub)

    def stmts(body: List[ast.stmt]) -> None:
        for st in body:
            if isinstance(st, (ast.FunctionDef, ast.ClassDef)):
                continue
            if isinstance(st, ast.Assign) and len(st.targets) == 1:
                t = st.targets[0]
                if isinstance(t, ast.Name) and t.id == name:
                    v = st.value
                    fname = v.func.attr if isinstance(v, ast.Call) and isinstance(v.func, ast.Attribute) else ""
                    if fname in _ALLOCS:
                        out.append(("clean", st.lineno, fn.name))
                        continue
                    raise _NotMarkArray()
                if isinstance(t, ast.Subscript) and isinstance(t.value, ast.Name) and t.value.id == name:
                    expr_events(st.value)
                    if _is_true(st.value):
                        out.append(("mark", st.lineno, fn.name))
                    elif _is_false(st.value) and _full_slice(t.slice):
                        out.append(("clean", st.lineno, fn.name))
                    else:
                        raise _NotMarkArray()
                    continue
            if isinstance(st, ast.AugAssign) and isinstance(st.target, ast.Subscript) and isinstance(st.target.value, ast.Name) and st.target.value.id == name:
                raise _NotMarkArray()
            if isinstance(st, ast.If):
                expr_events(st.test)
                stmts(st.body)
                stmts(st.orelse)
            elif isinstance(st, (ast.For, ast.While)):
                expr_events(st.iter if isinstance(st, ast.For) else st.test)
                k = len(out)
                stmts(st.body)
                out.extend(out[k:])  # a second iteration follows the first
                stmts(st.orelse)
            elif isinstance(st, (ast.With, ast.Try)):
                for b in ("body", "handlers", "orelse", "finalbody"):
                    for sub in getattr(st, b, []) or []:
                        stmts(sub.body if isinstance(sub, ast.ExceptHandler) else [sub])
            else:
                expr_events(st)

    stmts(fn.node.body)
    return out


def _store_kinds(prog: Program, fn: FuncInfo, name: str, seen: Set[str]) -> Set[str]:
    """What a function (transitively) stores through parameter `name`: subset of {'true', 'other'}."""
    key = fn.fq + ":" + name
    if key in seen:
        return set()
    seen.add(key)
    kinds: Set[str] = set()
    for x in ast.walk(fn.node):
        if isinstance(x, ast.Assign):
            for t in x.targets:
                if isinstance(t, ast.Subscript) and isinstance(t.value, ast.Name) and t.value.id == name:
                    kinds.add("true" if _is_true(x.value) else "other")
        elif isinstance(x, ast.AugAssign) and isinstance(x.target, ast.Subscript) and isinstance(x.target.value, ast.Name) and x.target.value.id == name:
            kinds.add("other")
        elif isinstance(x, ast.Call) and isinstance(x.func, ast.Name):
            pos = [k for k, a in enumerate(x.args) if isinstance(a, ast.Name) and a.id == name]
            if pos:
                r = prog.resolve(fn.module, x.func.id)
                if r and r[0] == "func" and pos[0] < len(r[1].params):
                    kinds |= _store_kinds(prog, r[1], r[1].params[pos[0]], seen)
                else:
                    kinds.add("other")
    return kinds


def rule_mark_reuse(ctx: Ctx, prog: Program) -> None:
    ctx.rule("R-MARK-REUSE")
    n_multi = 0
    for fn in prog.all_functions():
        if not fn.module.startswith("nucs.") or ".examples." in fn.module and ctx.tier != "thorough":
            continue
        locals_alloc: Dict[str, int] = {}
        for st in ast.walk(fn.node):
            if isinstance(st, ast.Assign) and len(st.targets) == 1 and isinstance(st.targets[0], ast.Name) and isinstance(st.value, ast.Call) \
                    and isinstance(st.value.func, ast.Attribute) and st.value.func.attr in _ALLOCS:
                locals_alloc.setdefault(st.targets[0].id, st.lineno)
        for name in sorted(locals_alloc):
            try:
                ev = _events(prog, fn, name, 3, (fn.fq,))
            except _NotMarkArray:
                continue
            if sum(1 for k, _, _ in ev if k == "mark") < 2 or not any(k == "verdict" for k, _, _ in ev):
                continue
            ctx.fn(fn.fq)
            n_multi += 1
            state = "CLEAN"
            bad: Optional[Tuple[int, str, int]] = None
            last_verdict = 0
            for k, line, where in ev:
                if k == "clean":
                    state = "CLEAN"
                elif k == "mark":
                    if state == "CONSUMED":
                        bad = (line, where, last_verdict)
                        break
                    state = "MARKED"
                elif k == "verdict" and state == "MARKED":
                    state, last_verdict = "CONSUMED", line
            if bad is None:
                ctx.ok("R-MARK-REUSE", f"{fn.name}: `{name}` is cleared between a verdict and the next marking pass",
                       sample={"events": [f"{k}@{w}:{l}" for k, l, w in ev][:12]})
            else:
                ctx.violation("R-MARK-REUSE", fn.path, fn.name, f"dirty-marks:{name}", f"{fn.path}:{bad[0]}",
                              f"{fn.name}: a marking pass over `{name}` starts (in {bad[1]}, line {bad[0]}) on the marks whose verdict was taken at line {bad[2]} "
                              "with no reset in between: every mark of the first pass is still set, so the second verdict is implied by the first and "
                              "tests nothing (a condition the constraint is meant to check is never checked: violating assignments are accepted)")
    ctx.floor("R-MARK-REUSE:functions with several marking passes and a verdict", n_multi, 1)
