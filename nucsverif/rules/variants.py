"""R-LOOP-VARIANT: every `while` loop of jitted code has a termination argument, or is listed as undecided with a reason."""
from __future__ import annotations

import ast
import json
import os
from typing import Any, Dict, List, Optional, Tuple

from ..core import Ctx, VERIF
from ..interp import ALL, Dual, Event, Interp, LoopSummary, PathResult, State, Tup, View, as_view, NONE
from ..program import AnalysisError, FuncInfo, Program
from ..terms import Aff, K, ONE, S, ZERO, atoms_in, cmp_cond, show_cond, show_val, subst
from .model import _all_loops

TABLE = os.path.join(VERIF, "nucsverif", "tables", "loops.json")


def while_loops(prog: Program) -> List[Tuple[FuncInfo, int, ast.While]]:
    out = []
    for f in prog.all_functions():
        if not f.njit or ".examples." in f.module:
            continue
        k = 0
        for n in ast.walk(f.node):
            if isinstance(n, ast.While):
                out.append((f, k, n))
                k += 1
    return out


def _conjuncts(c: Tuple) -> List[Tuple]:
    if c[0] == "and":
        return _conjuncts(c[1]) + _conjuncts(c[2])
    return [c]


def prove(prog: Program, fn: FuncInfo, node: ast.While) -> Tuple[str, str]:
    """('proved', argument) | ('undecided', why)"""
    it = Interp(prog)
    it.inline_filter = lambda f: False
    it.invariants = True
    try:
        res = it.run(fn)
    except AnalysisError as e:
        return "undecided", f"not analysable: {e}"
    loops = [l for r in res for l in _all_loops(r.state.trace) if l.node is node]
    if not loops:
        return "undecided", "loop not reached by the abstract interpreter"
    loop = loops[0]
    cont = [bp for bp in loop.paths if bp.outcome in ("fall", "continue")]
    if not cont:
        return "proved", "no path of the body reaches the next iteration"
    lv = {nm: Aff.atom(("lv", nm, loop.loop_id)) for nm in loop.assigned}

    def end_map(bp: PathResult) -> Dict[Any, Aff]:
        m = {}
        for nm, a in lv.items():
            v = bp.state.env.get(nm)
            if v is not None:
                m[a.single_atom()] = it.scalar(bp.state, v)
        return m

    # P1: a conjunct f >= 0 of the loop test strictly decreases on every continuing path
    tests = [e for bp in loop.paths for e in bp.events if e.kind == "branch" and e.node is node and e.cond is not None]
    conds = []
    for e in tests:
        for c in _conjuncts(e.cond):
            if c[0] == "ge0" and c not in conds:
                conds.append(c)
    for c in conds:
        f0: Aff = c[1]
        okk = True
        for bp in cont:
            f1 = subst(f0, end_map(bp))
            if not isinstance(f1, Aff) or bp.state.facts.decide(cmp_cond("<=", f1, f0 - ONE)) is not True:
                okk = False
                break
        if okk:
            return "proved", f"the guard quantity {show_val(f0)} is >= 0 at every iteration and strictly decreases"
    # P3: pointer chase  while t[i] < i: i = t[i]   (or >)
    for c in conds:
        f0 = c[1]
        okk = True
        for bp in cont:
            m = end_map(bp)
            changed = [(a, v) for a, v in m.items() if not (v == Aff.atom(a))]
            if len(changed) != 1:
                okk = False
                break
            a, v = changed[0]
            x = Aff.atom(a)
            if not (bp.state.facts.decide(cmp_cond("<", v, x)) is True or bp.state.facts.decide(cmp_cond(">", v, x)) is True):
                okk = False
                break
        if okk and cont:
            return "proved", "pointer chase: the cursor moves strictly monotonically, bounded by 0 / the unsigned index type"
    # P2: while True with counters: the sum of loop-carried counters grows by >= 1 on each continuing path and each
    # incremented counter is guarded (v < B before the increment) or tested for exit (v == B) afterwards
    ints = [nm for nm in loop.assigned if all((it.scalar(bp.state, bp.state.env.get(nm)) - lv[nm]).is_const() for bp in cont if bp.state.env.get(nm) is not None)]
    ints = [nm for nm in ints if any((it.scalar(bp.state, bp.state.env.get(nm)) - lv[nm]).c != 0 for bp in cont)]
    if ints:
        okk = True
        for bp in cont:
            deltas = {nm: (it.scalar(bp.state, bp.state.env.get(nm)) - lv[nm]).c for nm in ints}
            if any(d < 0 for d in deltas.values()) or sum(deltas.values()) < 1:
                okk = False
                break
            for nm, d in deltas.items():
                if d > 0:
                    bounded = False
                    for cnd in bp.state.facts.conds:
                        if cnd[0] in ("ge0", "ne0") and lv[nm].single_atom() in atoms_in(cnd):
                            bounded = True
                    if not bounded:
                        okk = False
        if okk:
            return "proved", f"counters {ints}: their sum grows by at least 1 per iteration and each increment is guarded by a bound test"
    return "undecided", "no linear variant found"


def rule_loop_variants(ctx: Ctx, prog: Program) -> None:
    ctx.rule("R-LOOP-VARIANT")
    if not os.path.exists(TABLE):
        raise AnalysisError(f"loop triage table missing: {TABLE}")
    with open(TABLE) as f:
        table = json.load(f)
    proved_before = {e["key"]: e for e in table["proved"]}
    undecided = {e["key"]: e for e in table["undecided"]}
    refuted = {e["key"]: e for e in table.get("refuted", [])}
    n = 0
    for fn, k, node in while_loops(prog):
        n += 1
        ctx.fn(fn.fq)
        key = f"{fn.name}#while{k}:{ast.unparse(node.test)[:50]}"
        verdict, why = prove(prog, fn, node)
        if verdict == "proved":
            ctx.ok("R-LOOP-VARIANT", key, sample={"argument": why})
        elif key in proved_before:
            ctx.violation("R-LOOP-VARIANT", fn.path, fn.name, f"while{k}:{ast.unparse(node.test)[:50]}", f"{fn.path}:{node.lineno}",
                          f"the loop `while {ast.unparse(node.test)[:60]}` of {fn.name} had a termination argument on the pinned tree "
                          f"({proved_before[key].get('argument', '')}) and has none now ({why}): a propagator may spin forever")
        elif key in refuted:
            # no termination argument can be derived AND triage produced an input on which the loop does not terminate
            ctx.violation("R-LOOP-VARIANT", fn.path, fn.name, f"while{k}:{ast.unparse(node.test)[:50]}", f"{fn.path}:{node.lineno}",
                          f"the loop `while {ast.unparse(node.test)[:60]}` of {fn.name} has no derivable termination argument ({why}) and "
                          f"its implicit assumption is known to fail: {refuted[key].get('counterexample', '')}")
        elif key in undecided:
            ctx.undecided_site("R-LOOP-VARIANT", key, undecided[key].get("reason", why))
        else:
            ctx.undecided_site("R-LOOP-VARIANT", key, f"new loop without a derived variant: {why}")
            ctx.extra.setdefault("new_undecided_loops", []).append(key)
    ctx.floor("R-LOOP-VARIANT:while-loops", n, 13)
    ctx.assume("termination of the search loop itself follows from the strict shrink of every branch (R-PARTITION) on finite domains")
