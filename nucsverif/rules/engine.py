"""Engine protocol rules on the propagation loop:
R-QUEUE-DRAIN, R-EVENTS-EXACT, R-WRITEBACK-MONO, R-ANNOUNCE (write-back), R-FLAGS-WRITERS,
R-OFFSET-ROUNDTRIP (view / write-back), R-COUNTER (propagation counters), R-SOLUTION."""
from __future__ import annotations

import ast
from typing import Any, Dict, List, Optional, Tuple, Set

from ..core import Ctx
from ..interp import ALL, Dual, Event, Interp, LoopSummary, PathResult, State, View, as_view
from ..program import AnalysisError, FuncInfo, Program
from ..roles import get_roles
from ..terms import Aff, Facts, K, ONE, S, ZERO, atoms_in, cmp_cond, negate, show_cond, show_val, subst

BC_MOD = "solvers.bound_consistency_algorithm"


def init(root: str, *idx: Any) -> Aff:
    return Aff.atom(("init", root, tuple(idx)))


def role_param(prog: Program, fn: FuncInfo, role: str) -> str:
    r = get_roles(prog)
    ps = r.params_with_role(fn, role)
    if len(ps) != 1:
        # fall back on the name (functions not reached from a solver entry point, e.g. custom algorithms in quick tier)
        if role in fn.params:
            return role
        raise AnalysisError(f"{fn.fq}: cannot identify the parameter carrying '{role}' (candidates: {ps})")
    return ps[0]


def loops_of(events: List[Event]) -> List[LoopSummary]:
    out: List[LoopSummary] = []
    for e in events:
        if e.kind in ("iter", "loop") and e.loop is not None and e.loop not in out:
            out.append(e.loop)
    return out


def calls_named(events: List[Event], bare: str, inlined: bool = False) -> List[Event]:
    kinds = ("call", "enter") if inlined else ("call",)
    return [e for e in events if e.kind in kinds and e.name and (e.name.split(":")[-1] == bare or e.name.split(":")[-1].split(".")[-1] == bare)]


class BCAnalysis:
    """Abstract paths of a consistency algorithm's propagation loop (compiled and interpreted dispatch)."""

    def __init__(self, prog: Program, fn: FuncInfo, jit_disabled: bool):
        self.prog = prog
        self.fn = fn
        self.it = Interp(prog, no_inline={"add_propagators": [0], "pop_propagator": [0], "is_solved": []},
                         assume_globals={"NUMBA_DISABLE_JIT": jit_disabled})
        self.mode = "interpreted" if jit_disabled else "compiled"
        self.paths = self.it.run(fn)
        self.stack = role_param(prog, fn, "shr_domains_stack")
        self.flags = role_param(prog, fn, "not_entailed_propagators_stack")
        self.top = role_param(prog, fn, "stacks_top")
        self.stats = role_param(prog, fn, "statistics")
        self.triggered = role_param(prog, fn, "triggered_propagators")
        self.triggers = role_param(prog, fn, "triggers")
        self.T = init(self.top, K(0))
        # the propagation loop: the loop whose body calls pop_propagator
        self.outer: Optional[LoopSummary] = None
        self.entry_events: List[Event] = []
        for r in self.paths:
            for i, e in enumerate(r.events):
                if e.kind == "iter" and e.loop is not None and any(calls_named(bp.events, "pop_propagator") for bp in e.loop.paths):
                    self.outer = e.loop
                    self.entry_events = r.events[:i]
                    break
            if self.outer is not None:
                break
        if self.outer is None:
            raise AnalysisError(f"{fn.fq}: no propagation loop (a loop popping the queue) found")


def bc_analyses(prog: Program) -> List[BCAnalysis]:
    cache = getattr(prog, "_bc", None)
    if cache is None:
        fn = prog.func(f"{prog.package}.{BC_MOD}", "bound_consistency_algorithm")
        cache = [BCAnalysis(prog, fn, False), BCAnalysis(prog, fn, True)]
        prog._bc = cache  # type: ignore[attr-defined]
    return cache


# ------------------------------------------------------------------ R-QUEUE-DRAIN
def rule_queue_drain(ctx: Ctx, prog: Program) -> None:
    ctx.rule("R-QUEUE-DRAIN")
    fn = prog.func(f"{prog.package}.propagators.propagators", "pop_propagator")
    ctx.fn(fn.fq)
    if len(fn.params) != 2:
        raise AnalysisError("pop_propagator: expected (triggered, previous)")
    trig, prev = fn.params
    it = Interp(prog)
    res = it.run(fn)
    empties = [r for r in res if r.outcome == "return" and it.scalar(r.state, r.value) == K(-1)]
    pops = [r for r in res if r.outcome == "return" and not (it.scalar(r.state, r.value) == K(-1))]
    ctx.floor("R-QUEUE-DRAIN:return-paths", len(empties) + len(pops), 2)
    # (a) a popped index is flagged and its flag is cleared
    for r in pops:
        v = it.scalar(r.state, r.value)
        cleared = it.load_at(r.state, len(r.state.heap), trig, (v,))
        was = None
        for e in r.events:
            if e.kind == "store" and e.root == trig and len(e.idx) == 1 and e.idx[0] == v:
                was = e.old
        flagged = was is not None and r.state.facts.decide(("ne0", was if (was.t and was.t[0][1] > 0) else -was)) is True
        if not (cleared == ZERO) or not flagged:
            ctx.violation("R-QUEUE-DRAIN", fn.path, "pop_propagator", "pop-clears-flag", fn.loc(),
                          f"pop_propagator returns {show_val(v)} without it being flagged and its flag being cleared")
        else:
            ctx.ok("R-QUEUE-DRAIN", f"pop:{show_val(v)}:flagged-and-cleared", sample={"returned": show_val(v)})
    # (b) 'empty' is reported only when no flag is set
    scan_loops = []
    for r in res:
        for l in loops_of(r.state.trace):
            if l not in scan_loops:
                scan_loops.append(l)
    if not scan_loops:
        ctx.violation("R-QUEUE-DRAIN", fn.path, "pop_propagator", "scan", fn.loc(), "pop_propagator has no scan over the queue")
        return
    for r in empties:
        ok_all = True
        # reporting 'empty' must not modify the queue: a flag cleared here belongs to a constraint that is dropped without being executed
        for e in r.events:
            if e.kind == "store" and e.root == trig:
                if isinstance(e.old, Aff) and r.state.facts.decide(("eq0", e.old if (not e.old.t or e.old.t[0][1] > 0) else -e.old)) is True:
                    continue  # the flag was already clear: nothing is discarded
                ok_all = False
                ctx.violation("R-QUEUE-DRAIN", fn.path, "pop_propagator", "empty-path-clears-flag", f"{fn.path}:{e.line}",
                              f"pop_propagator clears {View(e.root, e.idx)!r} on a path that reports 'empty' (-1): a queued constraint is discarded "
                              "without being executed, and the pass ends although its input changed since it last ran")
        for l in loops_of(r.state.trace):
            if l.index is None:
                continue
            idx_atom = l.index.single_atom()
            flag_cell = lambda st, i: it.load_at(st, len(st.heap), trig, (i,))
            for bp in l.paths:
                if bp.outcome not in ("fall", "continue"):
                    continue
                if any(e.kind == "store" and e.root == trig for e in bp.events):
                    ctx.violation("R-QUEUE-DRAIN", fn.path, "pop_propagator", "scan-store", fn.loc(),
                                  "the queue scan modifies flags on a path that does not pop")
                    ok_all = False
                    continue
                cell = it.load_at(bp.state, len(bp.state.heap), trig, (l.index,))
                unflagged = ("eq0", cell if (cell.t and cell.t[0][1] > 0) else -cell)
                if bp.state.facts.decide(unflagged) is True:
                    continue
                # the scan may skip index `it` although flagged: which indices?  those pinned by an equality it == X
                pinned = _pinned_values(bp.state.facts, idx_atom, unflagged)
                if pinned is None:
                    ctx.violation("R-QUEUE-DRAIN", fn.path, "pop_propagator", "skip-unbounded", fn.loc(),
                                  "the queue scan can pass over a flagged propagator and still report 'empty'")
                    ok_all = False
                    continue
                for X, case_facts in pinned:
                    # after the loop, on the path that reports empty, the flag of X must be known clear
                    f = r.state.facts.copy()
                    for c in case_facts.conds:
                        f.add(subst(c, {idx_atom: X}))
                    cellX = it.load_at(r.state, len(r.state.heap), trig, (X,))
                    q = ("eq0", cellX if (cellX.t and cellX.t[0][1] > 0) else -cellX)
                    if f.infeasible() or f.decide(q) is True:
                        ctx.ok("R-QUEUE-DRAIN", f"empty-implies-unflagged:{show_val(X)}", sample={"skipped_index": show_val(X)})
                    else:
                        ok_all = False
                        ctx.violation("R-QUEUE-DRAIN", fn.path, "pop_propagator", f"skip-flagged:{show_val(X)}", fn.loc(),
                                      f"pop_propagator reports 'empty' (-1) without testing the flag of index {show_val(X)}, which "
                                      f"its scan skips even when flagged: a pass can end while that propagator is still queued")
        if ok_all:
            ctx.ok("R-QUEUE-DRAIN", "empty-only-when-drained")
    # (c) users of the verdict
    for a in bc_analyses(prog):
        ctx.fn(a.fn.fq)
        PB, PU = prog.C("PROBLEM_BOUND"), prog.C("PROBLEM_UNBOUND")
        n_ret = 0
        for bp in a.outer.paths:
            if bp.outcome != "return":
                continue
            rv = a.it.scalar(bp.state, bp.value)
            if rv.is_const() and rv.c in (PB, PU):
                n_ret += 1
                pops_ = calls_named(bp.events, "pop_propagator")
                okp = False
                for c in pops_:
                    res_atom = _call_result(bp.events, c)
                    if res_atom is not None and bp.state.facts.decide(cmp_cond("==", res_atom, K(-1))) is True:
                        okp = True
                if not okp:
                    ctx.violation("R-QUEUE-DRAIN", a.fn.path, a.fn.name, f"return-{rv.c}-without-drain", f"{a.fn.path}:{_ret_line(bp)}",
                                  f"{a.fn.name} ({a.mode}) returns {'PROBLEM_BOUND' if rv.c == PB else 'PROBLEM_UNBOUND'} on a path where "
                                  "the queue was not reported empty")
                else:
                    ctx.ok("R-QUEUE-DRAIN", f"{a.mode}:return-{rv.c}-after-drain")
                if rv.c == PB:
                    sol = calls_named(bp.events, "is_solved")
                    oks = False
                    for c in sol:
                        args = [as_view(x) for x in c.args]
                        ra = _call_result(bp.events, c)
                        if (len(args) >= 2 and isinstance(args[0], View) and args[0] == View(a.stack, ()) and args[1] == View(a.top, ())  # (what is_solved tests is R-SOLVED's business)
                                and ra is not None and bp.state.facts.decide(("ne0", ra)) is True):
                            oks = True
                    if not oks:
                        ctx.violation("R-QUEUE-DRAIN", a.fn.path, a.fn.name, "bound-without-is-solved", f"{a.fn.path}:{_ret_line(bp)}",
                                      f"{a.fn.name} ({a.mode}) returns PROBLEM_BOUND on a path where is_solved(stack, top) was not established")
                    else:
                        ctx.ok("R-QUEUE-DRAIN", f"{a.mode}:bound-iff-is-solved")
        ctx.floor(f"R-QUEUE-DRAIN:{a.mode}:status-returns", n_ret, 2)


def _nonneg_top(facts: Facts, top: Aff) -> Facts:
    """The level pointer is an unsigned integer: facts + (top >= 0)."""
    g = facts.copy()
    g.add(cmp_cond(">=", top, ZERO))
    return g


def _ret_line(bp: PathResult) -> int:
    for e in reversed(bp.events):
        if e.kind == "return":
            return e.line
    return 0


def _call_result(events: List[Event], call: Event) -> Optional[Aff]:
    """The abstract value a recorded opaque call returned."""
    r = call.ret
    if isinstance(r, View):
        return Aff.atom(("init", r.root, r.idx))
    if isinstance(r, Aff):
        return r
    return None


def _pinned_values(facts: Facts, idx_atom: Any, harmless: Tuple) -> Optional[List[Tuple[Aff, Facts]]]:
    """Case-split the disjunctive facts; cases that entail `harmless` are dropped; in each remaining case
    find X with  idx == X  (X free of idx).  None when some remaining case does not pin the index."""
    cases: List[Facts] = [Facts([])]
    for c in facts.conds:
        if c[0] == "or":
            new = []
            for cs in cases:
                for alt in (c[1], c[2]):
                    g = cs.copy()
                    g.add(alt)
                    new.append(g)
            cases = new
        else:
            for cs in cases:
                cs.add(c)
    out: List[Tuple[Aff, Facts]] = []
    for cs in cases:
        if cs.infeasible() or cs.decide(harmless) is True:
            continue
        found = None
        for c in cs.conds:
            if c[0] == "eq0":
                k = c[1].coef(idx_atom)
                if k in (1, -1):
                    rest = c[1] - Aff.atom(idx_atom, k)
                    X = rest.scale(-k)
                    if idx_atom not in atoms_in(X):
                        found = X
        if found is None:
            return None
        out.append((found, cs))
    return out


# --------------------------------------------------- write-back: events / mono / announce
def rule_writeback(ctx: Ctx, prog: Program, want: Tuple[str, ...] = ("R-EVENTS-EXACT", "R-WRITEBACK-MONO", "R-ANNOUNCE", "R-OFFSET-ROUNDTRIP")) -> None:
    for w in want:
        ctx.rule(w)
    MIN, MAX = prog.C("MIN"), prog.C("MAX")
    E = {"MIN": prog.C("EVENT_MASK_MIN"), "MAX": prog.C("EVENT_MASK_MAX"), "GROUND": prog.C("EVENT_MASK_GROUND")}
    PI = prog.C("PROBLEM_INCONSISTENT")
    for a in bc_analyses(prog):
        ctx.fn(a.fn.fq)
        it = a.it
        wb_loops: List[LoopSummary] = []
        for bp in a.outer.paths:
            for l in loops_of(bp.events):
                if l is not a.outer and a.stack in l.stored_roots and l not in wb_loops:
                    wb_loops.append(l)
        # the two occurrences (entailed / not entailed arm) are the same source loop
        by_node: Dict[int, LoopSummary] = {}
        for l in wb_loops:
            by_node.setdefault(id(l.node), l)
        if not by_node:
            ctx.violation("R-ANNOUNCE", a.fn.path, a.fn.name, "no-writeback", a.fn.loc(), f"{a.fn.name}: no write-back loop storing into the domain stack")
            continue
        n_store_paths = 0
        for l in by_node.values():
            line = getattr(l.node, "lineno", 0)
            for bp in l.paths:
                s = bp.state
                stores = [e for e in bp.events if e.kind == "store" and e.root == a.stack]
                calls = calls_named(bp.events, "add_propagators")
                stored_bits = set()
                dom_idx = None
                level_ok = True
                for e in stores:
                    if len(e.idx) != 3 or not all(isinstance(c, Aff) for c in e.idx):
                        ctx.violation("R-WRITEBACK-MONO", a.fn.path, a.fn.name, "store-shape", f"{a.fn.path}:{e.line}",
                                      f"write-back store {View(e.root, e.idx)!r} is not a single bound cell")
                        continue
                    if not (e.idx[0] == a.T):
                        level_ok = False
                        ctx.violation("R-WRITEBACK-MONO", a.fn.path, a.fn.name, "store-level", f"{a.fn.path}:{e.line}",
                                      f"write-back stores at level {show_val(e.idx[0])}, not at the current level")
                    b = e.idx[2]
                    bname = "MIN" if b == K(MIN) else ("MAX" if b == K(MAX) else None)
                    if bname is None:
                        ctx.violation("R-WRITEBACK-MONO", a.fn.path, a.fn.name, "store-bound", f"{a.fn.path}:{e.line}", "write-back store at a non-constant bound")
                        continue
                    stored_bits.add(bname)
                    if dom_idx is None:
                        dom_idx = e.idx[1]
                    elif not (dom_idx == e.idx[1]):
                        ctx.violation("R-WRITEBACK-MONO", a.fn.path, a.fn.name, "two-domains", f"{a.fn.path}:{e.line}",
                                      "one write-back iteration stores into two different shared domains")
                    # ---- R-WRITEBACK-MONO: strict tightening
                    if "R-WRITEBACK-MONO" in want:
                        old, new = e.old, e.value
                        if isinstance(new, View):
                            new = it.scalar(s, new)
                        q = cmp_cond("<", old, new) if bname == "MIN" else cmp_cond(">", old, new)
                        if s.facts.decide(q) is True:
                            ctx.ok("R-WRITEBACK-MONO", f"{a.mode}:{bname}:strict-tightening", sample={"guard": show_cond(q)})
                        else:
                            ctx.violation("R-WRITEBACK-MONO", a.fn.path, a.fn.name, f"store-{bname}-not-monotone", f"{a.fn.path}:{e.line}",
                                          f"write-back overwrites the shared {bname} without a strict-tightening guard "
                                          f"({'new > old' if bname == 'MIN' else 'new < old'}): a second, staler view of the same shared "
                                          "domain in this constraint can widen it again")
                    # ---- R-OFFSET-ROUNDTRIP: value = view cell - the offset that was added
                    if "R-OFFSET-ROUNDTRIP" in want:
                        _check_roundtrip(ctx, a, bp, e, bname, K(MIN) if bname == "MIN" else K(MAX))
                if stores:
                    n_store_paths += 1
                # ---- emptiness
                if stores and "R-WRITEBACK-MONO" in want and dom_idx is not None and level_ok:
                    fmin = it.load_at(s, len(s.heap), a.stack, (a.T, dom_idx, K(MIN)))
                    fmax = it.load_at(s, len(s.heap), a.stack, (a.T, dom_idx, K(MAX)))
                    returns_incons = bp.outcome == "return" and it.scalar(s, bp.value) == K(PI)
                    if returns_incons or s.facts.decide(cmp_cond("<=", fmin, fmax)) is True:
                        ctx.ok("R-WRITEBACK-MONO", f"{a.mode}:{'+'.join(sorted(stored_bits))}:emptiness-handled")
                    elif bp.outcome == "return" and not any(x is l.node for x in ast.walk(a.fn.node)) and s.facts.decide(cmp_cond(">", fmin, fmax)) is True:
                        # the write-back loop lives in a helper that answers its caller with a code of its own once it has established min > max:
                        # what the caller makes of that code is not followed here
                        raise AnalysisError(f"{a.fn.name}: the write-back loop was moved into a helper (line {line}) that reports an emptied domain through its own "
                                            "return value; the emptiness clause of R-WRITEBACK-MONO does not follow that value back into the caller")
                    else:
                        ctx.violation("R-WRITEBACK-MONO", a.fn.path, a.fn.name, "no-emptiness-check", f"{a.fn.path}:{line}",
                                      "after a write-back store the pass continues without testing that the shared domain is "
                                      "non-empty (min <= max): an empty intersection of two views is not reported as a failure")
                # ---- announce + events
                if "R-ANNOUNCE" in want or "R-EVENTS-EXACT" in want or "R-FLAGS-WRITERS" in want:
                    if bp.outcome == "return":
                        continue  # failure path: nothing left to wake
                    if stores and len(calls) != 1 and ("R-ANNOUNCE" in want or "R-EVENTS-EXACT" in want):
                        ctx.violation("R-ANNOUNCE", a.fn.path, a.fn.name, "writeback-unannounced", f"{a.fn.path}:{stores[0].line}",
                                      f"a write-back store into the domain stack is followed by {len(calls)} wake-up calls (expected 1)")
                        continue
                    for c in calls:
                        args = c.args
                        if len(args) != 5:
                            raise AnalysisError("add_propagators: expected 5 arguments")
                        row = as_view(args[1])
                        mask = it.scalar(s, args[4])
                        cd = it.scalar(s, args[3])
                        row_ok = isinstance(row, View) and row.root == a.flags and len(row.idx) == 1 and isinstance(row.idx[0], Aff) and (
                            row.idx[0] == a.T or (_nonneg_top(s.facts, a.T).decide(cmp_cond("<=", row.idx[0], a.T)) is True and s.facts.decide(cmp_cond(">=", row.idx[0], ZERO)) is True))
                        if not row_ok:
                            ctx.violation("R-FLAGS-WRITERS", a.fn.path, a.fn.name, "wake-row", f"{a.fn.path}:{c.line}",
                                          f"write-back wake-up consults {row!r}, not the enabled-flags row of the current level")
                        elif "R-FLAGS-WRITERS" in want:
                            ctx.ok("R-FLAGS-WRITERS", f"{a.mode}: write-back wake-up consults the enabled flags of the current level")
                        if not ("R-ANNOUNCE" in want or "R-EVENTS-EXACT" in want):
                            continue
                        if not mask.is_const():
                            ctx.violation("R-EVENTS-EXACT", a.fn.path, a.fn.name, "mask-not-constant", f"{a.fn.path}:{c.line}",
                                          f"event mask is not a per-path constant ({show_val(mask)})")
                            continue
                        m = mask.c
                        if stores and dom_idx is not None and not (cd == dom_idx):
                            ctx.violation("R-ANNOUNCE", a.fn.path, a.fn.name, "wake-other-domain", f"{a.fn.path}:{c.line}",
                                          f"the wake-up names domain {show_val(cd)} but the store went to {show_val(dom_idx)}")
                        if "R-EVENTS-EXACT" in want:
                            for bname in ("MIN", "MAX"):
                                has = bool(m & E[bname])
                                if has and bname not in stored_bits:
                                    ctx.violation("R-EVENTS-EXACT", a.fn.path, a.fn.name, f"{bname}-event-without-store", f"{a.fn.path}:{c.line}",
                                                  f"{bname} event announced on a path that does not store the {bname} bound")
                                elif not has and bname in stored_bits:
                                    ctx.violation("R-EVENTS-EXACT", a.fn.path, a.fn.name, f"{bname}-store-without-event", f"{a.fn.path}:{c.line}",
                                                  f"{bname} bound stored but the {bname} event is not announced")
                                else:
                                    ctx.ok("R-EVENTS-EXACT", f"{a.mode}:{bname}:{'stored' if has else 'unchanged'}:{m}")
                            if (m & E["GROUND"]) and not stored_bits:
                                ctx.violation("R-EVENTS-EXACT", a.fn.path, a.fn.name, "GROUND-event-without-change", f"{a.fn.path}:{c.line}",
                                              "GROUND is announced (and the constraint's watchers re-queued) on a path where no bound "
                                              "of the shared domain changed: two constraints woken by instantiation re-queue each other forever")
                            elif stored_bits and dom_idx is not None:
                                fmin = it.load_at(s, len(s.heap), a.stack, (a.T, dom_idx, K(MIN)))
                                fmax = it.load_at(s, len(s.heap), a.stack, (a.T, dom_idx, K(MAX)))
                                g = s.facts.decide(cmp_cond("==", fmin, fmax))
                                if g is not False and not (m & E["GROUND"]):
                                    ctx.violation("R-EVENTS-EXACT", a.fn.path, a.fn.name, "GROUND-missing", f"{a.fn.path}:{c.line}",
                                                  "a write-back store may make the shared domain a single value but GROUND is not announced "
                                                  "on that path (the mask must be selected by a test of the stored bounds)")
                                else:
                                    ctx.ok("R-EVENTS-EXACT", f"{a.mode}:GROUND:{'+'.join(sorted(stored_bits))}:{m}",
                                           sample={"mask": m, "stored": sorted(stored_bits), "singleton": {True: "yes", False: "no", None: "maybe"}[g]})
                    if not stores and not calls:
                        ctx.ok("R-EVENTS-EXACT", f"{a.mode}:no-store-no-event", nontrivial=False)
        # ---- completeness of the write-back: an iteration that goes on without storing a bound has compared that bound of the shared
        # domain with the filtered view (otherwise a tighter -- possibly crossing -- result of the filtering is silently dropped: an
        # instantiated shared domain seen through two views is the case where only this comparison reveals the failure)
        if "R-WRITEBACK-MONO" in want:
            def top_atoms(x: Any) -> List[Any]:
                """atoms of the affine form(s) themselves, not those nested inside their index expressions"""
                if isinstance(x, Aff):
                    return list(x.atoms())
                if isinstance(x, tuple):
                    r_: List[Any] = []
                    for y in x[1:]:
                        if isinstance(y, (Aff, tuple)):
                            r_.extend(top_atoms(y))
                    return r_
                return []

            def cells(x: Any) -> List[Tuple[str, Tuple[Any, ...]]]:
                out_: List[Tuple[str, Tuple[Any, ...]]] = []
                for at in top_atoms(x):
                    if isinstance(at, tuple) and at and at[0] == "init" and len(at) >= 3:
                        out_.append((at[1], at[2]))
                    elif isinstance(at, tuple) and at and at[0] == "hav" and len(at) >= 4:
                        out_.append((at[2], at[3]))
                return out_
            view_roots: Set[str] = set()
            for l in by_node.values():
                for bp in l.paths:
                    for e in bp.events:
                        if e.kind == "store" and e.root == a.stack and isinstance(e.value, Aff):
                            view_roots |= {r for r, ix in cells(e.value) if r != a.stack and len(ix) == 2}
            for l in by_node.values():
                for bp in l.paths:
                    if bp.outcome == "return":
                        continue
                    stored_b = {e.idx[2].c for e in bp.events if e.kind == "store" and e.root == a.stack and len(e.idx) == 3
                                and isinstance(e.idx[2], Aff) and e.idx[2].is_const()}
                    for bname, b in (("MIN", MIN), ("MAX", MAX)):
                        if b in stored_b:
                            continue
                        compared = False
                        for cnd in bp.state.facts.conds:
                            cs = cells(cnd)
                            if any(r == a.stack and len(ix) == 3 and isinstance(ix[2], Aff) and ix[2].is_const() and ix[2].c == b for r, ix in cs) \
                                    and any(r in view_roots for r, _ in cs):
                                compared = True
                                break
                        if compared:
                            ctx.ok("R-WRITEBACK-MONO", f"{a.mode}:{bname}:left-as-is-after-comparison", nontrivial=False)
                        else:
                            ctx.violation("R-WRITEBACK-MONO", a.fn.path, a.fn.name, f"tightening-untested:{bname}", f"{a.fn.path}:{getattr(l.node, 'lineno', 0)}",
                                          f"an iteration of the write-back goes on without storing the {bname} of the shared domain and without having compared "
                                          "it with the filtered view: a tighter result of the filtering (possibly one that empties the domain, when the "
                                          "same shared domain is seen through two views) is dropped and the failure is never reported")
        ctx.floor(f"R-WRITEBACK:{a.mode}:storing-paths", n_store_paths, 3)


def _check_roundtrip(ctx: Ctx, a: BCAnalysis, bp: PathResult, e: Event, bname: str, b: Aff) -> None:
    """Stored value = (cell (v,b) of the filtered view array) - offsets[v,0], the view array being
    stack[T, indices] + offsets with the same `indices`/`offsets` slices, stored at indices[v]."""
    it = a.it
    s = bp.state
    val = e.value if isinstance(e.value, Aff) else it.scalar(s, e.value)
    view_atoms = [(at, k) for at, k in val.t if isinstance(at, tuple) and at[0] in ("hav", "init") and isinstance(at[-2] if at[0] == "hav" else at[1], str)
                  and str(at[2] if at[0] == "hav" else at[1]).startswith("arr#")]
    if len(view_atoms) != 1 or view_atoms[0][1] != 1:
        ctx.violation("R-OFFSET-ROUNDTRIP", a.fn.path, a.fn.name, f"writeback-{bname}-value", f"{a.fn.path}:{e.line}",
                      f"written-back {bname} is not 'filtered view cell - offset' ({show_val(val)})")
        return
    at = view_atoms[0][0]
    root = at[2] if at[0] == "hav" else at[1]
    vidx = at[3] if at[0] == "hav" else at[2]
    org = it.allocs.get(root)
    ok = False
    why = ""
    if org and org[0] == "binop" and org[1] == "Add" and len(vidx) == 2 and vidx[1] == b:
        x, y = as_view(org[2]), as_view(org[3])
        if isinstance(y, View) and isinstance(x, View) and y.root == a.stack:
            x, y = y, x
        if isinstance(x, View) and x.root == a.stack and len(x.idx) == 2 and x.idx[0] == a.T and isinstance(x.idx[1], tuple) and x.idx[1][0] == "fancy" and isinstance(y, View):
            ind: View = x.idx[1][1]
            v = vidx[0]
            expect_dom = it.scalar(s, View(ind.root, it.compose_index(s, ind.idx, (v,))))
            off = it.scalar(s, View(y.root, it.compose_index(s, y.idx, (v, K(0)))))
            rest = val - Aff.atom(at)
            same_slice = _same_slices(ind, y)
            if not (e.idx[1] == expect_dom):
                why = f"stored at domain {show_val(e.idx[1])} but the view cell came from {show_val(expect_dom)}"
            elif not (rest == -off):
                why = f"offset removed is {show_val(-rest)} but the offset added was {show_val(off)}"
            elif not same_slice:
                why = "the index slice and the offset slice of the view do not cover the same positions"
            else:
                ok = True
        else:
            why = "the view array is not stack[T, indices] + offsets"
    else:
        why = "the filtered array does not originate from stack[T, indices] + offsets"
    if ok:
        ctx.ok("R-OFFSET-ROUNDTRIP", f"{a.mode}:writeback:{bname}", sample={"value": show_val(val)})
    else:
        ctx.violation("R-OFFSET-ROUNDTRIP", a.fn.path, a.fn.name, f"writeback-{bname}-roundtrip", f"{a.fn.path}:{e.line}",
                      f"write-back of {bname} is not the inverse of the view construction: {why}")


def _same_slices(x: View, y: View) -> bool:
    sx = [c for c in x.idx if isinstance(c, tuple) and c[0] == "slice"]
    sy = [c for c in y.idx if isinstance(c, tuple) and c[0] == "slice"]
    return len(sx) == 1 and sx == sy


# ------------------------------------------------------------------ R-FLAGS-WRITERS
def rule_flags_writers(ctx: Ctx, prog: Program, thorough: bool = False) -> None:
    ctx.rule("R-FLAGS-WRITERS")
    roles = get_roles(prog)
    PE = prog.C("PROP_ENTAILMENT")
    allowed = {"cp_init", "cp_put"}
    n_writers = 0
    for fn, p in roles.functions_with_role("not_entailed_propagators_stack"):
        if not thorough and ".examples." in fn.module:
            continue
        # syntactic pre-filter: does the function store through this parameter (or a view of it)?
        if not _stores_through(fn, p):
            continue
        n_writers += 1
        ctx.fn(fn.fq)
        if fn.name in allowed:
            ctx.ok("R-FLAGS-WRITERS", f"writer:{fn.name}:push/init (checked by R-PUSH-POP)", nontrivial=False)
            continue
        if fn.name == "bound_consistency_algorithm":
            for a in bc_analyses(prog):
                n = 0
                for bp in a.outer.paths:
                    for e in bp.events:
                        if e.kind == "store" and e.root == a.flags:
                            n += 1
                            pops = calls_named(bp.events, "pop_propagator")
                            popped = _call_result(bp.events, pops[0]) if pops else None
                            status = _icall_result(bp.events)
                            okk = (
                                len(e.idx) == 2 and e.idx[0] == a.T and popped is not None and e.idx[1] == popped
                                and (e.value == ZERO if isinstance(e.value, Aff) else False)
                                and status is not None and bp.state.facts.decide(cmp_cond("==", status, K(PE))) is True
                                and not any(x.kind == "store" and x.root == a.top for x in bp.events)
                            )
                            if okk:
                                ctx.ok("R-FLAGS-WRITERS", f"{a.mode}:clear-on-entailment", sample={"store": repr(View(e.root, e.idx)), "under": "status == PROP_ENTAILMENT"})
                            else:
                                ctx.violation("R-FLAGS-WRITERS", a.fn.path, a.fn.name, "flag-clear", f"{a.fn.path}:{e.line}",
                                              f"{a.fn.name} ({a.mode}) writes {View(e.root, e.idx)!r} = {show_val(e.value)}: the enabled flag may only be "
                                              "cleared for the propagator that just answered PROP_ENTAILMENT, at the level current at entry")
                ctx.floor(f"R-FLAGS-WRITERS:{a.mode}:bc-clears", n, 1)
            continue
        loc = fn.loc()
        refuse_unmodelled_algorithm(prog, fn)
        ctx.violation("R-FLAGS-WRITERS", fn.path, fn.qualname, "unexpected-writer", loc,
                      f"{fn.qualname} writes the enabled-constraints stack; only cp_init, cp_put and the entailment branch of the "
                      "propagation loop may")
    # the two protocol writers must still write: a cp_init that no longer re-enables every constraint (or a cp_put that no longer copies
    # the row) is a definite violation, reported as such rather than as a drop in the number of writers
    seen_writers = {fn.name for fn, p in roles.functions_with_role("not_entailed_propagators_stack") if _stores_through(fn, p)}
    for must, why in (("cp_init", "a restart (reset) keeps the constraints disabled by the previous search: they are never executed again"),
                      ("cp_put", "a new level starts with whatever flags were left in that row by an earlier visit")):
        if must not in seen_writers:
            f0 = prog.func(f"{prog.package}.solvers.choice_points", must)
            ctx.violation("R-FLAGS-WRITERS", f0.path, must, "protocol-writer-silent", f0.loc(),
                          f"{must} no longer writes the enabled-constraints stack: {why}")
            n_writers += 1
    ctx.floor("R-FLAGS-WRITERS:writers", n_writers, 3)


def _icall_result(events: List[Event]) -> Optional[Aff]:
    for e in events:
        if e.kind == "icall":
            return _call_result(events, e)
    return None


def _stores_through(fn: FuncInfo, param: str) -> bool:
    aliases = {param}
    for _ in range(3):
        for n in ast.walk(fn.node):
            if isinstance(n, ast.Assign) and len(n.targets) == 1 and isinstance(n.targets[0], ast.Name):
                base = n.value
                while isinstance(base, ast.Subscript):
                    base = base.value
                if isinstance(base, ast.Name) and base.id in aliases:
                    aliases.add(n.targets[0].id)
    for n in ast.walk(fn.node):
        tgts: List[ast.expr] = []
        if isinstance(n, ast.Assign):
            tgts = list(n.targets)
        elif isinstance(n, (ast.AugAssign, ast.AnnAssign)):
            tgts = [n.target]
        for t in tgts:
            for el in (t.elts if isinstance(t, ast.Tuple) else [t]):
                base = el
                sub = False
                while isinstance(base, ast.Subscript):
                    base = base.value
                    sub = True
                if sub and isinstance(base, ast.Name) and base.id in aliases:
                    return True
        if isinstance(n, ast.Call) and isinstance(n.func, ast.Attribute) and n.func.attr == "fill":
            base = n.func.value
            while isinstance(base, ast.Subscript):
                base = base.value
            if isinstance(base, ast.Name) and base.id in aliases:
                return True
    return False


def refuse_unmodelled_algorithm(prog: Program, fn: FuncInfo) -> None:
    """The who-may-write rules name the owners of the engine's state.  A function registered as a *consistency algorithm* is a new owner by
    construction: it legitimately writes domains, flags, queue and statistics, and whether it does so correctly is what the propagation-loop
    rules decide for the two algorithms they have a model of.  For a third one the honest answer is 'not analysed' (exit 2), not 'violation'."""
    reg = prog.registry("CONSISTENCY_ALG_FCTS")
    if any(isinstance(e_, FuncInfo) and e_.fq == fn.fq for e_ in list(reg.entries) + list(reg.extra)):
        raise AnalysisError(f"{fn.qualname} is a registered consistency algorithm this checker has no model of (known: bound_consistency_algorithm, "
                            "shaving_consistency_algorithm): its stores into the engine's state cannot be vouched for")


# ------------------------------------------------------------ R-ANNOUNCE: who writes the domain stack
STACK_WRITERS = {
    # function -> the rule that establishes that its stores are announced before the next propagation pass
    "cp_init": "R-ANNOUNCE(d): callers re-queue every propagator (constructor: np.ones; reset: fill(True))",
    "cp_put": "R-PUSH-POP: a push copies, it changes no domain",
    "min_value_dom_heuristic": "R-BRANCH-EVENTS + R-HANDOVER",
    "max_value_dom_heuristic": "R-BRANCH-EVENTS + R-HANDOVER",
    "split_low_dom_heuristic": "R-BRANCH-EVENTS + R-HANDOVER",
    "value_dom_heuristic": "R-BRANCH-EVENTS + R-HANDOVER",
    "bound_consistency_algorithm": "R-ANNOUNCE (write-back) + R-EVENTS-EXACT",
    "decrease_max": "R-TIGHTEN: called right after reset's full re-trigger, before the next search",
    "increase_min": "R-TIGHTEN: called right after reset's full re-trigger, before the next search",
    "shave_bound": "R-SHAVE: restores the saved alternative (net change replayed by backtrack from the recorded events)",
}
TRANSITIVE_ONLY = {"mid_value_dom_heuristic", "min_cost_dom_heuristic", "shaving_consistency_algorithm", "solve_one", "reset", "golomb_consistency_algorithm"}


def rule_stack_writers(ctx: Ctx, prog: Program, thorough: bool = False) -> None:
    ctx.rule("R-ANNOUNCE")
    roles = get_roles(prog)
    n = 0
    for fn, p in roles.functions_with_role("shr_domains_stack"):
        if not _stores_through(fn, p):
            continue
        if ".examples." in fn.module:
            if thorough:
                ctx.undecided_site("R-ANNOUNCE", f"{fn.qualname}", "custom consistency algorithm of an example model: its stores are followed by add_propagators in "
                                   "the same loop body; not part of the shipped engine")
            continue
        n += 1
        ctx.fn(fn.fq)
        registered_value_heuristic = any(isinstance(e_, FuncInfo) and e_.fq == fn.fq for e_ in prog.registry("DOM_HEURISTIC_FCTS").entries)
        if fn.name in STACK_WRITERS:
            ctx.ok("R-ANNOUNCE", f"writer {fn.name}: covered by {STACK_WRITERS[fn.name]}", nontrivial=False)
        elif registered_value_heuristic:
            # every registered value heuristic is interpreted by R-PARTITION / R-BRANCH-EVENTS (whatever its name), and solve_one announces
            # what it returns (R-HANDOVER)
            ctx.ok("R-ANNOUNCE", f"writer {fn.name}: a registered value heuristic, covered by R-BRANCH-EVENTS + R-HANDOVER", nontrivial=False)
        else:
            refuse_unmodelled_algorithm(prog, fn)
            ctx.violation("R-ANNOUNCE", fn.path, fn.qualname, "unexpected-stack-writer", fn.loc(),
                          f"{fn.qualname} stores into the domain stack but no rule establishes that the change is announced to the watching constraints "
                          "before the next propagation pass (writers known to the protocol: " + ", ".join(sorted(STACK_WRITERS)) + ")")
    ctx.floor("R-ANNOUNCE:stack-writers", n, 10)
    # the constructor starts with every propagator queued
    fn = prog.func(f"{prog.package}.solvers.backtrack_solver", "BacktrackSolver.__init__")
    import ast as _ast

    it0 = Interp(prog, no_inline={"cp_init": None})
    all_queued = True
    n_paths = 0
    for r in it0.run(fn):
        if r.outcome != "return":
            continue
        n_paths += 1
        st_ev = [e for e in r.events if e.kind == "store" and e.root == "self.triggered_propagators" and not e.idx]
        v = as_view(st_ev[-1].value) if st_ev else None
        cell = it0.load_at(r.state, len(r.state.heap), v.root, (S("any_constraint"),)) if isinstance(v, View) else None
        if not (isinstance(cell, Aff) and cell == ONE):
            all_queued = False
    if all_queued and n_paths:
        ctx.ok("R-ANNOUNCE", "constructor: every propagator is queued initially")
    else:
        ctx.violation("R-ANNOUNCE", fn.path, fn.qualname, "initial-queue", fn.loc(),
                      "the propagation queue of a new solver does not start with every propagator queued: a constraint that is not queued is never "
                      "executed on the initial domains (e.g. a violated constraint over instantiated variables is never noticed)")


# ------------------------------------------------------------------ R-WAKEUP: the wake-up primitive itself
def rule_wakeup(ctx: Ctx, prog: Program) -> None:
    """add_propagators(triggered, enabled_row, triggers, d, events): over ALL constraint indices p,
    triggered[p] is set (never cleared) exactly when enabled_row[p] and triggers[d, p] & events != 0."""
    ctx.rule("R-WAKEUP")
    fn = prog.func(f"{prog.package}.propagators.propagators", "add_propagators")
    ctx.fn(fn.fq)
    if len(fn.params) != 5:
        raise AnalysisError("add_propagators: expected (triggered, enabled_row, triggers, dom_idx, events)")
    trig, row, tab, dom, evs = fn.params
    it = Interp(prog)
    res = it.run(fn)
    loops: List[LoopSummary] = []
    for r in res:
        if r.outcome != "return":
            ctx.violation("R-WAKEUP", fn.path, fn.name, "abnormal-exit", fn.loc(), f"add_propagators has a path ending in {r.outcome}")
        for e in r.events:
            if e.kind == "store":
                ctx.violation("R-WAKEUP", fn.path, fn.name, "store-outside-scan", f"{fn.path}:{e.line}",
                              f"add_propagators stores {View(e.root, e.idx)!r} outside its scan over the constraints")
        for l in loops_of(r.events):
            if l not in loops:
                loops.append(l)
    if len(loops) != 1:
        ctx.violation("R-WAKEUP", fn.path, fn.name, "scan", fn.loc(), f"add_propagators must scan the constraints exactly once (found {len(loops)} loops)")
        return
    l = loops[0]
    rng = l.iter_value
    full = (l.index is not None and getattr(rng, "start", None) == ZERO and getattr(rng, "step", None) == ONE
            and isinstance(getattr(rng, "stop", None), Aff) and rng.stop.single_atom() is not None and rng.stop.single_atom()[0] == "len"
            and rng.stop.single_atom()[1] in (trig, row))
    if not full:
        ctx.violation("R-WAKEUP", fn.path, fn.name, "scan-range", f"{fn.path}:{getattr(l.node, 'lineno', 0)}",
                      "the wake-up scan does not range over every constraint index 0..len(triggered)-1")
    else:
        ctx.ok("R-WAKEUP", "scan covers every constraint index", sample={"range": f"0..len({trig})"})
    p = l.index
    en = Aff.atom(("init", row, (p,)))
    watched = Aff.atom(("bitand", *sorted([Aff.atom(("init", evs, ())) if False else it.scalar(State(), View(evs, ())), Aff.atom(("init", tab, (it.scalar(State(), View(dom, ())), p)))], key=repr)))
    c_en = ("ne0", en)
    c_w = ("ne0", watched)
    n_set = n_skip = 0
    for bp in l.paths:
        if bp.outcome not in ("fall", "continue"):
            ctx.violation("R-WAKEUP", fn.path, fn.name, "scan-exit", f"{fn.path}:{getattr(l.node, 'lineno', 0)}",
                          f"the wake-up scan can end early ({bp.outcome}): constraints after that index are not examined")
            continue
        stores = [e for e in bp.events if e.kind == "store"]
        f = bp.state.facts
        if stores:
            for e in stores:
                okk = (e.root == trig and len(e.idx) == 1 and isinstance(e.value, Aff) and e.value == ONE and e.aug is None)
                if not okk:
                    n_set += 1
                    ctx.violation("R-WAKEUP", fn.path, fn.name, "scan-store", f"{fn.path}:{e.line}",
                                  f"the wake-up scan stores {View(e.root, e.idx)!r} = {show_val(e.value) if isinstance(e.value, Aff) else e.value!r}: "
                                  "the wake-up scan may only set flags of the queue (clearing one un-queues a constraint whose input changed)")
                    continue
                n_set += 1
                # queueing a constraint that is disabled or does not watch the event only costs a useless execution: not a violation
                ctx.ok("R-WAKEUP", "the scan only ever sets the flag of the constraint it examines",
                       sample={"precise": bool(f.decide(c_en) is True and f.decide(c_w) is True)})
        else:
            n_skip += 1
            g = f.copy()
            g.add(c_en)
            if f.decide(negate(c_en)) is True or g.infeasible_strong() or g.decide(negate(c_w)) is True:
                ctx.ok("R-WAKEUP", "skipped only if disabled or not watching")
            else:
                ctx.violation("R-WAKEUP", fn.path, fn.name, "skip-condition", f"{fn.path}:{getattr(l.node, 'lineno', 0)}",
                              "an enabled constraint that watches one of the announced events can be passed over without being queued "
                              f"(required: queue p whenever {row}[p] and {tab}[{dom}, p] & {evs} != 0)")
    ctx.floor("R-WAKEUP:setting-paths", n_set, 1)
    ctx.floor("R-WAKEUP:skipping-paths", n_skip, 1)


# ------------------------------------------------------------------ R-QUEUE-WRITERS: who may write the propagation queue
QUEUE_WRITERS = {
    "add_propagators": "sets flags only (R-WAKEUP)",
    "pop_propagator": "clears the flag of the constraint it hands out, and only that one (R-QUEUE-DRAIN)",
    "reset": "re-queues every constraint (R-ANNOUNCE reset)",
}


def rule_queue_writers(ctx: Ctx, prog: Program, thorough: bool = False) -> None:
    """A set flag means 'this constraint's input changed since it last ran'.  Only pop_propagator may clear one (for the constraint
    it hands out for execution); anybody else clearing a flag discards a pending execution (e.g. a self-requeue after a write-back)."""
    ctx.rule("R-QUEUE-WRITERS")
    roles = get_roles(prog)
    n = 0
    for fn, p in roles.functions_with_role("triggered_propagators"):
        if ".examples." in fn.module and not thorough:
            continue
        if not _stores_through(fn, p):
            continue
        n += 1
        ctx.fn(fn.fq)
        if fn.name in QUEUE_WRITERS:
            ctx.ok("R-QUEUE-WRITERS", f"writer {fn.name}: {QUEUE_WRITERS[fn.name]}", nontrivial=False)
            continue
        # any other writer: every store must be a 'set' (queueing more is harmless); a clear is a violation
        bad: List[Tuple[int, str]] = []
        for node in ast.walk(fn.node):
            tgt = None
            val = None
            if isinstance(node, ast.Assign) and len(node.targets) == 1:
                tgt, val = node.targets[0], node.value
            elif isinstance(node, ast.AugAssign):
                tgt, val = node.target, None
            if tgt is not None and isinstance(tgt, ast.Subscript):
                base = tgt
                while isinstance(base, ast.Subscript):
                    base = base.value
                if isinstance(base, ast.Name) and base.id == p:
                    if not (isinstance(val, ast.Constant) and val.value is True):
                        bad.append((node.lineno, ast.unparse(node)))
            if isinstance(node, ast.Call) and isinstance(node.func, ast.Attribute) and node.func.attr == "fill":
                base = node.func.value
                if isinstance(base, ast.Name) and base.id == p and not (node.args and isinstance(node.args[0], ast.Constant) and node.args[0].value is True):
                    bad.append((node.lineno, ast.unparse(node)))
        if bad:
            ctx.violation("R-QUEUE-WRITERS", fn.path, fn.qualname, "clears-queue-flag", f"{fn.path}:{bad[0][0]}",
                          f"{fn.qualname} writes the propagation queue with `{bad[0][1]}`: only pop_propagator may clear a flag (for the constraint it hands "
                          "out); clearing it elsewhere discards a pending execution, e.g. the re-queueing of a constraint by its own write-back")
        else:
            ctx.ok("R-QUEUE-WRITERS", f"writer {fn.qualname}: only sets flags")
    ctx.floor("R-QUEUE-WRITERS:writers", n, 2)
