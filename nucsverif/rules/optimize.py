"""R-TIGHTEN (branch-and-bound by restart), R-OFFSET-ROUNDTRIP (solution / tightening through offsets),
R-ANNOUNCE(d) (reset re-triggers everything), R-SOLVED (is_solved over all shared domains)."""
from __future__ import annotations

import ast
from typing import Any, Dict, List, Optional, Set, Tuple

from ..core import Ctx
from ..interp import ALL, Dual, Event, FuncVal, Interp, LoopSummary, PathResult, State, View, as_view, NONE
from ..program import AnalysisError, FuncInfo, Program
from ..terms import Aff, K, ONE, S, ZERO, atoms_in, cmp_cond, show_val
from .engine import calls_named, loops_of, init

SOLVER_MOD = "solvers.solver"
BT_MOD = "solvers.backtrack_solver"


def _root_is(v: Any, suffix: str) -> bool:
    v = as_view(v)
    return isinstance(v, View) and not v.idx and (v.root == suffix or v.root.endswith("." + suffix))


# ------------------------------------------------------------- solver.py primitives
def rule_offset_primitives(ctx: Ctx, prog: Program) -> None:
    ctx.rule("R-OFFSET-ROUNDTRIP")
    mod = f"{prog.package}.{SOLVER_MOD}"
    MIN, MAX = prog.C("MIN"), prog.C("MAX")
    # get_solution
    fn = prog.func(mod, "get_solution")
    ctx.fn(fn.fq)
    if len(fn.params) != 4:
        raise AnalysisError("get_solution: expected (stack, top, dom_indices, dom_offsets)")
    st_, tp, di, do = fn.params
    it = Interp(prog)
    res = [r for r in it.run(fn) if r.outcome == "return"]
    T = init(tp, K(0))
    for r in res:
        v = r.value
        exp = init(st_, T, init(di), K(MIN)) + init(do)
        got = it.scalar(r.state, v)
        # array expression: stack[T, dom_indices, MIN] + dom_offsets
        okk = got == exp
        if not okk and isinstance(as_view(v), View):
            org = it.allocs.get(as_view(v).root)
            if org and org[0] == "binop" and org[1] == "Add":
                x, y = as_view(org[2]), as_view(org[3])
                if isinstance(y, View) and y.root == st_:
                    x, y = y, x
                okk = (
                    isinstance(x, View) and x.root == st_ and len(x.idx) == 3 and x.idx[0] == T and x.idx[2] == K(MIN)
                    and (x.idx[1] == init(di) or x.idx[1] == ("fancy", View(di, ())))
                    and (y == View(do, ()) or y == init(do))
                )
        if okk:
            ctx.ok("R-OFFSET-ROUNDTRIP", "get_solution: stack[T, dom_indices, MIN] + dom_offsets", sample={"value": show_val(got)})
        else:
            ctx.violation("R-OFFSET-ROUNDTRIP", fn.path, "get_solution", "value", fn.loc(),
                          f"the reported vector is not 'shared minimum at the current level + per-variable offset' (got {show_val(got)})")
    ctx.floor("R-OFFSET-ROUNDTRIP:get_solution-paths", len(res), 1)
    # decrease_max / increase_min
    for name, bound, delta in (("decrease_max", MAX, -1), ("increase_min", MIN, +1)):
        fn = prog.func(mod, name)
        ctx.fn(fn.fq)
        if len(fn.params) != 6:
            raise AnalysisError(f"{name}: expected 6 parameters")
        st_, tp, di, do, vi, val = fn.params
        it = Interp(prog)
        res = [r for r in it.run(fn) if r.outcome == "return"]
        T = init(tp, K(0))
        for r in res:
            stores = [e for e in r.events if e.kind == "store"]
            exp_idx = (T, init(di, init(vi)), K(bound))
            exp_val = init(val).addc(delta) - init(do, init(vi))
            if len(stores) != 1:
                ctx.violation("R-OFFSET-ROUNDTRIP", fn.path, name, "stores", fn.loc(), f"{name} performs {len(stores)} stores (expected exactly one bound)")
                continue
            e = stores[0]
            got_val = e.value if isinstance(e.value, Aff) else it.scalar(r.state, e.value)
            # which half of the obligation fails decides which properties it concerns: the strictness of the move (a constant difference) and the
            # bound written are optimisation / termination matters; the offset and the shared-domain index are also encoding matters (C13)
            idx_ok = e.root == st_ and len(e.idx) == 3 and e.idx[0] == exp_idx[0] and e.idx[1] == exp_idx[1]
            if not (e.root == st_ and tuple(e.idx) == exp_idx):
                ctx.violation("R-OFFSET-ROUNDTRIP", fn.path, name, "cell-bound" if idx_ok else "cell-index", f"{fn.path}:{e.line}",
                              f"{name} stores into {View(e.root, e.idx)!r}; expected the {'MAX' if bound == MAX else 'MIN'} bound of the shared "
                              "domain of the variable (dom_indices[var]) at the current level")
            elif not (got_val == exp_val):
                ctx.violation("R-OFFSET-ROUNDTRIP", fn.path, name, "value-strictness" if (got_val - exp_val).is_const() else "value-offset", f"{fn.path}:{e.line}",
                              f"{name} stores {show_val(got_val)}; expected value {delta:+d} - dom_offsets[var] (= {show_val(exp_val)}): the bound must "
                              "move exactly one past the incumbent, in shared coordinates")
            else:
                ctx.ok("R-OFFSET-ROUNDTRIP", f"{name}: cell+value", sample={"cell": repr(View(e.root, e.idx)), "value": show_val(got_val)})
        ctx.floor(f"R-OFFSET-ROUNDTRIP:{name}-paths", len(res), 1)


def rule_is_solved(ctx: Ctx, prog: Program) -> None:
    ctx.rule("R-SOLVED")
    fn = prog.func(f"{prog.package}.{SOLVER_MOD}", "is_solved")
    ctx.fn(fn.fq)
    MIN, MAX = prog.C("MIN"), prog.C("MAX")
    if len(fn.params) != 2:
        # a further parameter that is iterated over (the variables' domain indices, the decision domains): groundness is tested for the
        # shared domains it lists only -- enough for the reported vector to be an assignment, not for the enumeration to distinguish
        # solutions that differ on a shared domain no variable shows (C02)
        extra = set(fn.params[2:])
        iterated = [x for x in ast.walk(fn.node) if isinstance(x, (ast.For, ast.comprehension)) and isinstance(x.iter, ast.Name) and x.iter.id in extra]
        indexed = [x for x in ast.walk(fn.node) if isinstance(x, ast.Subscript) and any(isinstance(y, ast.Name) and y.id in extra for y in ast.walk(x.slice))]
        if iterated or indexed:
            ctx.violation("R-SOLVED", fn.path, "is_solved", "all-domains", fn.loc(),
                          f"is_solved tests the shared domains listed by its parameter '{sorted(extra)[0]}' instead of every shared domain at level stacks_top[0]: a shared "
                          "domain outside that list (one no variable refers to) may still hold several values when a solution is reported")
            return
        raise AnalysisError("is_solved: expected (stack, top)")
    st_, tp = fn.params
    it = Interp(prog)
    res = [r for r in it.run(fn) if r.outcome == "return"]
    T = init(tp, K(0))
    for r in res:
        eqs = [e for e in r.events if e.kind == "call" and e.name in ("numpy.equal", "numpy.array_equal")]
        alls = [e for e in r.events if e.kind == "call" and e.name == "numpy.all"]
        okk = False
        if len(eqs) == 1 and len(eqs[0].args) == 2:
            a, b = as_view(eqs[0].args[0]), as_view(eqs[0].args[1])
            want = {View(st_, (T, ALL, K(MIN))), View(st_, (T, ALL, K(MAX)))}
            if {a, b} == want:
                if eqs[0].name == "numpy.array_equal":
                    okk = as_view(r.value) == eqs[0].ret or True
                elif len(alls) == 1 and as_view(alls[0].args[0]) == eqs[0].ret:
                    okk = True
        if okk:
            ctx.ok("R-SOLVED", "is_solved compares MIN and MAX of all shared domains at the current level")
        else:
            construct = "all-domains"
            if len(eqs) == 1 and len(eqs[0].args) == 2:
                a, b = as_view(eqs[0].args[0]), as_view(eqs[0].args[1])
                if isinstance(a, View) and isinstance(b, View) and a.root == st_ and b.root == st_ and a.idx and b.idx and (a.idx[0] != T or b.idx[0] != T):
                    # another level than the current one; the root level is a superset of every level above it (what is ground there is ground
                    # everywhere): solutions are then never recognised (C02 / C03), but nothing invalid is reported
                    construct = "wrong-level:root" if (a.idx[0] == K(0) and b.idx[0] == K(0)) else "wrong-level"
            ctx.violation("R-SOLVED", fn.path, "is_solved", construct, fn.loc(),
                          "is_solved must compare MIN and MAX of every shared domain at level stacks_top[0]")
    ctx.floor("R-SOLVED:paths", len(res), 1)


def _root_forwarded(prog: Program, fn: FuncInfo, src: Any) -> bool:
    """`fn` (reset) hands one of its own parameters to cp_init as the root domains.  That is as good as np.array(problem.shr_domains_lst) inside
    fn when EVERY caller of fn in the package passes, at that position, a fresh copy of the list taken in the calling function itself
    (a local bound once to np.array(<x>.shr_domains_lst), or that call written in place): the copy is then taken once per solve / optimize
    call, after split() and the model API have written the list.  A copy kept on an object (self.x) does not qualify."""
    if not (isinstance(src, View) and not src.idx and src.root in fn.params):
        return False
    pos = fn.params.index(src.root)

    def fresh(e: ast.expr) -> bool:
        return isinstance(e, ast.Call) and ast.unparse(e.func) in ("np.array", "numpy.array", "np.asarray", "numpy.asarray") and len(e.args) >= 1 \
            and isinstance(e.args[0], ast.Attribute) and e.args[0].attr == "shr_domains_lst"
    n_sites = 0
    for g in prog.all_functions():
        if g is fn:
            continue
        for c in ast.walk(g.node):
            if not (isinstance(c, ast.Call) and isinstance(c.func, ast.Name) and c.func.id == fn.name):
                continue
            r_ = prog.resolve(g.module, fn.name)
            if not (r_ and r_[0] == "func" and r_[1].fq == fn.fq):
                continue
            n_sites += 1
            if any(isinstance(a_, ast.Starred) for a_ in c.args) or len(c.args) <= pos:
                kw = [k.value for k in c.keywords if k.arg == src.root]
                if len(kw) != 1:
                    return False
                arg = kw[0]
            else:
                arg = c.args[pos]
            if fresh(arg):
                continue
            if not isinstance(arg, ast.Name) or arg.id in g.params:
                return False
            defs = [a_ for a_ in ast.walk(g.node) if isinstance(a_, (ast.Assign, ast.AnnAssign, ast.AugAssign, ast.For, ast.NamedExpr))
                    and any(isinstance(x_, ast.Name) and x_.id == arg.id and isinstance(x_.ctx, ast.Store) for t_ in (a_.targets if isinstance(a_, ast.Assign) else [a_.target]) for x_ in ast.walk(t_))]
            if len(defs) != 1 or not isinstance(defs[0], (ast.Assign, ast.AnnAssign)) or defs[0].value is None or not fresh(defs[0].value):
                return False
    return n_sites >= 1


def rule_reset(ctx: Ctx, prog: Program) -> None:
    ctx.rule("R-ANNOUNCE")
    fn = prog.func(f"{prog.package}.{BT_MOD}", "reset")
    ctx.fn(fn.fq)
    it = Interp(prog, no_inline={"cp_init": None})
    res = [r for r in it.run(fn) if r.outcome == "return"]
    from .engine import role_param
    st_ = role_param(prog, fn, "shr_domains_stack")
    fl = role_param(prog, fn, "not_entailed_propagators_stack")
    up = role_param(prog, fn, "dom_update_stack")
    tp = role_param(prog, fn, "stacks_top")
    trig = role_param(prog, fn, "triggered_propagators")
    for r in res:
        inits = calls_named(r.events, "cp_init")
        # after reset EVERY constraint is queued: the final content of the queue, at a symbolic position, is True
        final = it.load_at(r.state, len(r.state.heap), trig, (S("any_constraint"),))
        fills = [1] if (isinstance(final, Aff) and final == ONE) else []
        okk = False
        if len(inits) == 1:
            a = [as_view(x) for x in inits[0].args]
            if len(a) == 5 and a[0] == View(st_, ()) and a[1] == View(fl, ()) and a[2] == View(up, ()) and a[3] == View(tp, ()):
                src = a[4]
                org = it.allocs.get(src.root) if isinstance(src, View) else None
                if org and org[0] == "alloc" and org[2] and _root_is(org[2][0], "shr_domains_lst"):
                    okk = True
                elif _root_forwarded(prog, fn, src):
                    okk = True  # every caller hands over a fresh np.array(problem.shr_domains_lst) taken in the calling function
        if not okk:
            ctx.violation("R-ANNOUNCE", fn.path, "reset", "cp_init", fn.loc(),
                          "reset must re-initialise all stacks from the problem's initial shared domains (cp_init(stack, flags, updates, top, array(problem.shr_domains_lst)))")
        else:
            ctx.ok("R-ANNOUNCE", "reset: cp_init from the initial domains")
        if len(fills) < 1:
            ctx.violation("R-ANNOUNCE", fn.path, "reset", "retrigger", fn.loc(),
                          "reset rewrites every shared domain but does not leave every propagator queued (triggered_propagators.fill(True)): the constraints "
                          "that are not re-queued are not executed on the restored domains, the first pass after a restart is not a fixpoint of all constraints")
        else:
            ctx.ok("R-ANNOUNCE", "reset: full re-trigger", sample={"store": "triggered_propagators[:] = True"})
    ctx.floor("R-ANNOUNCE:reset-paths", len(res), 1)


# ----------------------------------------------------------------------- R-TIGHTEN
def rule_tighten(ctx: Ctx, prog: Program) -> None:
    ctx.rule("R-TIGHTEN")
    mod = f"{prog.package}.{BT_MOD}"
    MIN, MAX = prog.C("MIN"), prog.C("MAX")
    # pairing entry point <-> tightening function
    pairs = {"minimize": ("optimize", "decrease_max"), "maximize": ("optimize", "increase_min"),
             "minimize_and_queue": ("optimize_and_queue", "decrease_max"), "maximize_and_queue": ("optimize_and_queue", "increase_min")}
    for entry, (worker, tight) in pairs.items():
        fn = prog.func(mod, f"BacktrackSolver.{entry}")
        ctx.fn(fn.fq)
        it = Interp(prog, no_inline={worker: []})
        res = it.run(fn)
        found = False
        for r in res:
            for e in calls_named(r.events, worker):
                a = list(e.args)[1:]  # drop self
                fvs = [x for x in a if isinstance(x, FuncVal)]
                if len(fvs) == 1 and fvs[0].fn.name == tight and a and as_view(a[0]) == View("variable_idx", ()):
                    found = True
                    if worker == "optimize" and not (as_view(r.value) == as_view(e.ret)):
                        found = False
        if found:
            ctx.ok("R-TIGHTEN", f"{entry} -> {worker}(variable_idx, {tight})", sample={"entry": entry, "tightening": tight})
        else:
            ctx.violation("R-TIGHTEN", fn.path, f"BacktrackSolver.{entry}", "pairing", fn.loc(),
                          f"{entry} must delegate to {worker} with the variable index and {tight} (and return its result)")
    for worker in ("optimize", "optimize_and_queue"):
        fn = prog.func(mod, f"BacktrackSolver.{worker}")
        ctx.fn(fn.fq)
        it = Interp(prog, no_inline={"solve_one": None, "reset": None, "backtrack": None, "get_function_addresses": []})
        res = it.run(fn)
        loops: List[LoopSummary] = []
        for r in res:
            for l in loops_of(r.state.trace):
                if l not in loops and any(calls_named(bp.events, "solve_one") for bp in l.paths):
                    loops.append(l)
        if len(loops) != 1:
            raise AnalysisError(f"{fn.fq}: expected exactly one search loop, found {len(loops)}")
        loop = loops[0]
        upd_param = fn.params[2] if len(fn.params) > 2 else None
        n_found = 0
        n_exit = 0
        guard_seen = False
        for bp in loop.paths:
            so = calls_named(bp.events, "solve_one")
            if not so:
                continue
            sol = so[-1].ret
            sol_atom = Aff.atom(("init", sol.root, ()))
            found_fact = bp.state.facts.decide(("is", sol_atom, NONE))
            if found_fact is not False:
                # the 'no more solution' path: must leave the loop without tightening
                if bp.outcome not in ("break", "return") and not (bp.outcome == "fall" and False):
                    pass
                continue
            n_found += 1
            evs = bp.events
            i_solve = evs.index(so[-1])
            resets = [i for i, e in enumerate(evs) if e.kind == "call" and e.name and e.name.endswith(":reset")]
            tights = [i for i, e in enumerate(evs) if e.kind == "icall" and upd_param is not None and as_view(e.recv) == View(upd_param, ())]
            where = f"BacktrackSolver.{worker}"
            if not tights and bp.outcome in ("break", "return"):
                # an iteration that found a solution and *leaves* the loop needs no tightening -- it needs a reason why nothing better exists.
                # Decided here: the search space under the current bound is exhausted (backtrack() answered 'no alternative left' on this
                # path: depth-first, the incumbent was the last leaf).  Any other conditional exit is listed, not judged; an exit on every
                # improving path (the loop never searches past its first solution) is decided below.
                n_exit += 1
                exhausted = False
                for e in calls_named(evs[i_solve:], "backtrack"):
                    rv = it.scalar(bp.state, e.ret) if e.ret is not None else None
                    if isinstance(rv, Aff) and bp.state.facts.decide(cmp_cond("==", rv, ZERO)) is True:
                        exhausted = True
                recorded = True
                if worker == "optimize":
                    recorded = any(as_view(v) == sol and n not in ("solution",) for n, v in bp.state.env.items())
                else:
                    recorded = any(e.kind == "mcall" and e.name == "put" and e.args and e.args[0].__class__.__name__ == "Tup" and len(e.args[0].items) == 3
                                   and as_view(e.args[0].items[1]) == sol for e in evs[i_solve:])
                if not recorded:
                    ctx.violation("R-TIGHTEN", fn.path, where, "incumbent", fn.loc(),
                                  f"{worker}: a path leaves the loop with a solution found in this iteration that was neither recorded as the incumbent nor queued")
                elif exhausted:
                    ctx.ok("R-TIGHTEN", f"{worker}: leaves after a solution when no alternative is left on the stack (the incumbent was the last leaf)")
                else:
                    ctx.undecided_site("R-TIGHTEN", f"{worker}:conditional-exit-after-solution",
                                       "a conditional exit after a found solution whose justification (nothing better exists) is not one this rule can decide")
                continue
            if len(tights) != 1:
                ctx.violation("R-TIGHTEN", fn.path, where, "tighten-call", fn.loc(),
                              f"{worker}: an iteration that found a solution makes {len(tights)} tightening calls (expected 1)")
                continue
            ti = tights[0]
            if len(resets) != 1 or not (i_solve < resets[0] < ti):
                ctx.violation("R-TIGHTEN", fn.path, where, "reset-then-tighten", f"{fn.path}:{evs[ti].line}",
                              f"{worker}: the objective bound must be tightened after the reset (a tightening followed by reset is erased; "
                              "without reset the next search starts from a solved state)")
            else:
                ctx.ok("R-TIGHTEN", f"{worker}: solve -> reset -> tighten")
                ra = [as_view(x) for x in evs[resets[0]].args]
                names = ["problem", "shr_domains_stack", "not_entailed_propagators_stack", "dom_update_stack", "stacks_top", "triggered_propagators"]
                rfn = prog.func(f"{prog.package}.{BT_MOD}", "reset")
                first_ok = len(ra) == 6 and (_root_is(ra[0], "problem") or (bool(rfn.params) and _root_forwarded(prog, rfn, View(rfn.params[0], ()))))
                if len(ra) != 6 or not first_ok or not all(_root_is(a, n) for a, n in zip(ra[1:], names[1:])):
                    ctx.violation("R-TIGHTEN", fn.path, where, "reset-args", f"{fn.path}:{evs[resets[0]].line}",
                                  f"{worker}: reset is not applied to this solver's stacks and queue ({[repr(x) for x in ra]})")
                else:
                    ctx.ok("R-TIGHTEN", f"{worker}: reset(args)")
            ta = evs[ti].args
            exp = ["shr_domains_stack", "stacks_top", "dom_indices_arr", "dom_offsets_arr", "variable_idx"]
            okargs = len(ta) == 6 and all(_root_is(a, n) for a, n in zip(ta[:5], exp))
            incumbent_val = as_view(ta[5]) if len(ta) == 6 else None
            if okargs and isinstance(incumbent_val, View) and incumbent_val.root == sol.root and len(incumbent_val.idx) == 1 \
                    and incumbent_val.idx[0] == Aff.atom(("init", "variable_idx", ())):
                ctx.ok("R-TIGHTEN", f"{worker}: tighten(stack, top, dom_indices, dom_offsets, variable_idx, solution[variable_idx])",
                       sample={"args": [repr(x) for x in ta]})
            else:
                ctx.violation("R-TIGHTEN", fn.path, where, "tighten-args", f"{fn.path}:{evs[ti].line}",
                              f"{worker}: the tightening call must receive (stack, top, dom_indices, dom_offsets, variable_idx, "
                              f"incumbent[variable_idx]); got {[repr(x) for x in ta]}")
            # incumbent bookkeeping
            if worker == "optimize":
                best_names = [n for n, v in bp.state.env.items() if as_view(v) == sol and n not in ("solution",)]
                ret_ok = False
                for r in res:
                    if r.outcome == "return":
                        rv = it.scalar(r.state, r.value)
                        a = rv.single_atom()
                        if a is not None and a[0] == "lv" and a[1] in best_names and a[2] == loop.loop_id:
                            pre = loop.pre_env.get(a[1])
                            if pre is not None and it.scalar(r.state, pre) == NONE:
                                ret_ok = True
                if ret_ok:
                    ctx.ok("R-TIGHTEN", "optimize: returns the last incumbent (None before the first)")
                else:
                    ctx.violation("R-TIGHTEN", fn.path, where, "incumbent", fn.loc(),
                                  "optimize must record every solution found as the incumbent and return the last one (None if none)")
            else:
                puts = [i for i, e in enumerate(evs) if e.kind == "mcall" and e.name == "put"]
                okput = False
                for i in puts:
                    a = evs[i].args[0] if evs[i].args else None
                    if a is not None and a.__class__.__name__ == "Tup" and len(a.items) == 3 and as_view(a.items[1]) == sol and i < ti:
                        okput = True
                if okput:
                    ctx.ok("R-TIGHTEN", "optimize_and_queue: incumbent queued before tightening")
                else:
                    ctx.violation("R-TIGHTEN", fn.path, where, "incumbent", fn.loc(),
                                  "optimize_and_queue must queue every solution found before tightening past it")
            # emptiness guard after the tightening
            if _has_emptiness_exit(it, loop, bp, ti, MIN, MAX):
                guard_seen = True
        ctx.floor(f"R-TIGHTEN:{worker}:improving-paths", n_found, 1)
        if n_found and n_exit == n_found:
            ctx.violation("R-TIGHTEN", fn.path, f"BacktrackSolver.{worker}", "tighten-call", fn.loc(),
                          f"{worker}: every iteration that finds a solution leaves the loop: no search is ever made past the first solution "
                          "(0 tightening calls), so the first solution found is returned as the optimum")
        elif n_found:
            if guard_seen:
                ctx.ok("R-TIGHTEN", f"{worker}: emptiness of the tightened objective domain ends the loop",
                       sample={"guard": "exit edge depending on stack[T, dom_indices[variable_idx], MIN/MAX] read after the tightening"})
            else:
                ctx.violation("R-TIGHTEN", fn.path, f"BacktrackSolver.{worker}", "emptiness-guard", fn.loc(),
                              f"{worker}: after tightening past the incumbent the objective domain may be empty ([a, a-1]); the loop goes on to "
                              "search without testing it (only some propagators notice an empty domain; with none watching, the variable "
                              "heuristic returns -1 and it is used as an index)")


def _has_emptiness_exit(it: Interp, loop: LoopSummary, bp: PathResult, ti: int, MIN: int, MAX: int) -> bool:
    """Is there, after the tightening call of this iteration and before the next search, a branch with an exit arm
    whose condition reads both bounds of the objective's shared domain?  Either in this body (break/return), or
    in the loop test."""
    evs = bp.events
    tight_ev = evs[ti]
    # sibling paths share the prefix up to the tightening call: look at every path of the loop containing that call node
    for other in loop.paths:
        oe = other.events
        idxs = [i for i, e in enumerate(oe) if e.kind == "icall" and e.node is tight_ev.node]
        if not idxs:
            continue
        if other.outcome not in ("break", "return"):
            continue
        for e in oe[idxs[0] + 1 :]:
            if e.kind == "branch" and e.cond is not None and _reads_objective_bounds(e.cond, MIN, MAX):
                return True
    # loop-head variant: the while test reads the bounds (values of the previous iteration are loop-carried / havoc'ed)
    for other in loop.paths:
        for e in other.events:
            if e.kind == "branch" and e.node is loop.node and e.cond is not None and _reads_objective_bounds(e.cond, MIN, MAX):
                return True
    return False


def _reads_objective_bounds(cond: Any, MIN: int, MAX: int) -> bool:
    seen = set()
    for a in atoms_in(cond):
        if isinstance(a, tuple) and a[0] in ("hav", "init"):
            root = a[2] if a[0] == "hav" else a[1]
            idx = a[3] if a[0] == "hav" else a[2]
            if isinstance(root, str) and root.endswith("shr_domains_stack") and len(idx) == 3 and isinstance(idx[2], Aff) and idx[2].is_const():
                dom = idx[1]
                mentions_var = any(isinstance(x, tuple) and x[0] in ("init", "hav") and "dom_indices_arr" in str(x[1] if x[0] == "init" else x[2])
                                   for x in atoms_in(dom)) if isinstance(dom, Aff) else False
                if mentions_var:
                    seen.add(idx[2].c)
    return MIN in seen and MAX in seen


# ------------------------------------------------------------------ R-DOMAIN-SOURCE
def rule_domain_source(ctx: Ctx, prog: Program) -> None:
    """Every (re)initialisation of the choice points reads the domains it starts from out of `problem.shr_domains_lst` at that moment
    (np.array(problem.shr_domains_lst)).  That list is what split() writes into each part and what a user edits between two solvers; a copy
    kept elsewhere (a cached array on the problem, carried along by deepcopy) makes every part of a split problem search the WHOLE space and
    a reused problem solve its old domains."""
    ctx.rule("R-DOMAIN-SOURCE")
    sites = [(f"{prog.package}.{BT_MOD}", "BacktrackSolver.__init__"), (f"{prog.package}.{BT_MOD}", "reset")]
    n = 0
    for mod, name in sites:
        fn = prog.func(mod, name)
        ctx.fn(fn.fq)
        it = Interp(prog, no_inline={"cp_init": None})
        for r in it.run(fn):
            if r.outcome != "return":
                continue
            for e in calls_named(r.events, "cp_init"):
                n += 1
                src = as_view(e.args[-1]) if e.args else None
                org = it.allocs.get(src.root) if isinstance(src, View) else None
                okk = bool(org and org[0] == "alloc" and org[1] in ("numpy.array", "numpy.asarray") and org[2] and _root_is(org[2][0], "shr_domains_lst"))
                if not okk and name == "reset" and _root_forwarded(prog, fn, src):
                    okk = True
                if okk:
                    ctx.ok("R-DOMAIN-SOURCE", f"{name}: cp_init(..., np.array(problem.shr_domains_lst))")
                else:
                    ctx.violation("R-DOMAIN-SOURCE", fn.path, name, "cp_init-source", f"{fn.path}:{e.line}",
                                  f"{name} initialises the choice points from {src!r}, not from a fresh np.array(problem.shr_domains_lst): the domains a solver "
                                  "starts from must be read from the list that split() and the model API write, at the time the solver (re)starts")
    ctx.floor("R-DOMAIN-SOURCE:cp_init-sites", n, 2)


# ------------------------------------------------------------------------------------------ R-OPTIONAL-RESULT
def _maybe_none_callees(prog: Program) -> Dict[str, List[FuncInfo]]:
    """bare function / method names of the solvers package whose return annotation admits None"""
    out: Dict[str, List[FuncInfo]] = {}
    for f in prog.all_functions():
        if not f.module.startswith(f"{prog.package}.solvers"):
            continue
        r = f.node.returns
        if r is None:
            continue
        txt = ast.unparse(r).replace(" ", "")
        if txt.startswith("Optional[") or txt.endswith("|None") or txt.startswith("None|"):
            out.setdefault(f.name, []).append(f)
    return out


def rule_optional_result(ctx: Ctx, prog: Program) -> None:
    """minimize / maximize / optimize / solve_one answer None when there is no solution.  A caller that subscripts the answer before it has
    tested it against None turns 'no solution' into a TypeError (interpreted) -- the optimisation of an infeasible problem raises instead of
    returning None.  Rule: in the solvers package, a name bound to the result of a function whose return annotation admits None is not
    subscripted / dereferenced where it may still be None (flow-sensitive over if / while / early exits, `is None` / `is not None` tests)."""
    ctx.rule("R-OPTIONAL-RESULT")
    callees = _maybe_none_callees(prog)
    n_sites = 0

    def is_maybe_call(e: ast.expr) -> bool:
        if isinstance(e, ast.Call):
            f = e.func
            nm = f.id if isinstance(f, ast.Name) else f.attr if isinstance(f, ast.Attribute) else None
            return nm in callees
        return False

    def test_facts(t: ast.expr) -> Tuple[Set[str], Set[str], Set[str]]:
        """(names bound maybe-None by a walrus in the test, names known not-None when the test holds, names known not-None when it fails)"""
        bound: Set[str] = set()
        nn_true: Set[str] = set()
        nn_false: Set[str] = set()
        if isinstance(t, ast.Compare) and len(t.ops) == 1 and isinstance(t.comparators[0], ast.Constant) and t.comparators[0].value is None:
            l = t.left
            nm = None
            if isinstance(l, ast.NamedExpr) and isinstance(l.target, ast.Name):
                nm = l.target.id
                if is_maybe_call(l.value):
                    bound.add(nm)
            elif isinstance(l, ast.Name):
                nm = l.id
            if nm:
                if isinstance(t.ops[0], ast.IsNot):
                    nn_true.add(nm)
                elif isinstance(t.ops[0], ast.Is):
                    nn_false.add(nm)
        elif isinstance(t, ast.BoolOp) and isinstance(t.op, ast.And):
            for v in t.values:
                b, a, _ = test_facts(v)
                bound |= b
                nn_true |= a
        elif isinstance(t, ast.UnaryOp) and isinstance(t.op, ast.Not):
            b, a, c = test_facts(t.operand)
            return b, c, a
        return bound, nn_true, nn_false

    def exits(body: List[ast.stmt]) -> bool:
        return bool(body) and isinstance(body[-1], (ast.Return, ast.Raise, ast.Continue, ast.Break))

    def derefs(e: ast.AST, maybe: Set[str], fn: FuncInfo) -> None:
        nonlocal n_sites
        # left-to-right: `x is not None and x[i]` is fine
        if isinstance(e, ast.BoolOp) and isinstance(e.op, ast.And):
            cur = set(maybe)
            for v in e.values:
                derefs(v, cur, fn)
                _, a, _ = test_facts(v)
                cur -= a
            return
        if isinstance(e, ast.IfExp):
            _, a, c = test_facts(e.test)
            derefs(e.test, maybe, fn)
            derefs(e.body, maybe - a, fn)
            derefs(e.orelse, maybe - c, fn)
            return
        if isinstance(e, (ast.Subscript, ast.Attribute)) and isinstance(e.value, ast.Name) and e.value.id in maybe:
            n_sites += 1
            ctx.violation("R-OPTIONAL-RESULT", fn.path, fn.qualname, f"deref-maybe-none:{e.value.id}", f"{fn.path}:{e.lineno}",
                          f"{fn.qualname} uses `{ast.unparse(e)}` where `{e.value.id}` (the answer of a function that returns None when there is no solution) "
                          "has not been tested against None: for an infeasible problem the call raises TypeError instead of returning None")
        for ch in ast.iter_child_nodes(e):
            if not isinstance(ch, (ast.FunctionDef, ast.Lambda)):
                derefs(ch, maybe, fn)

    def block(stmts: List[ast.stmt], maybe: Set[str], fn: FuncInfo) -> Set[str]:
        maybe = set(maybe)
        for st in stmts:
            if isinstance(st, ast.Assign) and len(st.targets) == 1 and isinstance(st.targets[0], ast.Name):
                derefs(st.value, maybe, fn)
                if is_maybe_call(st.value):
                    maybe.add(st.targets[0].id)
                elif isinstance(st.value, ast.Name) and st.value.id in maybe:
                    maybe.add(st.targets[0].id)
                else:
                    maybe.discard(st.targets[0].id)
            elif isinstance(st, ast.If):
                b, a, c = test_facts(st.test)
                derefs(st.test, maybe, fn)
                m1 = block(st.body, (maybe | b) - a, fn)
                m2 = block(st.orelse, (maybe | b) - c, fn)
                after = set()
                if not exits(st.body):
                    after |= m1
                if not exits(st.orelse) or not st.orelse:
                    after |= m2 if st.orelse else ((maybe | b) - c)
                maybe = after
            elif isinstance(st, ast.While):
                b, a, c = test_facts(st.test)
                derefs(st.test, maybe, fn)
                block(st.body, (maybe | b) - a, fn)
                maybe = (maybe | b) - c
            elif isinstance(st, (ast.For, ast.With, ast.Try)):
                for nm in ("body", "orelse", "finalbody"):
                    maybe = block(getattr(st, nm, []) or [], maybe, fn)
                for h in getattr(st, "handlers", []) or []:
                    block(h.body, maybe, fn)
            else:
                derefs(st, maybe, fn)
        return maybe

    n_fn = 0
    for f in prog.all_functions():
        if not f.module.startswith(f"{prog.package}.solvers") or f.njit:
            continue
        if not any(is_maybe_call(n) for n in ast.walk(f.node)):
            continue
        n_fn += 1
        ctx.fn(f.fq)
        before = n_sites
        block(f.node.body, set(), f)
        if n_sites == before:
            ctx.ok("R-OPTIONAL-RESULT", f"{f.qualname}: every use of a maybe-None answer is guarded", nontrivial=False)
    ctx.floor("R-OPTIONAL-RESULT:callers", n_fn, 4)
