"""R-CAPACITY: narrow index types and fixed-size stacks need a guard that refuses what they cannot hold.
R-SHAPES: arrays indexed by the same kind of index are allocated with the same extent."""
from __future__ import annotations

from typing import Any, Dict, List, Optional, Tuple

from ..core import Ctx
from ..interp import ALL, Dual, Event, Interp, LoopSummary, ModVal, PathResult, State, Tup, View, as_view, NONE
from ..program import AnalysisError, FuncInfo, Program
from ..terms import Aff, K, ONE, S, ZERO, atoms_in, cmp_cond, show_cond, show_val
from .engine import calls_named, loops_of, init, role_param

BT_MOD = "solvers.backtrack_solver"
BITS = {"numpy.int8": 7, "numpy.uint8": 8, "numpy.uint16": 16, "numpy.int16": 15, "numpy.int32": 31, "numpy.int64": 63, "numpy.uint32": 32, "numpy.bool": 1, "numpy.bool_": 1}


def _alloc_of(it: Interp, path: PathResult, attr: str) -> Optional[Tuple[Event, Tuple]]:
    for e in path.events:
        if e.kind == "store" and e.root == f"self.{attr}" and not e.idx:
            v = as_view(e.value)
            org = it.allocs.get(v.root) if isinstance(v, View) else None
            if org and org[0] == "alloc":
                return e, org
    return None


def _norm(v: Any) -> str:
    r = repr(as_view(v)) if not isinstance(v, Aff) else show_val(v)
    return r.replace("self.problem.", "problem.").replace("self.", "")


def _dtype(org: Tuple) -> Optional[str]:
    for k, v in org[3]:
        if k == "dtype" and isinstance(v, ModVal):
            return v.name.replace("np.", "numpy.")
    return None


def rule_stack_height(ctx: Ctx, prog: Program, want: Tuple[str, ...] = ("R-CAPACITY", "R-SHAPES")) -> None:
    for w in want:
        ctx.rule(w)
    fn = prog.func(f"{prog.package}.{BT_MOD}", "BacktrackSolver.__init__")
    ctx.fn(fn.fq)
    it = Interp(prog, no_inline={"cp_init": None})
    res = [r for r in it.run(fn) if r.outcome == "return"]
    ctx.floor("R-CAPACITY:constructor-paths", len(res), 1)
    for r in res:
        s = r.state
        tp = _alloc_of(it, r, "stacks_top")
        stacks = {a: _alloc_of(it, r, a) for a in ("shr_domains_stack", "not_entailed_propagators_stack", "dom_update_stack")}
        if tp is None or any(v is None for v in stacks.values()):
            raise AnalysisError("BacktrackSolver.__init__: stack allocations not found")
        bits = BITS.get(_dtype(tp[1]) or "", None)
        if bits is None:
            raise AnalysisError("BacktrackSolver.__init__: dtype of stacks_top not recognised")
        extents = {}
        for a, (e, org) in stacks.items():
            shape = org[2][0] if org[2] else None
            if not (isinstance(shape, Tup) and shape.items):
                raise AnalysisError(f"BacktrackSolver.__init__: shape of {a} not a tuple")
            extents[a] = it.value_at(s, e.hpos, shape.items[0])
        h = extents["shr_domains_stack"]
        if "R-SHAPES" in want:
            if len({repr(x) for x in extents.values()}) == 1:
                ctx.ok("R-SHAPES", "the three stacks have the same number of levels", sample={"extent": show_val(h)})
            else:
                ctx.violation("R-SHAPES", fn.path, "BacktrackSolver.__init__", "stack-levels", fn.loc(),
                              f"the stacks indexed by the same level pointer have different heights: { {k: show_val(v) for k, v in extents.items()} }")
            # PROP and DOM extents
            shp = {a: stacks[a][1][2][0].items for a in stacks}
            trig = _alloc_of(it, r, "triggered_propagators")
            prop_ext = {_norm(shp["not_entailed_propagators_stack"][1])}
            if trig is not None and trig[1][2]:
                prop_ext.add(_norm(trig[1][2][0]))
            if prop_ext == {"problem.propagator_nb"}:
                ctx.ok("R-SHAPES", "queue and enabled-flags rows are sized by the number of constraints")
            else:
                ctx.violation("R-SHAPES", fn.path, "BacktrackSolver.__init__", "prop-extent", fn.loc(),
                              f"arrays indexed by constraint index are sized by {sorted(prop_ext)} (expected problem.propagator_nb for all)")
            if _norm(shp["shr_domains_stack"][1]) == "problem.shr_domain_nb" and _norm(shp["shr_domains_stack"][2]) == "2":
                ctx.ok("R-SHAPES", "domain stack rows are (number of shared domains, 2)")
            else:
                ctx.violation("R-SHAPES", fn.path, "BacktrackSolver.__init__", "dom-extent", fn.loc(),
                              f"domain stack rows have shape ({_norm(shp['shr_domains_stack'][1])}, {_norm(shp['shr_domains_stack'][2])})")
        if "R-CAPACITY" in want:
            limit = 2 ** bits
            up = s.facts.decide(cmp_cond("<=", h, K(limit)))
            lo = s.facts.decide(cmp_cond(">=", h, ONE))
            if up is True and lo is True:
                ctx.ok("R-CAPACITY", f"stack height within what the {bits}-bit level pointer can address (1..{limit})",
                       sample={"height": show_val(h), "pointer_dtype": _dtype(tp[1])})
            else:
                ctx.violation("R-CAPACITY", fn.path, "BacktrackSolver.__init__", "height-vs-pointer", fn.loc(),
                              f"the level pointer is {bits}-bit ({_dtype(tp[1])}) but nothing refuses a stack height outside 1..{limit}: with a "
                              "larger height the pointer wraps silently and the search returns wrong results")


def rule_probe_guard(ctx: Ctx, prog: Program) -> None:
    """The shaving probe pushes one level inside a consistency algorithm (where an exception cannot propagate)."""
    ctx.rule("R-CAPACITY")
    fn = prog.func(f"{prog.package}.solvers.shaving_consistency_algorithm", "shaving_consistency_algorithm")
    ctx.fn(fn.fq)
    stack = role_param(prog, fn, "shr_domains_stack")
    top = role_param(prog, fn, "stacks_top")
    it = Interp(prog, no_inline={"bound_consistency_algorithm": None, "shave_bound": None, "first_not_instantiated_var_heuristic": []})
    res = it.run(fn)
    n = 0
    for r in res:
        for l in loops_of(r.state.trace):
            for bp in l.paths:
                for c in calls_named(bp.events, "shave_bound"):
                    n += 1
                    t = it.load_at(bp.state, c.hpos, top, (K(0),))
                    ln = Aff.atom(("len", stack, ()))
                    q = cmp_cond("<", t + ONE, ln)
                    if bp.state.facts.decide(q) is True:
                        ctx.ok("R-CAPACITY", "shaving probe guarded: top + 1 < len(stack)", sample={"guard": show_cond(q)})
                    else:
                        ctx.violation("R-CAPACITY", fn.path, fn.name, "probe-unguarded", f"{fn.path}:{c.line}",
                                      "the shaving probe pushes a temporary choice point but nothing ensures stacks_top[0] + 1 < len(shr_domains_stack): "
                                      "at the last level it writes past the stacks")
    ctx.floor("R-CAPACITY:probe-sites", n, 1)


NARROW = {"uint8", "uint16", "int8", "int16", "ubyte", "ushort", "byte", "short"}


def rule_narrow_convert(ctx: Ctx, prog: Program) -> None:
    """R-NARROW-CONVERT.  The engine's index arrays are 8/16-bit.  They are built from Python lists with np.array(list, dtype=narrow), which
    REFUSES (OverflowError) a value that does not fit.  A conversion that wraps instead -- ndarray.astype(narrow), np.asarray(..).astype(..),
    or np.array(<an array>, dtype=narrow) -- silently aliases index 65536 + k onto k.  Rule: in the Python-level model / solver code no
    index array is produced by a wrapping conversion to an 8/16-bit type."""
    import ast

    ctx.rule("R-NARROW-CONVERT")
    n_checked = 0
    # names and attributes that may hold NumPy integers (an array, or a list made from one): converting THOSE to a narrow type wraps,
    # only Python ints are range-checked
    NP_MAKERS = ("arange", "array", "asarray", "zeros", "ones", "empty", "full", "cumsum", "argsort", "concatenate", "linspace")
    numpyish: set = set()
    for _ in range(3):
        for f_ in prog.all_functions():
            if f_.njit or not (f_.module.startswith(f"{prog.package}.problems") or f_.module.startswith(f"{prog.package}.solvers")):
                continue
            for node in ast.walk(f_.node):
                if not (isinstance(node, ast.Assign) and len(node.targets) == 1):
                    continue
                tgt_ = node.targets[0]
                key = (f_.fq, tgt_.id) if isinstance(tgt_, ast.Name) else ("attr", tgt_.attr) if isinstance(tgt_, ast.Attribute) else None
                if key is None:
                    continue
                vals = [node.value.body, node.value.orelse] if isinstance(node.value, ast.IfExp) else [node.value]
                for v_ in vals:
                    src_np = any(isinstance(x, ast.Call) and ast.unparse(x.func).split(".")[0] in ("np", "numpy") and ast.unparse(x.func).split(".")[-1] in NP_MAKERS
                                 for x in ast.walk(v_))
                    via = any((isinstance(x, ast.Name) and (f_.fq, x.id) in numpyish) or (isinstance(x, ast.Attribute) and ("attr", x.attr) in numpyish)
                              for x in ast.walk(v_)) and not isinstance(v_, ast.Call)
                    dt_ok = isinstance(v_, ast.Call) and any(kw.arg == "dtype" for kw in v_.keywords)  # an explicit (checked or reported) conversion
                    if (src_np or via) and not dt_ok:
                        numpyish.add(key)
    for m in prog.modules.values():
        if not (m.name.startswith(f"{prog.package}.problems") or m.name.startswith(f"{prog.package}.solvers")):
            continue
        for f in [fi for fi in prog.all_functions() if fi.module == m.name and not fi.njit]:
            for node in ast.walk(f.node):
                if not isinstance(node, ast.Call):
                    continue
                fsrc = ast.unparse(node.func)
                dt = None
                if isinstance(node.func, ast.Attribute) and node.func.attr == "astype" and node.args:
                    dt = ast.unparse(node.args[0])
                    kind = "astype"
                elif fsrc in ("np.array", "numpy.array", "np.asarray", "numpy.asarray"):
                    for kw in node.keywords:
                        if kw.arg == "dtype":
                            dt = ast.unparse(kw.value)
                    kind = "array"
                else:
                    continue
                if dt is None or dt.split(".")[-1] not in NARROW:
                    continue
                n_checked += 1
                if kind == "astype":
                    ctx.violation("R-NARROW-CONVERT", f.path, f.qualname, f"astype:{dt.split('.')[-1]}", f"{f.path}:{node.lineno}",
                                  f"{f.qualname} converts with `{ast.unparse(node)[:80]}`: astype wraps values that do not fit {dt} instead of refusing them "
                                  "(np.array(<list>, dtype=...) raises OverflowError): an index beyond the type's range silently aliases a smaller one")
                    continue
                src = node.args[0] if node.args else None
                from_array = isinstance(src, ast.Call) and ast.unparse(src.func).split(".")[-1] in ("array", "asarray", "arange", "zeros", "ones", "empty", "full")
                np_src = (isinstance(src, ast.Name) and (f.fq, src.id) in numpyish) or (isinstance(src, ast.Attribute) and ("attr", src.attr) in numpyish)
                if np_src:
                    ctx.violation("R-NARROW-CONVERT", f.path, f.qualname, f"numpy-valued-source:{dt.split('.')[-1]}", f"{f.path}:{node.lineno}",
                                  f"{f.qualname} builds a {dt} array from `{ast.unparse(src)}`, which may hold NumPy integers (it is built from np.arange / an "
                                  "array somewhere in the package): only Python ints are range-checked by the constructor, NumPy integers are cast and "
                                  "wrap silently -- a model beyond the type's range is accepted with indices aliased onto the first ones")
                    continue
                if from_array:
                    ctx.violation("R-NARROW-CONVERT", f.path, f.qualname, f"array-of-array:{dt.split('.')[-1]}", f"{f.path}:{node.lineno}",
                                  f"{f.qualname} builds a {dt} array from another array (`{ast.unparse(node)[:80]}`): array-to-array conversion wraps silently")
                else:
                    ctx.ok("R-NARROW-CONVERT", f"{f.qualname}: {ast.unparse(node)[:70]} (checking constructor: a Python int that does not fit raises)", nontrivial=True)
    # block stores: an array computed in a wide type (np.cumsum, np.array, arange, a sum of arrays ...) written into a slice of an 8/16-bit
    # table is cast element by element WITHOUT any range check (only a Python int stored into one cell raises)
    for f in prog.all_functions():
        if f.njit or not (f.module.startswith(f"{prog.package}.problems") or f.module.startswith(f"{prog.package}.solvers")):
            continue
        narrow_attrs = {}
        for node in ast.walk(f.node):
            if isinstance(node, ast.Assign) and len(node.targets) == 1 and isinstance(node.targets[0], ast.Attribute) and isinstance(node.value, ast.Call):
                for kw in node.value.keywords:
                    if kw.arg == "dtype" and ast.unparse(kw.value).split(".")[-1] in NARROW:
                        narrow_attrs[ast.unparse(node.targets[0])] = ast.unparse(kw.value)
        for node in ast.walk(f.node):
            if not (isinstance(node, ast.Assign) and len(node.targets) == 1 and isinstance(node.targets[0], ast.Subscript)):
                continue
            tgt = node.targets[0]
            base = ast.unparse(tgt.value)
            if base not in narrow_attrs:
                continue
            idx_elts = list(tgt.slice.elts) if isinstance(tgt.slice, ast.Tuple) else [tgt.slice]
            if not any(isinstance(x, ast.Slice) for x in idx_elts):
                continue
            v = node.value
            while isinstance(v, ast.Subscript) and isinstance(v.value, ast.Call):
                v = v.value  # a slice of a freshly computed array
            wide = isinstance(v, ast.Call) and ast.unparse(v.func).split(".")[-1] in ("cumsum", "array", "asarray", "arange", "concatenate", "add", "sum", "diff")
            same_table = isinstance(v, ast.Subscript) and ast.unparse(v.value) in narrow_attrs  # a slice of a table of the same width
            if wide and not same_table:
                ctx.violation("R-NARROW-CONVERT", f.path, f.qualname, f"block-store:{base.split('.')[-1]}", f"{f.path}:{node.lineno}",
                              f"{f.qualname} writes `{ast.unparse(v)[:60]}` into a slice of {base} ({narrow_attrs[base]}): the values are cast without a range check, "
                              "a total beyond the type's range wraps silently (offsets of later constraints alias those of the first ones)")
    ctx.floor("R-NARROW-CONVERT:narrow-constructions", n_checked, 2)
    ctx.assume("NumPy >= 2 semantics: np.array(list_of_python_ints, dtype=narrow) raises OverflowError for an out-of-range element")


# ------------------------------------------------------------------------------------------ R-INDEX-WIDTH
DOM_INDEX_CARRIERS = ("dom_indices_arr", "props_dom_indices", "dom_update_stack", "decision_domains")


def rule_index_width(ctx: Ctx, prog: Program) -> None:
    """Shared-domain indices are stored in several arrays: the variable -> domain table, its per-constraint copy, the replay records of the
    choice points and the decision domains.  An index that fits one of them must fit the others: if the replay record is narrower than the
    table, the alternative of a decision on domain 256 + k is replayed for domain k (the moved bound is announced to the wrong watchers,
    nothing raises).  Rule: the arrays that carry shared-domain indices are all allocated with the same integer type."""
    import ast

    ctx.rule("R-INDEX-WIDTH")
    found: Dict[str, Tuple[str, str, int]] = {}
    for f in prog.all_functions():
        if not (f.module.startswith(f"{prog.package}.problems") or f.module.startswith(f"{prog.package}.solvers")):
            continue
        for n in ast.walk(f.node):
            if isinstance(n, ast.Assign) and len(n.targets) == 1 and isinstance(n.targets[0], ast.Attribute) and n.targets[0].attr in DOM_INDEX_CARRIERS \
                    and isinstance(n.value, ast.Call):
                for kw in n.value.keywords:
                    if kw.arg == "dtype":
                        found[n.targets[0].attr] = (ast.unparse(kw.value).split(".")[-1], f.path, n.lineno)
    ctx.floor("R-INDEX-WIDTH:index-carrying-arrays", len(found), 4)
    kinds = {v[0] for v in found.values()}
    if len(kinds) <= 1:
        ctx.ok("R-INDEX-WIDTH", "the arrays that carry shared-domain indices have one integer type", sample={k: v[0] for k, v in found.items()})
        return
    ref = found.get("dom_indices_arr", next(iter(found.values())))[0]
    for name, (dt, path, line) in sorted(found.items()):
        if dt != ref:
            ctx.violation("R-INDEX-WIDTH", path, name, f"width:{name}", f"{path}:{line}",
                          f"{name} is allocated as {dt} while the variable -> shared-domain table is {ref}: a shared-domain index that fits the table does "
                          f"not fit {name} and is stored modulo 2**bits -- the entry then designates another domain (for the replay records: the bound moved "
                          "by the alternative of a decision on domain 256 + k is announced to the watchers of domain k)")


# ------------------------------------------------------------------------------------------ R-VALUE-WIDTH
VALUE_CARRIERS = ("dom_offsets_arr", "props_dom_offsets", "shr_domains_stack")


def rule_value_width(ctx: Ctx, prog: Program) -> None:
    """Domain values live in the domain stack; the offset of a view is added to them on the way to a constraint (the per-constraint copy
    `props_dom_offsets`) and on the way out (`dom_offsets_arr`: solution, objective tightening).  The two offset arrays hold the same
    numbers and the sums are domain values: the three arrays must have one integer type.  If the per-constraint copy is narrower, an offset
    beyond its range is stored modulo 2**bits by the slice assignment (no error), the constraints then see another translation than the one
    the solution is reported with -- the solutions of a model written with views differ from those of the same model written with explicit
    variables, and nothing is raised."""
    import ast

    ctx.rule("R-VALUE-WIDTH")
    found: Dict[str, Tuple[str, str, int]] = {}
    for f in prog.all_functions():
        if not (f.module.startswith(f"{prog.package}.problems") or f.module.startswith(f"{prog.package}.solvers")):
            continue
        for n in ast.walk(f.node):
            if isinstance(n, ast.Assign) and len(n.targets) == 1 and isinstance(n.targets[0], ast.Attribute) and n.targets[0].attr in VALUE_CARRIERS \
                    and isinstance(n.value, ast.Call):
                for kw in n.value.keywords:
                    if kw.arg == "dtype":
                        found[n.targets[0].attr] = (ast.unparse(kw.value).split(".")[-1], f.path, n.lineno)
    ctx.floor("R-VALUE-WIDTH:value-carrying-arrays", len(found), 3)
    kinds = {v[0] for v in found.values()}
    if len(kinds) <= 1:
        ctx.ok("R-VALUE-WIDTH", "the arrays that carry domain values and view offsets have one integer type", sample={k: v[0] for k, v in found.items()})
        return
    import re as _re

    def bits(dt: str) -> int:
        m_ = _re.search(r"(\d+)$", dt)
        return int(m_.group(1)) if m_ else 0
    if any(bits(v[0]) == 0 or v[0].startswith("u") for v in found.values()):
        raise AnalysisError(f"R-VALUE-WIDTH: element types not read ({ {k: v[0] for k, v in found.items()} })")
    # the two offset tables hold the same numbers: the narrower one loses; the stack holds value = view - offset: it must be at least as wide
    # as the offsets (a stack wider than the offsets is harmless)
    off = {k: v for k, v in found.items() if k != "shr_domains_stack"}
    widest_off = max(bits(v[0]) for v in off.values())
    ref = next(v[0] for v in off.values() if bits(v[0]) == widest_off)
    bad_names = {k for k, v in off.items() if bits(v[0]) < widest_off}
    if "shr_domains_stack" in found and bits(found["shr_domains_stack"][0]) < widest_off:
        bad_names.add("shr_domains_stack")
    if not bad_names:
        ctx.ok("R-VALUE-WIDTH", "no carrier of domain values / view offsets is narrower than the offsets it has to hold", sample={k: v[0] for k, v in found.items()})
        return
    for name, (dt, path, line) in sorted(found.items()):
        if name in bad_names:
            ctx.violation("R-VALUE-WIDTH", path, name, f"width:{name}", f"{path}:{line}",
                          f"{name} is allocated as {dt} while another carrier of the same numbers is {ref}: an offset (or value) that the stack and the other offset table "
                          f"represent is stored modulo 2**bits in {name}, without an error; the constraints are then filtered under another translation "
                          "than the one solutions are reported with")


# ------------------------------------------------------------------------------------------ R-ERROR-PROPAGATES
def rule_error_propagates(ctx: Ctx, prog: Program) -> None:
    """The capacity error raised by solve_one ('The choice points stack is full') is the report the caller is entitled to.  Between solve_one
    and the user it crosses a few Python-level methods; it is lost if one of them returns / breaks / continues from a `finally` block
    (Python then discards the exception in flight) or catches IndexError / Exception / everything without re-raising.  Rule: in the solvers
    package, no `finally` block contains return / break / continue, and no handler around a search call swallows the error."""
    import ast

    ctx.rule("R-ERROR-PROPAGATES")
    n_try = n_bad = 0
    for f in prog.all_functions():
        if f.njit or not f.module.startswith(f"{prog.package}.solvers"):
            continue
        for t in [n for n in ast.walk(f.node) if isinstance(n, ast.Try)]:
            n_try += 1
            for st in t.finalbody:
                for x in ast.walk(st):
                    if isinstance(x, (ast.Return, ast.Break, ast.Continue)):
                        n_bad += 1
                        ctx.violation("R-ERROR-PROPAGATES", f.path, f.qualname, "exit-in-finally", f"{f.path}:{x.lineno}",
                                      f"{f.qualname} leaves a `finally` block with `{ast.unparse(x)[:40]}`: Python discards the exception in flight, so the "
                                      "'stack is full' IndexError raised by the search is swallowed and the current incumbent (or None) is returned as if it "
                                      "were the answer")
            searches = any(isinstance(x, ast.Call) and ast.unparse(x.func).split(".")[-1] in ("solve_one", "optimize", "solve", "minimize", "maximize", "find_all")
                           for b in t.body for x in ast.walk(b))
            if not searches:
                continue
            for h in t.handlers:
                names = ast.unparse(h.type) if h.type is not None else ""
                broad = h.type is None or any(k in names for k in ("IndexError", "LookupError", "Exception", "BaseException"))
                reraises = any(isinstance(x, ast.Raise) for b in h.body for x in ast.walk(b))
                if broad and not reraises:
                    n_bad += 1
                    ctx.violation("R-ERROR-PROPAGATES", f.path, f.qualname, "search-error-swallowed", f"{f.path}:{h.lineno}",
                                  f"{f.qualname} catches `{names or 'everything'}` around a search call and does not re-raise: the 'stack is full' error never "
                                  "reaches the caller")
    if not n_bad:
        ctx.ok("R-ERROR-PROPAGATES", "no finally block exits early and no handler swallows the error of a search call", sample={"try_statements": n_try})
