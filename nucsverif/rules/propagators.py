"""Rules over the registered propagators:
R-STATUS-VOCAB  every return of every filtering function is one of the three PROP_* constants
R-TRIGGERS      wake-up sufficiency by bound-dependency analysis of each filtering function against its trigger function
R-PROP-EFFECTS  a filtering function stores only into its `domains` argument (never into `parameters`)."""
from __future__ import annotations

import ast
from typing import Any, Dict, List, Optional, Set, Tuple

from ..core import Ctx
from ..program import AnalysisError, FuncInfo, Program, NO
from ..effects import get_effects

SIGNS = frozenset({"neg", "zero", "pos"})
# propagators whose declared triggers are narrower than MIN|MAX on the pinned tree (dependences derived and checked on every run)
KNOWN_NARROW = {"compute_domains_max_leq", "compute_domains_min_geq", "compute_domains_affine_leq", "compute_domains_affine_geq", "compute_domains_no_sub_cycle"}


# ------------------------------------------------------------------ registry triples
def propagator_triples(prog: Program, thorough: bool = False) -> List[Tuple[int, FuncInfo, FuncInfo]]:
    cd = prog.registry("COMPUTE_DOMAINS_FCTS")
    gt = prog.registry("GET_TRIGGERS_FCTS")
    if len(cd.entries) != len(gt.entries):
        raise AnalysisError("registries COMPUTE_DOMAINS_FCTS / GET_TRIGGERS_FCTS have different lengths")
    out = []
    for i, (c, t) in enumerate(zip(cd.entries, gt.entries)):
        if not isinstance(c, FuncInfo) or not isinstance(t, FuncInfo):
            raise AnalysisError(f"unresolved propagator registration #{i}")
        out.append((i, c, t))
    return out


# ------------------------------------------------------------------ status vocabulary
def rule_status_vocab(ctx: Ctx, prog: Program) -> None:
    ctx.rule("R-STATUS-VOCAB")
    statuses = {prog.C("PROP_INCONSISTENCY"), prog.C("PROP_CONSISTENCY"), prog.C("PROP_ENTAILMENT")}
    seen: Set[str] = set()
    n_ret = 0

    def ok_expr(fn: FuncInfo, e: Optional[ast.expr], depth: int = 0) -> Optional[str]:
        if e is None:
            return "returns None"
        if isinstance(e, ast.Name):
            v = prog.const_value(fn.module, e.id)
            if v is not NO and v in statuses and e.id.startswith("PROP_"):
                return None
            return f"returns '{e.id}', which is not a PROP_* status"
        if isinstance(e, ast.IfExp):
            return ok_expr(fn, e.body, depth) or ok_expr(fn, e.orelse, depth)
        if isinstance(e, ast.Call) and isinstance(e.func, ast.Name):
            r = prog.resolve(fn.module, e.func.id)
            if r and r[0] == "func" and depth < 6:
                return check_fn(r[1], depth + 1)
            return f"returns the result of {e.func.id}(...)"
        return f"returns {ast.unparse(e)}"

    def check_fn(fn: FuncInfo, depth: int = 0) -> Optional[str]:
        nonlocal n_ret
        if fn.fq in seen:
            return None
        seen.add(fn.fq)
        ctx.fn(fn.fq)
        rets = [n for n in ast.walk(fn.node) if isinstance(n, ast.Return)]
        if not rets:
            return f"{fn.name} has no return"
        for r in rets:
            n_ret += 1
            why = ok_expr(fn, r.value, depth)
            if why:
                ctx.violation("R-STATUS-VOCAB", fn.path, fn.name, f"return:{ast.unparse(r.value) if r.value else 'None'}", f"{fn.path}:{r.lineno}",
                              f"{fn.name} {why}: the engine only understands PROP_INCONSISTENCY / PROP_CONSISTENCY / PROP_ENTAILMENT")
        # falling off the end returns None
        last = fn.node.body[-1]
        if not isinstance(last, (ast.Return, ast.Raise)) and not _always_returns(fn.node.body):
            ctx.violation("R-STATUS-VOCAB", fn.path, fn.name, "falls-off", f"{fn.path}:{last.lineno}", f"{fn.name} can fall off its end without returning a status")
        return None

    for i, c, t in propagator_triples(prog):
        check_fn(c)
        ctx.ok("R-STATUS-VOCAB", f"{c.name}: every return is a PROP_* status")
    ctx.floor("R-STATUS-VOCAB:propagators", len(propagator_triples(prog)), 22)
    ctx.floor("R-STATUS-VOCAB:returns", n_ret, 80)


def _always_returns(body: List[ast.stmt]) -> bool:
    if not body:
        return False
    last = body[-1]
    if isinstance(last, (ast.Return, ast.Raise)):
        return True
    if isinstance(last, ast.If):
        return _always_returns(last.body) and _always_returns(last.orelse)
    if isinstance(last, ast.While) and isinstance(last.test, ast.Constant) and last.test.value is True:
        return not any(isinstance(n, ast.Break) for n in ast.walk(last))
    return False


def rule_prop_effects(ctx: Ctx, prog: Program) -> None:
    ctx.rule("R-PROP-EFFECTS")
    eff = get_effects(prog)
    for i, c, t in propagator_triples(prog):
        mods = eff.mods.get(c.fq, set())
        if len(c.params) != 2:
            ctx.violation("R-PROP-EFFECTS", c.path, c.name, "arity", c.loc(), f"{c.name} takes {len(c.params)} parameters (expected domains, parameters)")
            continue
        if c.params[1] in mods:
            ctx.violation("R-PROP-EFFECTS", c.path, c.name, "writes-parameters", c.loc(),
                          f"{c.name} stores into its parameters array, which is a view of the problem's shared parameter table")
        else:
            ctx.ok("R-PROP-EFFECTS", f"{c.name}: stores only into its private view of the domains", nontrivial=bool(mods))
        g = eff.mods.get(t.fq, set())
        if g:
            ctx.violation("R-PROP-EFFECTS", t.path, t.name, "trigger-fn-writes", t.loc(), f"{t.name} modifies its arguments {sorted(g)}")


# -------------------------------------------------------------------------- triggers
class TriggerSpec:
    """mask(position class, sign of the paired coefficient) derived from a get_triggers_* function."""

    def __init__(self) -> None:
        self.default: Optional[int] = None
        self.overrides: List[Tuple[str, frozenset, int]] = []  # (class, signs, mask)
        self.problems: List[str] = []

    def mask(self, cls: str, sign: str) -> Optional[int]:
        m = self.default
        for c, signs, v in self.overrides:
            if sign in signs and _class_covers(c, cls):
                m = v
        return m

    def uniform(self) -> Optional[int]:
        return self.default if not self.overrides else None


def _class_covers(override_cls: str, dep_cls: str) -> bool:
    if override_cls == dep_cls or override_cls in ("ALL", "COEF"):
        return True
    return False


def _fold_mask(prog: Program, fn: FuncInfo, e: ast.expr) -> Optional[int]:
    v = prog.fold(fn.module, e)
    return v if isinstance(v, int) and not isinstance(v, bool) else None


def _sign_of_test(test: ast.expr, cname: str) -> Optional[Tuple[frozenset, frozenset]]:
    """(signs when true, signs when false) for a comparison of the coefficient with 0."""
    if isinstance(test, ast.Compare) and len(test.ops) == 1 and isinstance(test.left, ast.Name) and test.left.id == cname \
            and isinstance(test.comparators[0], ast.Constant) and test.comparators[0].value == 0:
        op = type(test.ops[0])
        table = {ast.Gt: {"pos"}, ast.Lt: {"neg"}, ast.GtE: {"pos", "zero"}, ast.LtE: {"neg", "zero"}, ast.Eq: {"zero"}, ast.NotEq: {"neg", "pos"}}
        if op in table:
            t = frozenset(table[op])
            return t, SIGNS - t
    return None


def trigger_spec(prog: Program, fn: FuncInfo) -> TriggerSpec:
    spec = TriggerSpec()
    if len(fn.params) != 2:
        spec.problems.append("a trigger function takes (n, parameters)")
        return spec
    nname, pname = fn.params
    arr: Optional[str] = None

    def alloc(e: ast.expr) -> Optional[int]:
        # np.full(n, dtype=.., fill_value=M) / np.zeros(n, ..) / np.ones
        if isinstance(e, ast.Call) and isinstance(e.func, ast.Attribute) and e.func.attr in ("full", "zeros", "ones"):
            size = e.args[0] if e.args else None
            if not (isinstance(size, ast.Name) and size.id == nname):
                spec.problems.append(f"the trigger array is not of length n ({ast.unparse(e)})")
            if e.func.attr == "zeros":
                return 0
            if e.func.attr == "ones":
                return 1
            fv = None
            for kw in e.keywords:
                if kw.arg == "fill_value":
                    fv = kw.value
            if fv is None and len(e.args) >= 2:
                fv = e.args[1]
            return _fold_mask(prog, fn, fv) if fv is not None else None
        return None

    def walk(stmts: List[ast.stmt], signs: frozenset, loop: Optional[Tuple[str, str]]) -> None:
        nonlocal arr
        for s in stmts:
            if isinstance(s, ast.Expr) and isinstance(s.value, ast.Constant):
                continue
            if isinstance(s, ast.Return):
                if isinstance(s.value, ast.Name) and s.value.id == arr:
                    continue
                m = alloc(s.value) if s.value is not None else None
                if m is not None and arr is None:
                    spec.default = m
                    continue
                spec.problems.append(f"unrecognised return {ast.unparse(s)}")
            elif isinstance(s, ast.Assign) and len(s.targets) == 1 and isinstance(s.targets[0], ast.Name):
                m = alloc(s.value)
                if m is not None:
                    arr = s.targets[0].id
                    spec.default = m
                else:
                    spec.problems.append(f"unrecognised assignment {ast.unparse(s)}")
            elif isinstance(s, ast.Assign) and len(s.targets) == 1 and isinstance(s.targets[0], ast.Subscript) \
                    and isinstance(s.targets[0].value, ast.Name) and s.targets[0].value.id == arr:
                m = _fold_mask(prog, fn, s.value)
                idx = s.targets[0].slice
                cls = None
                if isinstance(idx, ast.UnaryOp) and isinstance(idx.op, ast.USub) and isinstance(idx.operand, ast.Constant) and idx.operand.value == 1:
                    cls = "LAST"
                elif isinstance(idx, ast.Constant) and idx.value == -1:
                    cls = "LAST"
                elif isinstance(idx, ast.Constant) and idx.value == 0:
                    cls = "FIRST"
                elif isinstance(idx, ast.Name) and loop is not None and idx.id == loop[0]:
                    cls = "COEF"
                if m is None or cls is None:
                    spec.problems.append(f"unrecognised trigger store {ast.unparse(s)}")
                else:
                    spec.overrides.append((cls, signs, m))
            elif isinstance(s, ast.For):
                lp = None
                it = s.iter
                if isinstance(it, ast.Call) and isinstance(it.func, ast.Name) and it.func.id == "enumerate" and len(it.args) == 1 \
                        and ast.unparse(it.args[0]) == f"{pname}[:-1]" and isinstance(s.target, ast.Tuple) and len(s.target.elts) == 2:
                    lp = (s.target.elts[0].id, s.target.elts[1].id)
                if lp is None and isinstance(it, ast.Call) and isinstance(it.func, ast.Name) and it.func.id == "range" and len(it.args) == 1 \
                        and isinstance(it.args[0], ast.Name) and it.args[0].id == nname and isinstance(s.target, ast.Name) and loop is None:
                    # for i in range(n): arr[i] = M  -- every position
                    for b in s.body:
                        if isinstance(b, ast.Assign) and len(b.targets) == 1 and isinstance(b.targets[0], ast.Subscript) and isinstance(b.targets[0].value, ast.Name) \
                                and b.targets[0].value.id == arr and isinstance(b.targets[0].slice, ast.Name) and b.targets[0].slice.id == s.target.id \
                                and _fold_mask(prog, fn, b.value) is not None:
                            spec.overrides.append(("ALL", signs, _fold_mask(prog, fn, b.value)))
                        else:
                            spec.problems.append(f"unrecognised statement in a range(n) loop: {ast.unparse(b)}")
                elif lp is None:
                    spec.problems.append(f"unrecognised loop {ast.unparse(s.iter)}")
                else:
                    walk(s.body, signs, lp)
            elif isinstance(s, ast.If):
                sg = _sign_of_test(s.test, loop[1]) if loop else None
                if sg is None:
                    spec.problems.append(f"unrecognised test {ast.unparse(s.test)}")
                else:
                    walk(s.body, signs & sg[0], loop)
                    walk(s.orelse, signs & sg[1], loop)
            else:
                spec.problems.append(f"unrecognised statement {type(s).__name__}")

    walk(fn.node.body, SIGNS, None)
    if spec.default is None:
        spec.problems.append("no trigger array allocation found")
    return spec


# ---- dependency analysis of a filtering function
Dep = Tuple[str, str, frozenset, str]  # (position class, 'MIN'|'MAX'|'GROUND', coefficient signs, row key)


class DepAnalysis:
    def __init__(self, prog: Program, fn: FuncInfo):
        self.prog = prog
        self.fn = fn
        self.MIN, self.MAX = prog.C("MIN"), prog.C("MAX")
        self.dname, self.pname = fn.params[0], fn.params[1]
        self.views: Dict[str, Tuple[str, Optional[str]]] = {self.dname: ("ALL", None)}  # name -> (class, fixed row key)
        self.taint: Dict[str, Set[Dep]] = {}
        self.obligations: List[Tuple[str, int, Set[Dep], str]] = []  # (description, line, deps, kind)
        self.problems: List[str] = []
        self.coef_loops: Dict[str, str] = {}  # index var -> coefficient var
        self.row_loops: Dict[str, str] = {}  # index var -> class
        self.elem_loops: Dict[str, str] = {}  # element var (for x_i in x) -> class
        self.inlined: Set[str] = set()

    # -- helpers
    def bound_of(self, e: ast.expr) -> Optional[str]:
        v = self.prog.fold(self.fn.module, e)
        if v == self.MIN and isinstance(e, ast.Name):
            return "MIN"
        if v == self.MAX and isinstance(e, ast.Name):
            return "MAX"
        if isinstance(e, ast.Constant) and e.value in (0, 1):
            return "MIN" if e.value == self.MIN else "MAX"
        return None

    def view_of(self, e: ast.expr) -> Optional[Tuple[str, Optional[str]]]:
        """(class, row key) when `e` denotes rows of the domains array."""
        if isinstance(e, ast.Name):
            if e.id in self.views:
                return self.views[e.id]
            if e.id in self.elem_loops:
                return (self.elem_loops[e.id], f"elem:{e.id}")
            return None
        if isinstance(e, ast.Subscript):
            base = self.view_of(e.value)
            if base is None:
                return None
            cls, row = base
            sl = e.slice
            if row is None and not isinstance(sl, ast.Tuple):
                if isinstance(sl, ast.Slice):
                    return (self._slice_class(cls, sl), None)
                key = self._row_key(sl)
                return (self._row_class(cls, sl), key)
        return None

    def _slice_class(self, cls: str, sl: ast.Slice) -> str:
        lo = ast.unparse(sl.lower) if sl.lower is not None else ""
        hi = ast.unparse(sl.upper) if sl.upper is not None else ""
        if cls != "ALL":
            return cls
        if lo == "" and hi == "-1":
            return "ALL_BUT_LAST"
        if lo == "" and hi == "-2":
            return "ALL_BUT_LAST2"
        if lo == "" and hi == "":
            return "ALL"
        if lo == "" and hi == "n":
            return "FIRST_HALF"
        if lo == "n" and hi == "":
            return "SECOND_HALF"
        return "ALL"

    def _row_class(self, cls: str, sl: ast.expr) -> str:
        s = ast.unparse(sl)
        if cls == "ALL":
            if s == "-1":
                return "LAST"
            if s == "-2":
                return "LAST2"
            if s == "0":
                return "FIRST"
            if s == "1":
                return "SECOND"
            if isinstance(sl, ast.Name) and sl.id in self.coef_loops:
                return "COEF"
        return cls

    def _row_key(self, sl: ast.expr) -> str:
        return "row:" + ast.unparse(sl)

    def cell(self, e: ast.expr) -> Optional[Tuple[str, Optional[str], str]]:
        """(class, bound or None for whole rows, row key) for a read/write of domain cells."""
        if not isinstance(e, ast.Subscript):
            v = self.view_of(e) if isinstance(e, ast.Name) else None
            if v is not None:
                return (v[0], None, v[1] or "rows")
            return None
        sl = e.slice
        base = self.view_of(e.value)
        if base is not None:
            cls, row = base
            if row is not None:
                # row view indexed by bound:  y[MIN], x_i[MAX], domain[:]
                b = self.bound_of(sl) if not isinstance(sl, ast.Slice) else None
                return (cls, b, row)
            if isinstance(sl, ast.Tuple) and len(sl.elts) == 2:
                r, bnd = sl.elts
                b = self.bound_of(bnd) if not isinstance(bnd, ast.Slice) else None
                if isinstance(r, ast.Slice):
                    return (self._slice_class(cls, r), b, "rows")
                return (self._row_class(cls, r), b, self._row_key(r))
            v = self.view_of(e)
            if v is not None:
                return (v[0], None, v[1] or "rows")
        return None

    # -- expression reads
    def reads(self, e: Optional[ast.AST], signs: frozenset, ground_rows: Set[str]) -> Set[Dep]:
        out: Set[Dep] = set()
        if e is None:
            return out
        if isinstance(e, ast.Subscript) or (isinstance(e, ast.Name) and (e.id in self.views or e.id in self.elem_loops)):
            c = self.cell(e)  # type: ignore[arg-type]
            if c is not None:
                cls, b, row = c
                sg = signs if cls == "COEF" else SIGNS
                for bb in ([b] if b else ["MIN", "MAX"]):
                    out.add((cls, "GROUND" if row in ground_rows else bb, sg, row))
                # index expressions may themselves read domains
                if isinstance(e, ast.Subscript):
                    out |= self.reads(e.slice, signs, ground_rows)
                return out
        if isinstance(e, ast.Name):
            # through a local the identity of the row is lost: it may be any row of that class
            return {(c, b, sg, f"via:{e.id}") for c, b, sg, _ in self.taint.get(e.id, set())}
        if isinstance(e, ast.BinOp) and isinstance(e.op, ast.Mult):
            l, r = e.left, e.right
            for a, b_ in ((l, r), (r, l)):
                if isinstance(a, ast.Name) and a.id in self.coef_loops.values():
                    inner = self.reads(b_, signs - {"zero"}, ground_rows)
                    return {(c, b, (sg - {"zero"}) if c == "COEF" else sg, row) for c, b, sg, row in inner}
        if isinstance(e, ast.Call) and isinstance(e.func, ast.Name) and e.func.id == "len":
            return out  # the length of a view is not a bound
        if isinstance(e, ast.Call) and isinstance(e.func, ast.Name):
            r = self.prog.resolve(self.fn.module, e.func.id)
            if r and r[0] == "func":
                # user helper: conservatively, its result depends on everything its arguments depend on (+ callee analysed for stores)
                self._note_callee(r[1], e)
        for ch in ast.iter_child_nodes(e):
            out |= self.reads(ch, signs, ground_rows)
        return out

    def _note_callee(self, callee: FuncInfo, call: ast.Call) -> None:
        self.inlined.add(callee.fq)

    # -- statements
    def run(self) -> None:
        for _ in range(4):
            before = {k: set(v) for k, v in self.taint.items()}
            self.obligations = []
            self.block(self.fn.node.body, SIGNS, set(), set())
            if before == self.taint:
                break

    def is_status_only(self, body: List[ast.stmt]) -> Optional[str]:
        stmts = [s for s in body if not (isinstance(s, ast.Expr) and isinstance(s.value, ast.Constant))]
        if len(stmts) == 1 and isinstance(stmts[0], ast.Return) and isinstance(stmts[0].value, ast.Name):
            v = self.prog.const_value(self.fn.module, stmts[0].value.id)
            if v == self.prog.C("PROP_ENTAILMENT"):
                return "ENTAILMENT"
            if v == self.prog.C("PROP_INCONSISTENCY"):
                return "INCONSISTENCY"
        return None

    def ground_rows_of(self, test: ast.expr) -> Set[str]:
        """Rows r for which the test establishes d[r,MIN] == d[r,MAX]."""
        out: Set[str] = set()
        conj = test.values if isinstance(test, ast.BoolOp) and isinstance(test.op, ast.And) else [test]
        for c in conj:
            if isinstance(c, ast.Compare) and len(c.ops) == 1 and isinstance(c.ops[0], ast.Eq):
                a, b = self.cell(c.left) if isinstance(c.left, ast.Subscript) else None, self.cell(c.comparators[0]) if isinstance(c.comparators[0], ast.Subscript) else None
                if a and b and a[2] == b[2] and a[0] == b[0] and {a[1], b[1]} == {"MIN", "MAX"}:
                    out.add(a[2])
        return out

    def block(self, stmts: List[ast.stmt], signs: frozenset, ctrl: Set[Dep], ground: Set[str]) -> None:
        for s in stmts:
            self.stmt(s, signs, ctrl, ground)

    def stmt(self, s: ast.stmt, signs: frozenset, ctrl: Set[Dep], ground: Set[str]) -> None:
        if isinstance(s, ast.Expr):
            return
        if isinstance(s, (ast.Assign, ast.AugAssign, ast.AnnAssign)):
            targets = s.targets if isinstance(s, ast.Assign) else [s.target]
            value = s.value
            rd = self.reads(value, signs, ground) if value is not None else set()
            for t in targets:
                for el in (t.elts if isinstance(t, ast.Tuple) else [t]):
                    if isinstance(el, ast.Name):
                        # views
                        v = self.view_of(value) if isinstance(value, (ast.Subscript, ast.Name)) else None
                        if v is not None and isinstance(s, ast.Assign):
                            self.views[el.id] = v
                            continue
                        if isinstance(value, ast.Call) and ast.unparse(value.func) in ("np.copy", "numpy.copy") and value.args and self.view_of(value.args[0]) is not None:
                            self.views[el.id] = self.view_of(value.args[0])  # a copy: reads of it are reads of the domains at copy time
                            continue
                        cur = self.taint.setdefault(el.id, set())
                        cur |= rd | ctrl
                        if isinstance(s, ast.AugAssign):
                            pass
                    elif isinstance(el, ast.Subscript):
                        c = self.cell(el)
                        if c is not None:
                            cls, b, row = c
                            deps = set(rd) | set(ctrl) | self.reads(el.slice, signs, ground)
                            if isinstance(s, ast.AugAssign):
                                deps |= self.reads(el, signs, ground)
                            deps = {d for d in deps if not (d[3] == row and d[0] == cls) and not (row == "rows" and d[0] == cls and d[3] == "rows")}
                            self.obligations.append((f"store into {ast.unparse(el)}", s.lineno, deps, "store"))
                        else:
                            base = el
                            while isinstance(base, ast.Subscript):
                                base = base.value
                            if isinstance(base, ast.Name):
                                cur = self.taint.setdefault(base.id, set())  # scratch array: per-array taint
                                cur |= rd | ctrl | self.reads(el.slice, signs, ground)
            return
        if isinstance(s, ast.If):
            so = self.is_status_only(s.body) if not s.orelse else None
            cond_reads = self.reads(s.test, signs, ground)
            if so == "ENTAILMENT":
                return  # an entailment guard: assumed monotone (C07), carries no wake-up obligation
            if so == "INCONSISTENCY":
                direct = {d for d in cond_reads if not d[3].startswith("via:")}
                rows = {(d[0], d[3]) for d in direct}
                # a test on the two bounds of one variable is that variable's own business
                deps = (set(cond_reads) - direct) if len(rows) <= 1 else set(cond_reads)
                self.obligations.append((f"failure test {ast.unparse(s.test)}", s.lineno, deps | set(ctrl), "fail"))
                return
            sg_t, sg_f = signs, signs
            for cname in self.coef_loops.values():
                r = _sign_of_test(s.test, cname)
                if r is not None:
                    sg_t, sg_f = signs & r[0], signs & r[1]
                    cond_reads = set()
            g_rows = self.ground_rows_of(s.test)
            if g_rows:
                cond_reads = {(c, "GROUND", sg, row) if row in g_rows else (c, b, sg, row) for c, b, sg, row in cond_reads}
            self.block(s.body, sg_t, ctrl | cond_reads, ground | g_rows)
            self.block(s.orelse, sg_f, ctrl | cond_reads, ground)
            return
        if isinstance(s, ast.For):
            it = s.iter
            if isinstance(it, ast.Call) and isinstance(it.func, ast.Name) and it.func.id == "enumerate" and it.args \
                    and ast.unparse(it.args[0]) == f"{self.pname}[:-1]" and isinstance(s.target, ast.Tuple):
                self.coef_loops[s.target.elts[0].id] = s.target.elts[1].id
            elif isinstance(it, ast.Call) and isinstance(it.func, ast.Name) and it.func.id == "range":
                pass
            elif isinstance(it, ast.Call) and isinstance(it.func, ast.Name) and it.func.id == "enumerate" and it.args and self.view_of(it.args[0]) is not None \
                    and isinstance(s.target, ast.Tuple):
                self.elem_loops[s.target.elts[1].id] = self.view_of(it.args[0])[0]
            elif self.view_of(it) is not None and isinstance(s.target, ast.Name):
                self.elem_loops[s.target.id] = self.view_of(it)[0]
            else:
                rd = self.reads(it, signs, ground)
                for n in ast.walk(s.target):
                    if isinstance(n, ast.Name):
                        self.taint.setdefault(n.id, set()).update(rd | ctrl)
            if isinstance(it, ast.Call) and isinstance(it.func, ast.Name) and it.func.id == "range":
                rd = self.reads(it, signs, ground)
                if isinstance(s.target, ast.Name):
                    self.taint.setdefault(s.target.id, set()).update(rd | ctrl)
            self.block(s.body, signs, ctrl, ground)
            return
        if isinstance(s, ast.While):
            cond = self.reads(s.test, signs, ground)
            self.block(s.body, signs, ctrl | cond, ground)
            return
        if isinstance(s, ast.Return):
            if s.value is not None and not isinstance(s.value, ast.Name):
                rd = self.reads(s.value, signs, ground)
                # `return A if cond else B` with statuses: the inconsistency arm depends on cond
                if isinstance(s.value, ast.IfExp):
                    self.obligations.append((f"status selected by {ast.unparse(s.value.test)}", s.lineno, self.reads(s.value.test, signs, ground) | set(ctrl), "status"))
                elif rd:
                    self.obligations.append((f"returned status {ast.unparse(s.value)[:40]}", s.lineno, rd | set(ctrl), "status"))
            return
        if isinstance(s, (ast.Break, ast.Continue, ast.Pass)):
            return
        self.problems.append(f"unmodelled statement {type(s).__name__} at line {s.lineno}")


def _event_bit(prog: Program, b: str) -> int:
    return {"MIN": prog.C("EVENT_MASK_MIN"), "MAX": prog.C("EVENT_MASK_MAX"), "GROUND": prog.C("EVENT_MASK_GROUND")}[b]


def rule_triggers(ctx: Ctx, prog: Program) -> None:
    ctx.rule("R-TRIGGERS")
    FULL = prog.C("EVENT_MASK_MIN_MAX")
    GROUND = prog.C("EVENT_MASK_GROUND")
    n_full = n_narrow = 0
    for i, c, t in propagator_triples(prog):
        ctx.fn(c.fq, t.fq)
        spec = trigger_spec(prog, t)
        if spec.problems:
            # an idiom the reader does not know is the analyser's problem, not a verdict on the code
            raise AnalysisError(f"{t.name}: the declared wake-up events cannot be read as a per-position mask ({spec.problems[0]})")
        everywhere = [mm for sg in sorted(SIGNS) for mm, _ in _mask_for(spec, "ALL", sg)] + [mm for sg in sorted(SIGNS) for mm, _ in _mask_for(spec, "COEF", sg)
                                                                                            if any(oc == "COEF" for oc, _, _ in spec.overrides)]
        if all(mm is not None and (mm & FULL) == FULL for mm in everywhere):
            n_full += 1
            ctx.ok("R-TRIGGERS", f"{c.name}: watches MIN and MAX of every variable (sufficient for any bound dependence)", nontrivial=False)
            continue
        # narrow triggers: the filtering function's dependences must be covered
        n_narrow += 1
        da = DepAnalysis(prog, c)
        da.run()
        if (da.problems or da.inlined) and c.name in KNOWN_NARROW:
            why = (da.problems or [f"calls {sorted(da.inlined)}"])[0]
            raise AnalysisError(f"{c.name}: its triggers are narrower than MIN|MAX (as on the pinned tree) but its bound dependences can no longer be derived ({why})")
        if da.problems or da.inlined:
            why = (da.problems or [f"calls {sorted(da.inlined)}"])[0]
            ctx.violation("R-TRIGGERS", c.path, c.name, "narrow-triggers-unanalysable", t.loc(),
                          f"{t.name} declares fewer events than MIN|MAX for some variable, but the bound dependences of {c.name} cannot be derived ({why}): "
                          "a bound change it does not watch may enable pruning or a failure")
            continue
        bad: List[str] = []
        n_ob = 0
        for desc, line, deps, kind in da.obligations:
            for cls, b, signs, row in sorted(deps, key=repr):
                for sg in sorted(signs if cls == "COEF" else {"pos"}):
                    m = _mask_for(spec, cls, sg)
                    n_ob += 1
                    for mm, where in m:
                        if mm is None or not (mm & _event_bit(prog, b)):
                            bad.append(f"{desc} (line {line}) depends on the {b} of {_cls_name(cls)}"
                                       + (f" when its coefficient is {_sg(sg)}" if cls == "COEF" else "")
                                       + f", but {t.name} gives {where} the mask {mm}")
        if bad:
            ctx.violation("R-TRIGGERS", t.path, t.name, f"insufficient:{c.name}", t.loc(),
                          f"wake-up events of {c.name} are not sufficient: {bad[0]}" + (f" (+{len(set(bad)) - 1} more)" if len(set(bad)) > 1 else ""))
        else:
            ctx.ok("R-TRIGGERS", f"{c.name}: every bound its stores / failure tests depend on is watched ({n_ob} dependences, {len(da.obligations)} sites)",
                   sample={"default": spec.default, "overrides": [(a, sorted(b_), m) for a, b_, m in spec.overrides],
                           "dependences": sorted({f"{cls}.{b}{'/' + ','.join(sorted(sg)) if cls == 'COEF' else ''}" for _, _, deps, _ in da.obligations for cls, b, sg, _ in deps})})
    ctx.floor("R-TRIGGERS:propagators-with-full-mask", n_full, 16)
    ctx.floor("R-TRIGGERS:propagators-with-narrow-mask", n_narrow, 5)
    ctx.assume("entailment guards are monotone (a watched-or-unwatched bound change never invalidates an earlier 'entailed'); C07's undecided half")


def _mask_for(spec: TriggerSpec, cls: str, sign: str) -> List[Tuple[Optional[int], str]]:
    """Masks of every position a dependence on class `cls` may refer to."""
    position_sets = {
        "ALL": ["FIRST", "MIDDLE", "LAST"], "COEF": ["COEF"], "ALL_BUT_LAST": ["FIRST", "MIDDLE"], "ALL_BUT_LAST2": ["FIRST", "MIDDLE"],
        "LAST": ["LAST"], "LAST2": ["MIDDLE"], "FIRST": ["FIRST"], "SECOND": ["MIDDLE"], "FIRST_HALF": ["FIRST", "MIDDLE"], "SECOND_HALF": ["MIDDLE", "LAST"],
    }
    out = []
    for p in position_sets.get(cls, ["FIRST", "MIDDLE", "LAST"]):
        m = spec.default
        for oc, signs, v in spec.overrides:
            if (oc == p or oc in ("ALL",) or (oc == "COEF")) and (oc != "COEF" or sign in signs):
                m = v
        out.append((m, {"FIRST": "the first variable", "MIDDLE": "the inner variables", "LAST": "the last variable", "COEF": "that variable"}[p]))
    return out


def _cls_name(cls: str) -> str:
    return {"ALL": "a variable", "COEF": "a variable", "ALL_BUT_LAST": "a variable other than the last", "LAST": "the last variable", "FIRST": "the first variable"}.get(cls, cls)


def _sg(s: str) -> str:
    return {"neg": "negative", "zero": "zero", "pos": "positive"}[s]


# ------------------------------------------------------------------ R-ENFORCE-ENTAIL
def _bound_ref(prog: Program, fn: FuncInfo, e: ast.expr) -> Optional[Tuple[str, str]]:
    """(row expression text, 'MIN'|'MAX') for a subscript like x[q, MAX] / y[MIN]."""
    if not isinstance(e, ast.Subscript):
        return None
    sl = e.slice
    elts = list(sl.elts) if isinstance(sl, ast.Tuple) else [sl]
    last = elts[-1]
    v = prog.fold(fn.module, last)
    if v not in (prog.C("MIN"), prog.C("MAX")) or not isinstance(last, (ast.Name, ast.Constant)):
        return None
    row = ast.unparse(e.value) + "[" + ", ".join(ast.unparse(x) for x in elts[:-1]) + "]"
    return row, ("MIN" if v == prog.C("MIN") else "MAX")


def _plus_const(e: ast.expr) -> Tuple[ast.expr, int]:
    if isinstance(e, ast.BinOp) and isinstance(e.op, (ast.Add, ast.Sub)) and isinstance(e.right, ast.Constant) and isinstance(e.right.value, int):
        return e.left, (e.right.value if isinstance(e.op, ast.Add) else -e.right.value)
    return e, 0


def rule_enforce_entail(ctx: Ctx, prog: Program) -> None:
    """A block that enforces  a + k <= b  on two variables (a.MAX = min(a.MAX, b.MAX - k); b.MIN = max(b.MIN, a.MIN + k)) and then answers
    'entailed' on a comparison of a.MAX with b.MIN states two beliefs about the same relation; they must agree: the relation holds on the
    whole box iff a.MAX + k <= b.MIN.  `a.MAX <= b.MIN` after enforcing the strict relation (k = 1) declares entailment while a = b is
    still possible.  (Contradiction between two beliefs in one block: no per-constraint specification is consulted.)"""
    ctx.rule("R-ENFORCE-ENTAIL")
    PE = "PROP_ENTAILMENT"
    n = 0
    seen_fns: Set[str] = set()
    work: List[FuncInfo] = [c for _, c, _ in propagator_triples(prog)]
    while work:
        fn = work.pop()
        if fn.fq in seen_fns:
            continue
        seen_fns.add(fn.fq)
        for node in ast.walk(fn.node):
            if isinstance(node, ast.Call) and isinstance(node.func, ast.Name):
                r = prog.resolve(fn.module, node.func.id)
                if r and r[0] == "func" and r[1].module == fn.module:
                    work.append(r[1])
        blocks: List[List[ast.stmt]] = []
        for node in ast.walk(fn.node):
            for attr in ("body", "orelse"):
                b = getattr(node, attr, None)
                if isinstance(b, list) and b and isinstance(b[0], ast.stmt):
                    blocks.append(b)
        for block in blocks:
            enforced: Dict[Tuple[str, str], int] = {}  # (a row, b row) -> k  from  a.MAX = min(a.MAX, b.MAX - k)
            enforced2: Dict[Tuple[str, str], int] = {}  # from b.MIN = max(b.MIN, a.MIN + k)
            for s in block:
                if isinstance(s, ast.Assign) and len(s.targets) == 1 and isinstance(s.value, ast.Call) and isinstance(s.value.func, ast.Name) \
                        and s.value.func.id in ("min", "max") and len(s.value.args) == 2:
                    tgt = _bound_ref(prog, fn, s.targets[0])
                    if tgt is None:
                        continue
                    args = s.value.args
                    other = [a for a in args if ast.unparse(a) != ast.unparse(s.targets[0])]
                    if len(other) != 1:
                        continue
                    base, k = _plus_const(other[0])
                    ob = _bound_ref(prog, fn, base)
                    if ob is None:
                        continue
                    if s.value.func.id == "min" and tgt[1] == "MAX" and ob[1] == "MAX":
                        enforced[(tgt[0], ob[0])] = -k  # a.MAX <= b.MAX - k'
                    if s.value.func.id == "max" and tgt[1] == "MIN" and ob[1] == "MIN":
                        enforced2[(ob[0], tgt[0])] = k  # b.MIN >= a.MIN + k
                tests: List[Tuple[ast.expr, int]] = []
                if isinstance(s, ast.Return) and isinstance(s.value, ast.IfExp) and isinstance(s.value.body, ast.Name) and s.value.body.id == PE:
                    tests.append((s.value.test, s.lineno))
                if isinstance(s, ast.If) and any(isinstance(x, ast.Return) and isinstance(x.value, ast.Name) and x.value.id == PE for x in s.body):
                    tests.append((s.test, s.lineno))
                for t, line in tests:
                    if not (isinstance(t, ast.Compare) and len(t.ops) == 1):
                        continue
                    l, r_ = _bound_ref(prog, fn, t.left), _bound_ref(prog, fn, t.comparators[0])
                    if l is None or r_ is None:
                        continue
                    op = type(t.ops[0])
                    # normalise to  a.MAX (op) b.MIN
                    if l[1] == "MAX" and r_[1] == "MIN" and op in (ast.Lt, ast.LtE):
                        a, b, strict = l[0], r_[0], op is ast.Lt
                    elif l[1] == "MIN" and r_[1] == "MAX" and op in (ast.Gt, ast.GtE):
                        a, b, strict = r_[0], l[0], op is ast.Gt
                    else:
                        continue
                    ks = [d[(a, b)] for d in (enforced, enforced2) if (a, b) in d]
                    if not ks:
                        continue
                    n += 1
                    k = max(ks)
                    guaranteed = 1 if strict else 0  # the test establishes a.MAX + guaranteed <= b.MIN
                    if guaranteed >= k:
                        ctx.ok("R-ENFORCE-ENTAIL", f"{fn.name}: enforces {a} + {k} <= {b}, entailed under {ast.unparse(t)}", sample={"line": line, "k": k})
                    else:
                        ctx.violation("R-ENFORCE-ENTAIL", fn.path, fn.name, f"entail-weaker-than-enforced:{a}:{b}", f"{fn.path}:{line}",
                                      f"{fn.name} enforces {a} + {k} <= {b} in this block but answers 'entailed' as soon as {ast.unparse(t)}: with "
                                      f"{a}.max == {b}.min the box still contains tuples violating the relation it has just enforced; the constraint is "
                                      "then disabled for the subtree and violating assignments are reported")
    ctx.floor("R-ENFORCE-ENTAIL:blocks", n, 4)


# ------------------------------------------------------------------ R-MIRROR-ENTAIL
class _Mirror(ast.NodeTransformer):
    """Value negation v -> -v: MIN <-> MAX, min <-> max, < <-> >, <= <-> >=, +k <-> -k."""

    SW = {"MIN": "MAX", "MAX": "MIN", "min": "max", "max": "min"}

    def visit_Name(self, n: ast.Name):
        return ast.copy_location(ast.Name(id=self.SW.get(n.id, n.id), ctx=n.ctx), n)

    def visit_Attribute(self, n: ast.Attribute):
        self.generic_visit(n)
        return ast.copy_location(ast.Attribute(value=n.value, attr=self.SW.get(n.attr, n.attr), ctx=n.ctx), n)

    def visit_Compare(self, n: ast.Compare):
        self.generic_visit(n)
        flip = {ast.Lt: ast.Gt, ast.Gt: ast.Lt, ast.LtE: ast.GtE, ast.GtE: ast.LtE}
        n.ops = [flip.get(type(o), type(o))() for o in n.ops]
        return n

    def visit_BinOp(self, n: ast.BinOp):
        self.generic_visit(n)
        if isinstance(n.op, (ast.Add, ast.Sub)) and isinstance(n.right, ast.Constant) and isinstance(n.right.value, int):
            n.op = ast.Sub() if isinstance(n.op, ast.Add) else ast.Add()
        return n


def _canon_cmp(e: ast.expr) -> str:
    """Text of a comparison with a canonical direction (a > b written b < a, a >= b written b <= a)."""
    if isinstance(e, ast.Compare) and len(e.ops) == 1:
        l, r, op = e.left, e.comparators[0], type(e.ops[0])
        if op in (ast.Gt, ast.GtE):
            l, r = r, l
            op = ast.Lt if op is ast.Gt else ast.LtE
        sym = {ast.Lt: "<", ast.LtE: "<=", ast.Eq: "==", ast.NotEq: "!="}.get(op, op.__name__)
        a, b = ast.unparse(l), ast.unparse(r)
        if sym in ("==", "!=") and b < a:
            a, b = b, a
        return f"{a} {sym} {b}"
    if isinstance(e, ast.BoolOp):
        return (" and " if isinstance(e.op, ast.And) else " or ").join(sorted(_canon_cmp(v) for v in e.values))
    return ast.unparse(e)


def _entail_guards(fn: FuncInfo) -> List[str]:
    out = []
    for n in ast.walk(fn.node):
        if isinstance(n, ast.If) and any(isinstance(x, ast.Return) and isinstance(x.value, ast.Name) and x.value.id == "PROP_ENTAILMENT" for x in n.body):
            out.append(n.test)
        if isinstance(n, ast.Return) and isinstance(n.value, ast.IfExp) and isinstance(n.value.body, ast.Name) and n.value.body.id == "PROP_ENTAILMENT":
            out.append(n.value.test)
    return out


def rule_mirror_entail(ctx: Ctx, prog: Program) -> None:
    """Sibling propagators that are each other's image under value negation (max_leq / min_geq) must declare entailment under mirrored
    conditions.  The check knows nothing about the constraints: it compares the two guards after mirroring one (MIN<->MAX, min<->max,
    <= <-> >=).  A disagreement means one of the two is wrong (which one is not decided here)."""
    ctx.rule("R-MIRROR-ENTAIL")
    by_name = {c.name: c for _, c, _ in propagator_triples(prog)}
    pairs = []
    for nm, f in by_name.items():
        if "_max_" in nm:
            other = nm.replace("_max_", "_min_").replace("_leq", "_GEQ").replace("_geq", "_leq").replace("_GEQ", "_geq")
            if other in by_name:
                pairs.append((f, by_name[other]))
    n = 0
    for a, b in pairs:
        ga = sorted(_canon_cmp(g) for g in _entail_guards(a))
        gb = sorted(_canon_cmp(_Mirror().visit(ast.parse(ast.unparse(g), mode="eval").body)) for g in _entail_guards(b))
        if not ga and not gb:
            continue
        n += 1
        ctx.fn(a.fq, b.fq)
        if ga == gb:
            ctx.ok("R-MIRROR-ENTAIL", f"{a.name} / {b.name}: entailment guards are mirror images", sample={"guard": ga, "mirrored sibling": gb})
        else:
            ctx.violation("R-MIRROR-ENTAIL", b.path, f"{a.name}/{b.name}", "entailment-guards-differ", b.loc(),
                          f"{a.name} declares entailment under {ga} but its mirror image {b.name} under {sorted(_canon_cmp(g) for g in _entail_guards(b))} "
                          f"(= {gb} after mirroring MIN<->MAX, min<->max, <= <-> >=): the two are the same constraint up to negation of the values, "
                          "so one of the guards declares entailment on boxes that still contain violating tuples (or never declares it)")
    ctx.floor("R-MIRROR-ENTAIL:pairs", n, 1)
