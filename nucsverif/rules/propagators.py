"""Rules over the registered propagators:
R-STATUS-VOCAB  every return of every filtering function is one of the three PROP_* constants
R-TRIGGERS      wake-up sufficiency by bound-dependency analysis of each filtering function against its trigger function
R-PROP-EFFECTS  a filtering function stores only into its `domains` argument (never into `parameters`)."""
from __future__ import annotations

import ast
from typing import Any, Dict, List, Optional, Set, Tuple

from ..core import Ctx
from ..program import AnalysisError, FuncInfo, Program, NO
from ..effects import get_effects
from ..interp import Interp, LoopSummary, View, as_view
from ..terms import Aff, K, ONE, cmp_cond, show_val

SIGNS = frozenset({"neg", "zero", "pos"})
_SELECTORS = {"maximum", "minimum", "fmax", "fmin", "where", "abs", "absolute", "sign", "clip", "select", "max", "min"}
# propagators whose declared triggers are narrower than MIN|MAX on the pinned tree (dependences derived and checked on every run)
KNOWN_NARROW = {"compute_domains_max_leq", "compute_domains_min_geq", "compute_domains_affine_leq", "compute_domains_affine_geq", "compute_domains_no_sub_cycle"}


# ------------------------------------------------------------------ registry triples
def propagator_triples(prog: Program, thorough: bool = False) -> List[Tuple[int, FuncInfo, FuncInfo]]:
    cd = prog.registry("COMPUTE_DOMAINS_FCTS")
    gt = prog.registry("GET_TRIGGERS_FCTS")
    if len(cd.entries) != len(gt.entries):
        raise AnalysisError("registries COMPUTE_DOMAINS_FCTS / GET_TRIGGERS_FCTS have different lengths")
    out = []
    for i, (c, t) in enumerate(zip(cd.entries, gt.entries)):
        if not isinstance(c, FuncInfo) or not isinstance(t, FuncInfo):
            raise AnalysisError(f"unresolved propagator registration #{i}")
        out.append((i, c, t))
    return out


# ------------------------------------------------------------------ status vocabulary
def rule_status_vocab(ctx: Ctx, prog: Program) -> None:
    ctx.rule("R-STATUS-VOCAB")
    statuses = {prog.C("PROP_INCONSISTENCY"), prog.C("PROP_CONSISTENCY"), prog.C("PROP_ENTAILMENT")}
    seen: Set[str] = set()
    n_ret = 0

    def ok_expr(fn: FuncInfo, e: Optional[ast.expr], depth: int = 0) -> Optional[str]:
        if e is None:
            return "returns None"
        if isinstance(e, ast.Name):
            v = prog.const_value(fn.module, e.id)
            if v is not NO and v in statuses and e.id.startswith("PROP_"):
                return None
            # a local: every value it is given must itself be a status
            vals = [n.value for n in ast.walk(fn.node) if isinstance(n, ast.Assign) and any(isinstance(t, ast.Name) and t.id == e.id for t in n.targets)]
            if vals and e.id not in fn.params and depth < 12 and not any(isinstance(n, (ast.AugAssign, ast.For)) and any(
                    isinstance(x, ast.Name) and x.id == e.id for x in ast.walk(n.target)) for n in ast.walk(fn.node)):
                for v_ in vals:
                    why_ = ok_expr(fn, v_, depth)
                    if why_:
                        return f"returns '{e.id}', which {why_.replace('returns', 'may hold', 1)}"
                return None
            return f"returns '{e.id}', which is not a PROP_* status"
        if isinstance(e, ast.IfExp):
            return ok_expr(fn, e.body, depth) or ok_expr(fn, e.orelse, depth)
        if isinstance(e, ast.Call) and isinstance(e.func, ast.Name):
            r = prog.resolve(fn.module, e.func.id)
            if r and r[0] == "func" and depth < 12:
                return check_fn(r[1], depth + 1)
            return f"returns the result of {e.func.id}(...)"
        return f"returns {ast.unparse(e)}"

    def check_fn(fn: FuncInfo, depth: int = 0) -> Optional[str]:
        nonlocal n_ret
        if fn.fq in seen:
            return None
        seen.add(fn.fq)
        ctx.fn(fn.fq)
        rets = [n for n in ast.walk(fn.node) if isinstance(n, ast.Return)]
        if not rets:
            return f"{fn.name} has no return"
        for r in rets:
            n_ret += 1
            why = ok_expr(fn, r.value, depth)
            if why:
                ctx.violation("R-STATUS-VOCAB", fn.path, fn.name, f"return:{ast.unparse(r.value) if r.value else 'None'}", f"{fn.path}:{r.lineno}",
                              f"{fn.name} {why}: the engine only understands PROP_INCONSISTENCY / PROP_CONSISTENCY / PROP_ENTAILMENT")
        # falling off the end returns None
        last = fn.node.body[-1]
        if not isinstance(last, (ast.Return, ast.Raise)) and not _always_returns(fn.node.body):
            ctx.violation("R-STATUS-VOCAB", fn.path, fn.name, "falls-off", f"{fn.path}:{last.lineno}", f"{fn.name} can fall off its end without returning a status")
        return None

    for i, c, t in propagator_triples(prog):
        check_fn(c)
        ctx.ok("R-STATUS-VOCAB", f"{c.name}: every return is a PROP_* status")
    ctx.floor("R-STATUS-VOCAB:propagators", len(propagator_triples(prog)), 22)
    ctx.floor("R-STATUS-VOCAB:returns", n_ret, 80)


def _always_returns(body: List[ast.stmt]) -> bool:
    if not body:
        return False
    last = body[-1]
    if isinstance(last, (ast.Return, ast.Raise)):
        return True
    if isinstance(last, ast.If):
        return _always_returns(last.body) and _always_returns(last.orelse)
    if isinstance(last, ast.While) and isinstance(last.test, ast.Constant) and last.test.value is True:
        return not any(isinstance(n, ast.Break) for n in ast.walk(last))
    return False


def _leaves(body: List[ast.stmt]) -> bool:
    """the block never falls through to the statement after it (return / raise / continue / break at its end)"""
    if body and isinstance(body[-1], (ast.Continue, ast.Break)):
        return True
    return _always_returns(body)


def rule_prop_effects(ctx: Ctx, prog: Program) -> None:
    ctx.rule("R-PROP-EFFECTS")
    eff = get_effects(prog)
    for i, c, t in propagator_triples(prog):
        mods = eff.mods.get(c.fq, set())
        if len(c.params) != 2:
            ctx.violation("R-PROP-EFFECTS", c.path, c.name, "arity", c.loc(), f"{c.name} takes {len(c.params)} parameters (expected domains, parameters)")
            continue
        if c.params[1] in mods:
            ctx.violation("R-PROP-EFFECTS", c.path, c.name, "writes-parameters", c.loc(),
                          f"{c.name} stores into its parameters array, which is a view of the problem's shared parameter table")
        else:
            ctx.ok("R-PROP-EFFECTS", f"{c.name}: stores only into its private view of the domains", nontrivial=bool(mods))
        g = eff.mods.get(t.fq, set())
        if g:
            ctx.violation("R-PROP-EFFECTS", t.path, t.name, "trigger-fn-writes", t.loc(), f"{t.name} modifies its arguments {sorted(g)}")


# -------------------------------------------------------------------------- triggers
class TriggerSpec:
    """mask(position class, sign of the paired coefficient) derived from a get_triggers_* function."""

    def __init__(self) -> None:
        self.default: Optional[int] = None
        self.overrides: List[Tuple[str, frozenset, int]] = []  # (class, signs, mask)
        self.problems: List[str] = []

    def mask(self, cls: str, sign: str) -> Optional[int]:
        m = self.default
        for c, signs, v in self.overrides:
            if sign in signs and _class_covers(c, cls):
                m = v
        return m

    def uniform(self) -> Optional[int]:
        return self.default if not self.overrides else None


def _class_covers(override_cls: str, dep_cls: str) -> bool:
    if override_cls == dep_cls or override_cls in ("ALL", "COEF"):
        return True
    return False


def _fold_mask(prog: Program, fn: FuncInfo, e: ast.expr) -> Optional[int]:
    v = prog.fold(fn.module, e)
    return v if isinstance(v, int) and not isinstance(v, bool) else None


def _sign_of_test(test: ast.expr, cname: str) -> Optional[Tuple[frozenset, frozenset]]:
    """(signs when true, signs when false) for a comparison of the coefficient with 0."""
    if isinstance(test, ast.UnaryOp) and isinstance(test.op, ast.Not):
        r = _sign_of_test(test.operand, cname)
        return (r[1], r[0]) if r is not None else None
    if isinstance(test, ast.Compare) and len(test.ops) == 1 and isinstance(test.comparators[0], ast.Name) and test.comparators[0].id == cname \
            and isinstance(test.left, ast.Constant) and test.left.value == 0:
        flip = {ast.Gt: ast.Lt, ast.Lt: ast.Gt, ast.GtE: ast.LtE, ast.LtE: ast.GtE, ast.Eq: ast.Eq, ast.NotEq: ast.NotEq}
        if type(test.ops[0]) in flip:
            return _sign_of_test(ast.Compare(left=test.comparators[0], ops=[flip[type(test.ops[0])]()], comparators=[test.left]), cname)
    if isinstance(test, ast.Compare) and len(test.ops) == 1 and isinstance(test.left, ast.Name) and test.left.id == cname \
            and isinstance(test.comparators[0], ast.Constant) and test.comparators[0].value == 0:
        op = type(test.ops[0])
        table = {ast.Gt: {"pos"}, ast.Lt: {"neg"}, ast.GtE: {"pos", "zero"}, ast.LtE: {"neg", "zero"}, ast.Eq: {"zero"}, ast.NotEq: {"neg", "pos"}}
        if op in table:
            t = frozenset(table[op])
            return t, SIGNS - t
    return None


def trigger_spec(prog: Program, fn: FuncInfo) -> TriggerSpec:
    spec = TriggerSpec()
    if len(fn.params) != 2:
        spec.problems.append("a trigger function takes (n, parameters)")
        return spec
    nname, pname = fn.params
    arr: Optional[str] = None

    def alloc(e: ast.expr) -> Optional[int]:
        # np.full(n, dtype=.., fill_value=M) / np.zeros(n, ..) / np.ones
        if isinstance(e, ast.Call) and isinstance(e.func, ast.Attribute) and e.func.attr in ("full", "zeros", "ones"):
            size = e.args[0] if e.args else None
            if not (isinstance(size, ast.Name) and size.id == nname):
                spec.problems.append(f"the trigger array is not of length n ({ast.unparse(e)})")
            if e.func.attr == "zeros":
                return 0
            if e.func.attr == "ones":
                return 1
            fv = None
            for kw in e.keywords:
                if kw.arg == "fill_value":
                    fv = kw.value
            if fv is None and len(e.args) >= 2:
                fv = e.args[1]
            return _fold_mask(prog, fn, fv) if fv is not None else None
        return None

    def walk(stmts: List[ast.stmt], signs: frozenset, loop: Optional[Tuple[str, str]]) -> None:
        nonlocal arr
        for s in stmts:
            if isinstance(s, ast.Expr) and isinstance(s.value, ast.Constant):
                continue
            if isinstance(s, ast.Return):
                if isinstance(s.value, ast.Name) and s.value.id == arr:
                    continue
                m = alloc(s.value) if s.value is not None else None
                if m is not None and arr is None:
                    spec.default = m
                    continue
                spec.problems.append(f"unrecognised return {ast.unparse(s)}")
            elif isinstance(s, ast.Assign) and len(s.targets) == 1 and isinstance(s.targets[0], ast.Name):
                m = alloc(s.value)
                if m is not None:
                    arr = s.targets[0].id
                    spec.default = m
                else:
                    spec.problems.append(f"unrecognised assignment {ast.unparse(s)}")
            elif isinstance(s, ast.Assign) and len(s.targets) == 1 and isinstance(s.targets[0], ast.Subscript) \
                    and isinstance(s.targets[0].value, ast.Name) and s.targets[0].value.id == arr:
                m = _fold_mask(prog, fn, s.value)
                idx = s.targets[0].slice
                cls = None
                if isinstance(idx, ast.UnaryOp) and isinstance(idx.op, ast.USub) and isinstance(idx.operand, ast.Constant) and idx.operand.value == 1:
                    cls = "LAST"
                elif isinstance(idx, ast.Constant) and idx.value == -1:
                    cls = "LAST"
                elif isinstance(idx, ast.Constant) and idx.value == 0:
                    cls = "FIRST"
                elif isinstance(idx, ast.Name) and loop is not None and idx.id == loop[0]:
                    cls = "COEF"
                if m is None or cls is None:
                    spec.problems.append(f"unrecognised trigger store {ast.unparse(s)}")
                else:
                    spec.overrides.append((cls, signs, m))
            elif isinstance(s, ast.For):
                lp = None
                it = s.iter
                if isinstance(it, ast.Call) and isinstance(it.func, ast.Name) and it.func.id == "enumerate" and len(it.args) == 1 \
                        and ast.unparse(it.args[0]) == f"{pname}[:-1]" and isinstance(s.target, ast.Tuple) and len(s.target.elts) == 2:
                    lp = (s.target.elts[0].id, s.target.elts[1].id)
                if lp is None and isinstance(it, ast.Call) and isinstance(it.func, ast.Name) and it.func.id == "range" and len(it.args) == 1 \
                        and isinstance(it.args[0], ast.Name) and it.args[0].id == nname and isinstance(s.target, ast.Name) and loop is None:
                    # for i in range(n): arr[i] = M  -- every position
                    for b in s.body:
                        if isinstance(b, ast.Assign) and len(b.targets) == 1 and isinstance(b.targets[0], ast.Subscript) and isinstance(b.targets[0].value, ast.Name) \
                                and b.targets[0].value.id == arr and isinstance(b.targets[0].slice, ast.Name) and b.targets[0].slice.id == s.target.id \
                                and _fold_mask(prog, fn, b.value) is not None:
                            spec.overrides.append(("ALL", signs, _fold_mask(prog, fn, b.value)))
                        else:
                            spec.problems.append(f"unrecognised statement in a range(n) loop: {ast.unparse(b)}")
                elif lp is None:
                    spec.problems.append(f"unrecognised loop {ast.unparse(s.iter)}")
                else:
                    walk(s.body, signs, lp)
            elif isinstance(s, ast.If):
                sg = _sign_of_test(s.test, loop[1]) if loop else None
                if sg is None:
                    spec.problems.append(f"unrecognised test {ast.unparse(s.test)}")
                else:
                    walk(s.body, signs & sg[0], loop)
                    walk(s.orelse, signs & sg[1], loop)
            else:
                spec.problems.append(f"unrecognised statement {type(s).__name__}")

    walk(fn.node.body, SIGNS, None)
    if spec.default is None:
        spec.problems.append("no trigger array allocation found")
    return spec


# ---- dependency analysis of a filtering function
Dep = Tuple[str, str, frozenset, str]  # (position class, 'MIN'|'MAX'|'GROUND', coefficient signs, row key)


class DepAnalysis:
    def __init__(self, prog: Program, fn: FuncInfo):
        self.prog = prog
        self.fn = fn
        self.MIN, self.MAX = prog.C("MIN"), prog.C("MAX")
        self.dname, self.pname = fn.params[0], fn.params[1]
        self.views: Dict[str, Tuple[str, Optional[str]]] = {self.dname: ("ALL", None)}  # name -> (class, fixed row key)
        self.taint: Dict[str, Set[Dep]] = {}
        self.obligations: List[Tuple[str, int, Set[Dep], str]] = []  # (description, line, deps, kind)
        self.problems: List[str] = []
        self.coef_loops: Dict[str, str] = {}  # index var -> coefficient var
        self.row_loops: Dict[str, str] = {}  # index var -> class
        self.elem_loops: Dict[str, str] = {}  # element var (for x_i in x) -> class
        self.inlined: Set[str] = set()
        self.selectors: List[int] = []  # lines where a min/max/abs/where-like call mixes both bounds of one class of variables

    # -- helpers
    def bound_of(self, e: ast.expr) -> Optional[str]:
        v = self.prog.fold(self.fn.module, e)
        if v == self.MIN and isinstance(e, ast.Name):
            return "MIN"
        if v == self.MAX and isinstance(e, ast.Name):
            return "MAX"
        if isinstance(e, ast.Constant) and e.value in (0, 1):
            return "MIN" if e.value == self.MIN else "MAX"
        return None

    def view_of(self, e: ast.expr) -> Optional[Tuple[str, Optional[str]]]:
        """(class, row key) when `e` denotes rows of the domains array."""
        if isinstance(e, ast.Name):
            if e.id in self.views:
                return self.views[e.id]
            if e.id in self.elem_loops:
                return (self.elem_loops[e.id], f"elem:{e.id}")
            return None
        if isinstance(e, ast.Subscript):
            base = self.view_of(e.value)
            if base is None:
                return None
            cls, row = base
            sl = e.slice
            if row is None and not isinstance(sl, ast.Tuple):
                if isinstance(sl, ast.Slice):
                    return (self._slice_class(cls, sl), None)
                key = self._row_key(sl)
                return (self._row_class(cls, sl), key)
        return None

    def _slice_class(self, cls: str, sl: ast.Slice) -> str:
        lo = ast.unparse(sl.lower) if sl.lower is not None else ""
        hi = ast.unparse(sl.upper) if sl.upper is not None else ""
        if cls != "ALL":
            return cls
        if lo == "" and hi == "-1":
            return "ALL_BUT_LAST"
        if lo == "" and hi == "-2":
            return "ALL_BUT_LAST2"
        if lo == "" and hi == "":
            return "ALL"
        if lo == "" and hi == "n":
            return "FIRST_HALF"
        if lo == "n" and hi == "":
            return "SECOND_HALF"
        return "ALL"

    def _row_class(self, cls: str, sl: ast.expr) -> str:
        s = ast.unparse(sl)
        if cls == "ALL":
            if s == "-1":
                return "LAST"
            if s == "-2":
                return "LAST2"
            if s == "0":
                return "FIRST"
            if s == "1":
                return "SECOND"
            if isinstance(sl, ast.Name) and sl.id in self.coef_loops:
                return "COEF"
        return cls

    def _row_key(self, sl: ast.expr) -> str:
        return "row:" + ast.unparse(sl)

    def cell(self, e: ast.expr) -> Optional[Tuple[str, Optional[str], str]]:
        """(class, bound or None for whole rows, row key) for a read/write of domain cells."""
        if not isinstance(e, ast.Subscript):
            v = self.view_of(e) if isinstance(e, ast.Name) else None
            if v is not None:
                return (v[0], None, v[1] or "rows")
            return None
        sl = e.slice
        base = self.view_of(e.value)
        if base is not None:
            cls, row = base
            if row is not None:
                # row view indexed by bound:  y[MIN], x_i[MAX], domain[:]
                b = self.bound_of(sl) if not isinstance(sl, ast.Slice) else None
                return (cls, b, row)
            if isinstance(sl, ast.Tuple) and len(sl.elts) == 2:
                r, bnd = sl.elts
                b = self.bound_of(bnd) if not isinstance(bnd, ast.Slice) else None
                if isinstance(r, ast.Slice):
                    return (self._slice_class(cls, r), b, "rows")
                return (self._row_class(cls, r), b, self._row_key(r))
            v = self.view_of(e)
            if v is not None:
                return (v[0], None, v[1] or "rows")
        return None

    # -- expression reads
    def reads(self, e: Optional[ast.AST], signs: frozenset, ground_rows: Set[str]) -> Set[Dep]:
        out: Set[Dep] = set()
        if e is None:
            return out
        if isinstance(e, ast.Subscript) or (isinstance(e, ast.Name) and (e.id in self.views or e.id in self.elem_loops)):
            c = self.cell(e)  # type: ignore[arg-type]
            if c is not None:
                cls, b, row = c
                sg = signs if cls == "COEF" else SIGNS
                for bb in ([b] if b else ["MIN", "MAX"]):
                    out.add((cls, "GROUND" if row in ground_rows else bb, sg, row))
                # index expressions may themselves read domains
                if isinstance(e, ast.Subscript):
                    out |= self.reads(e.slice, signs, ground_rows)
                return out
        if isinstance(e, ast.Name):
            # through a local the identity of the row is lost: it may be any row of that class
            return {(c, b, sg, f"via:{e.id}") for c, b, sg, _ in self.taint.get(e.id, set())}
        if isinstance(e, ast.BinOp) and isinstance(e.op, ast.Mult):
            l, r = e.left, e.right
            for a, b_ in ((l, r), (r, l)):
                if isinstance(a, ast.Name) and a.id in self.coef_loops.values():
                    inner = self.reads(b_, signs - {"zero"}, ground_rows)
                    return {(c, b, (sg - {"zero"}) if c == "COEF" else sg, row) for c, b, sg, row in inner}
        if isinstance(e, ast.Call) and isinstance(e.func, ast.Name) and e.func.id == "len":
            return out  # the length of a view is not a bound
        if isinstance(e, ast.Call):
            fname = ast.unparse(e.func)
            if fname.split(".")[-1] in _SELECTORS and (fname.split(".")[-1] not in ("max", "min") or "." not in fname and len(e.args) >= 2):
                inner: Set[Dep] = set()
                for a_ in e.args:
                    inner |= self.reads(a_, signs, ground_rows)
                by_cls: Dict[str, Set[str]] = {}
                for c_, b_, _, _ in inner:
                    by_cls.setdefault(c_, set()).add(b_)
                if signs == SIGNS and any({"MIN", "MAX"} <= bs for bs in by_cls.values()):  # (inside a branch on a coefficient's sign the dependence is exact)
                    # which of the two bounds of a variable the result follows is decided by run-time values (a sign, a comparison) that
                    # this dependence analysis does not follow: any 'missing event' derived from it would be a may-dependence only
                    self.selectors.append(getattr(e, "lineno", 0))
                return inner
        if isinstance(e, ast.Call) and isinstance(e.func, ast.Name):
            r = self.prog.resolve(self.fn.module, e.func.id)
            if r and r[0] == "func":
                # user helper: conservatively, its result depends on everything its arguments depend on (+ callee analysed for stores)
                self._note_callee(r[1], e)
        for ch in ast.iter_child_nodes(e):
            out |= self.reads(ch, signs, ground_rows)
        return out

    def _note_callee(self, callee: FuncInfo, call: ast.Call) -> None:
        self.inlined.add(callee.fq)

    # -- statements
    def run(self) -> None:
        for _ in range(4):
            before = {k: set(v) for k, v in self.taint.items()}
            self.obligations = []
            self.block(self.fn.node.body, SIGNS, set(), set())
            if before == self.taint:
                break

    def is_status_only(self, body: List[ast.stmt]) -> Optional[str]:
        stmts = [s for s in body if not (isinstance(s, ast.Expr) and isinstance(s.value, ast.Constant))]
        if len(stmts) == 1 and isinstance(stmts[0], ast.Return) and isinstance(stmts[0].value, ast.Name):
            v = self.prog.const_value(self.fn.module, stmts[0].value.id)
            if v == self.prog.C("PROP_ENTAILMENT"):
                return "ENTAILMENT"
            if v == self.prog.C("PROP_INCONSISTENCY"):
                return "INCONSISTENCY"
        return None

    def ground_rows_of(self, test: ast.expr) -> Set[str]:
        """Rows r for which the test establishes d[r,MIN] == d[r,MAX]."""
        out: Set[str] = set()
        conj = test.values if isinstance(test, ast.BoolOp) and isinstance(test.op, ast.And) else [test]
        for c in conj:
            if isinstance(c, ast.Compare) and len(c.ops) == 1 and isinstance(c.ops[0], ast.Eq):
                a, b = self.cell(c.left) if isinstance(c.left, ast.Subscript) else None, self.cell(c.comparators[0]) if isinstance(c.comparators[0], ast.Subscript) else None
                if a and b and a[2] == b[2] and a[0] == b[0] and {a[1], b[1]} == {"MIN", "MAX"}:
                    out.add(a[2])
        return out

    def block(self, stmts: List[ast.stmt], signs: frozenset, ctrl: Set[Dep], ground: Set[str]) -> None:
        for k, s in enumerate(stmts):
            # `if c: continue / break / return` without else: the rest of the block runs under `not c` -- the same thing as an else branch
            if isinstance(s, ast.If) and not s.orelse and s.body and isinstance(s.body[-1], (ast.Continue, ast.Break, ast.Return)) \
                    and self.is_status_only(s.body) is None and k + 1 < len(stmts):
                rest = list(stmts[k + 1:])
                self.stmt(ast.copy_location(ast.If(test=s.test, body=s.body, orelse=rest), s), signs, ctrl, ground)
                return
            self.stmt(s, signs, ctrl, ground)

    def stmt(self, s: ast.stmt, signs: frozenset, ctrl: Set[Dep], ground: Set[str]) -> None:
        if isinstance(s, ast.Expr):
            # a call made for its effect (a helper filling a scratch array): whatever it is given may flow into every array it is given
            c = s.value
            if isinstance(c, ast.Call) and not (isinstance(c.func, ast.Attribute) and isinstance(c.func.value, ast.Name) and c.func.value.id in ("np", "numpy", "math")):
                rd: Set[Dep] = set()
                for a_ in list(c.args) + [k.value for k in c.keywords]:
                    rd |= self.reads(a_, signs, ground)
                if isinstance(c.func, ast.Attribute):
                    rd |= self.reads(c.func.value, signs, ground)
                outs = [a_ for a_ in c.args if isinstance(a_, ast.Name)] + ([c.func.value] if isinstance(c.func, ast.Attribute) and isinstance(c.func.value, ast.Name) else [])
                for a_ in outs:
                    if self.view_of(a_) is not None:
                        self.problems.append(f"a helper called for its effect receives the domains ({ast.unparse(c)[:40]}) at line {s.lineno}")
                    elif a_.id not in self.fn.params:
                        self.taint.setdefault(a_.id, set()).update(rd | ctrl)
            return
        if isinstance(s, (ast.Assign, ast.AugAssign, ast.AnnAssign)):
            targets = s.targets if isinstance(s, ast.Assign) else [s.target]
            value = s.value
            rd = self.reads(value, signs, ground) if value is not None else set()
            for t in targets:
                for el in (t.elts if isinstance(t, ast.Tuple) else [t]):
                    if isinstance(el, ast.Name):
                        # views
                        v = self.view_of(value) if isinstance(value, (ast.Subscript, ast.Name)) else None
                        if v is not None and isinstance(s, ast.Assign):
                            self.views[el.id] = v
                            continue
                        if isinstance(value, ast.Call) and ast.unparse(value.func) in ("np.copy", "numpy.copy") and value.args and self.view_of(value.args[0]) is not None:
                            self.views[el.id] = self.view_of(value.args[0])  # a copy: reads of it are reads of the domains at copy time
                            continue
                        cur = self.taint.setdefault(el.id, set())
                        cur |= rd | ctrl
                        if isinstance(s, ast.AugAssign):
                            pass
                    elif isinstance(el, ast.Subscript):
                        c = self.cell(el)
                        if c is not None:
                            cls, b, row = c
                            deps = set(rd) | set(ctrl) | self.reads(el.slice, signs, ground)
                            if isinstance(s, ast.AugAssign):
                                deps |= self.reads(el, signs, ground)
                            deps = {d for d in deps if not (d[3] == row and d[0] == cls) and not (row == "rows" and d[0] == cls and d[3] == "rows")}
                            self.obligations.append((f"store into {ast.unparse(el)}", s.lineno, deps, "store"))
                        else:
                            base = el
                            while isinstance(base, ast.Subscript):
                                base = base.value
                            if isinstance(base, ast.Name):
                                cur = self.taint.setdefault(base.id, set())  # scratch array: per-array taint
                                cur |= rd | ctrl | self.reads(el.slice, signs, ground)
            return
        if isinstance(s, ast.If):
            so = self.is_status_only(s.body) if not s.orelse else None
            cond_reads = self.reads(s.test, signs, ground)
            if so == "ENTAILMENT":
                return  # an entailment guard: assumed monotone (C07), carries no wake-up obligation
            if so == "INCONSISTENCY":
                direct = {d for d in cond_reads if not d[3].startswith("via:")}
                rows = {(d[0], d[3]) for d in direct}
                # a test on the two bounds of one variable is that variable's own business
                deps = (set(cond_reads) - direct) if len(rows) <= 1 else set(cond_reads)
                self.obligations.append((f"failure test {ast.unparse(s.test)}", s.lineno, deps | set(ctrl), "fail"))
                return
            sg_t, sg_f = signs, signs
            for cname in self.coef_loops.values():
                r = _sign_of_test(s.test, cname)
                if r is not None:
                    sg_t, sg_f = signs & r[0], signs & r[1]
                    cond_reads = set()
            g_rows = self.ground_rows_of(s.test)
            # `if not (a.MIN == a.MAX and ...): <exit>` establishes the groundness on the other branch
            g_rows_else: Set[str] = set()
            if isinstance(s.test, ast.UnaryOp) and isinstance(s.test.op, ast.Not):
                g_rows_else = self.ground_rows_of(s.test.operand)
            if g_rows or g_rows_else:
                gr = g_rows | g_rows_else
                cond_reads = {(c, "GROUND", sg, row) if row in gr else (c, b, sg, row) for c, b, sg, row in cond_reads}
            self.block(s.body, sg_t, ctrl | cond_reads, ground | g_rows)
            self.block(s.orelse, sg_f, ctrl | cond_reads, ground | g_rows_else)
            return
        if isinstance(s, ast.For):
            it = s.iter
            if isinstance(it, ast.Call) and isinstance(it.func, ast.Name) and it.func.id == "enumerate" and it.args \
                    and ast.unparse(it.args[0]) == f"{self.pname}[:-1]" and isinstance(s.target, ast.Tuple):
                self.coef_loops[s.target.elts[0].id] = s.target.elts[1].id
            elif isinstance(it, ast.Call) and isinstance(it.func, ast.Name) and it.func.id == "range":
                pass
            elif isinstance(it, ast.Call) and isinstance(it.func, ast.Name) and it.func.id == "enumerate" and it.args and self.view_of(it.args[0]) is not None \
                    and isinstance(s.target, ast.Tuple):
                self.elem_loops[s.target.elts[1].id] = self.view_of(it.args[0])[0]
            elif self.view_of(it) is not None and isinstance(s.target, ast.Name):
                self.elem_loops[s.target.id] = self.view_of(it)[0]
            else:
                rd = self.reads(it, signs, ground)
                for n in ast.walk(s.target):
                    if isinstance(n, ast.Name):
                        self.taint.setdefault(n.id, set()).update(rd | ctrl)
            if isinstance(it, ast.Call) and isinstance(it.func, ast.Name) and it.func.id == "range":
                rd = self.reads(it, signs, ground)
                if isinstance(s.target, ast.Name):
                    self.taint.setdefault(s.target.id, set()).update(rd | ctrl)
            self.block(s.body, signs, ctrl, ground)
            return
        if isinstance(s, ast.While):
            cond = self.reads(s.test, signs, ground)
            self.block(s.body, signs, ctrl | cond, ground)
            return
        if isinstance(s, ast.Return):
            if s.value is not None and not isinstance(s.value, ast.Name):
                rd = self.reads(s.value, signs, ground)
                # `return A if cond else B` with statuses: the inconsistency arm depends on cond
                if isinstance(s.value, ast.IfExp):
                    self.obligations.append((f"status selected by {ast.unparse(s.value.test)}", s.lineno, self.reads(s.value.test, signs, ground) | set(ctrl), "status"))
                elif rd:
                    self.obligations.append((f"returned status {ast.unparse(s.value)[:40]}", s.lineno, rd | set(ctrl), "status"))
            return
        if isinstance(s, (ast.Break, ast.Continue, ast.Pass)):
            return
        self.problems.append(f"unmodelled statement {type(s).__name__} at line {s.lineno}")


def _event_bit(prog: Program, b: str) -> int:
    return {"MIN": prog.C("EVENT_MASK_MIN"), "MAX": prog.C("EVENT_MASK_MAX"), "GROUND": prog.C("EVENT_MASK_GROUND")}[b]


def rule_triggers(ctx: Ctx, prog: Program) -> None:
    ctx.rule("R-TRIGGERS")
    FULL = prog.C("EVENT_MASK_MIN_MAX")
    GROUND = prog.C("EVENT_MASK_GROUND")
    n_full = n_narrow = 0
    for i, c, t in propagator_triples(prog):
        ctx.fn(c.fq, t.fq)
        spec = trigger_spec(prog, t)
        if spec.problems:
            # an idiom the reader does not know is the analyser's problem, not a verdict on the code
            raise AnalysisError(f"{t.name}: the declared wake-up events cannot be read as a per-position mask ({spec.problems[0]})")
        everywhere = [mm for sg in sorted(SIGNS) for mm, _ in _mask_for(spec, "ALL", sg)] + [mm for sg in sorted(SIGNS) for mm, _ in _mask_for(spec, "COEF", sg)
                                                                                            if any(oc == "COEF" for oc, _, _ in spec.overrides)]
        if all(mm is not None and (mm & FULL) == FULL for mm in everywhere):
            n_full += 1
            ctx.ok("R-TRIGGERS", f"{c.name}: watches MIN and MAX of every variable (sufficient for any bound dependence)", nontrivial=False)
            continue
        # narrow triggers: the filtering function's dependences must be covered
        n_narrow += 1
        da = DepAnalysis(prog, c)
        da.run()
        if (da.problems or da.inlined) and c.name in KNOWN_NARROW:
            why = (da.problems or [f"calls {sorted(da.inlined)}"])[0]
            raise AnalysisError(f"{c.name}: its triggers are narrower than MIN|MAX (as on the pinned tree) but its bound dependences can no longer be derived ({why})")
        if da.problems or da.inlined:
            why = (da.problems or [f"calls {sorted(da.inlined)}"])[0]
            ctx.violation("R-TRIGGERS", c.path, c.name, "narrow-triggers-unanalysable", t.loc(),
                          f"{t.name} declares fewer events than MIN|MAX for some variable, but the bound dependences of {c.name} cannot be derived ({why}): "
                          "a bound change it does not watch may enable pruning or a failure")
            continue
        bad: List[str] = []
        n_ob = 0
        for desc, line, deps, kind in da.obligations:
            for cls, b, signs, row in sorted(deps, key=repr):
                for sg in sorted(signs if cls == "COEF" else {"pos"}):
                    m = _mask_for(spec, cls, sg)
                    n_ob += 1
                    for mm, where in m:
                        if mm is None or not (mm & _event_bit(prog, b)):
                            bad.append(f"{desc} (line {line}) depends on the {b} of {_cls_name(cls)}"
                                       + (f" when its coefficient is {_sg(sg)}" if cls == "COEF" else "")
                                       + f", but {t.name} gives {where} the mask {mm}")
        if bad and da.selectors and any(oc == "COEF" for oc, _, _ in spec.overrides):
            # (only where the declared events depend on the sign of a coefficient can a run-time selection make the derived dependence too coarse)
            raise AnalysisError(f"{c.name}: its triggers are narrower than MIN|MAX but its bound dependences can no longer be derived exactly: at line "
                                f"{da.selectors[0]} a min/max/abs/where-like call selects between the two bounds of a variable by run-time values "
                                f"(derived may-dependence: {bad[0]})")
        if bad:
            ctx.violation("R-TRIGGERS", t.path, t.name, f"insufficient:{c.name}", t.loc(),
                          f"wake-up events of {c.name} are not sufficient: {bad[0]}" + (f" (+{len(set(bad)) - 1} more)" if len(set(bad)) > 1 else ""))
        else:
            ctx.ok("R-TRIGGERS", f"{c.name}: every bound its stores / failure tests depend on is watched ({n_ob} dependences, {len(da.obligations)} sites)",
                   sample={"default": spec.default, "overrides": [(a, sorted(b_), m) for a, b_, m in spec.overrides],
                           "dependences": sorted({f"{cls}.{b}{'/' + ','.join(sorted(sg)) if cls == 'COEF' else ''}" for _, _, deps, _ in da.obligations for cls, b, sg, _ in deps})})
    ctx.floor("R-TRIGGERS:propagators-with-full-mask", n_full, 12)
    ctx.floor("R-TRIGGERS:propagators-with-narrow-mask", n_narrow, 5)
    ctx.assume("entailment guards are monotone (a watched-or-unwatched bound change never invalidates an earlier 'entailed'); C07's undecided half")


def _mask_for(spec: TriggerSpec, cls: str, sign: str) -> List[Tuple[Optional[int], str]]:
    """Masks of every position a dependence on class `cls` may refer to."""
    position_sets = {
        "ALL": ["FIRST", "MIDDLE", "LAST"], "COEF": ["COEF"], "ALL_BUT_LAST": ["FIRST", "MIDDLE"], "ALL_BUT_LAST2": ["FIRST", "MIDDLE"],
        "LAST": ["LAST"], "LAST2": ["MIDDLE"], "FIRST": ["FIRST"], "SECOND": ["MIDDLE"], "FIRST_HALF": ["FIRST", "MIDDLE"], "SECOND_HALF": ["MIDDLE", "LAST"],
    }
    out = []
    for p in position_sets.get(cls, ["FIRST", "MIDDLE", "LAST"]):
        m = spec.default
        for oc, signs, v in spec.overrides:
            if (oc == p or oc in ("ALL",) or (oc == "COEF")) and (oc != "COEF" or sign in signs):
                m = v
        out.append((m, {"FIRST": "the first variable", "MIDDLE": "the inner variables", "LAST": "the last variable", "COEF": "that variable"}[p]))
    return out


def _cls_name(cls: str) -> str:
    return {"ALL": "a variable", "COEF": "a variable", "ALL_BUT_LAST": "a variable other than the last", "LAST": "the last variable", "FIRST": "the first variable"}.get(cls, cls)


def _sg(s: str) -> str:
    return {"neg": "negative", "zero": "zero", "pos": "positive"}[s]


# ------------------------------------------------------------------ R-ENFORCE-ENTAIL
def _bound_ref(prog: Program, fn: FuncInfo, e: ast.expr) -> Optional[Tuple[str, str]]:
    """(row expression text, 'MIN'|'MAX') for a subscript like x[q, MAX] / y[MIN]."""
    if not isinstance(e, ast.Subscript):
        return None
    sl = e.slice
    elts = list(sl.elts) if isinstance(sl, ast.Tuple) else [sl]
    last = elts[-1]
    v = prog.fold(fn.module, last)
    if v not in (prog.C("MIN"), prog.C("MAX")) or not isinstance(last, (ast.Name, ast.Constant)):
        return None
    row = ast.unparse(e.value) + "[" + ", ".join(ast.unparse(x) for x in elts[:-1]) + "]"
    return row, ("MIN" if v == prog.C("MIN") else "MAX")


def _plus_const(e: ast.expr) -> Tuple[ast.expr, int]:
    if isinstance(e, ast.BinOp) and isinstance(e.op, (ast.Add, ast.Sub)) and isinstance(e.right, ast.Constant) and isinstance(e.right.value, int):
        return e.left, (e.right.value if isinstance(e.op, ast.Add) else -e.right.value)
    return e, 0


def _plus_offset(e: ast.expr) -> Optional[Tuple[ast.expr, int, Tuple[Tuple[str, int], ...]]]:
    """e as  <one subscript> + integer + signed names  ->  (subscript, integer, ((name, coefficient), ...)); None when e has another shape."""
    base: List[ast.expr] = []
    k = [0]
    sym: Dict[str, int] = {}

    def go(x: ast.expr, sg: int) -> bool:
        if isinstance(x, ast.BinOp) and isinstance(x.op, ast.Add):
            return go(x.left, sg) and go(x.right, sg)
        if isinstance(x, ast.BinOp) and isinstance(x.op, ast.Sub):
            return go(x.left, sg) and go(x.right, -sg)
        if isinstance(x, ast.UnaryOp) and isinstance(x.op, ast.USub):
            return go(x.operand, -sg)
        if isinstance(x, ast.Constant) and isinstance(x.value, int) and not isinstance(x.value, bool):
            k[0] += sg * x.value
            return True
        if isinstance(x, ast.Name):
            sym[x.id] = sym.get(x.id, 0) + sg
            return True
        if isinstance(x, ast.Subscript) and sg == 1 and not base:
            base.append(x)
            return True
        return False

    if not go(e, 1) or len(base) != 1:
        return None
    return base[0], k[0], tuple(sorted((n, c) for n, c in sym.items() if c))


def _show_off(k: int, sym: Tuple[Tuple[str, int], ...]) -> str:
    parts = [str(k)] if (k or not sym) else []
    for n, c in sym:
        parts.append(("" if c == 1 else "-" if c == -1 else f"{c}*") + n)
    return " + ".join(parts).replace("+ -", "- ")


def rule_enforce_entail(ctx: Ctx, prog: Program) -> None:
    """A block that enforces  a + k <= b  on two variables (a.MAX = min(a.MAX, b.MAX - k); b.MIN = max(b.MIN, a.MIN + k)) and then answers
    'entailed' on a comparison of a.MAX with b.MIN states two beliefs about the same relation; they must agree: the relation holds on the
    whole box iff a.MAX + k <= b.MIN.  `a.MAX <= b.MIN` after enforcing the strict relation (k = 1) declares entailment while a = b is
    still possible.  (Contradiction between two beliefs in one block: no per-constraint specification is consulted.)"""
    ctx.rule("R-ENFORCE-ENTAIL")
    PE = "PROP_ENTAILMENT"
    n = 0
    seen_fns: Set[str] = set()
    work: List[FuncInfo] = [c for _, c, _ in propagator_triples(prog)]
    while work:
        fn = work.pop()
        if fn.fq in seen_fns:
            continue
        seen_fns.add(fn.fq)
        for node in ast.walk(fn.node):
            if isinstance(node, ast.Call) and isinstance(node.func, ast.Name):
                r = prog.resolve(fn.module, node.func.id)
                if r and r[0] == "func" and r[1].module == fn.module:
                    work.append(r[1])
        blocks: List[List[ast.stmt]] = []
        for node in ast.walk(fn.node):
            for attr in ("body", "orelse"):
                b = getattr(node, attr, None)
                if isinstance(b, list) and b and isinstance(b[0], ast.stmt):
                    blocks.append(b)
        for block in blocks:
            enforced: Dict[Tuple[str, str], Any] = {}  # (a row, b row) -> (k, symbolic part, line)  from  a.MAX = min(a.MAX, b.MAX - k)
            enforced2: Dict[Tuple[str, str], Any] = {}  # from b.MIN = max(b.MIN, a.MIN + k)
            for s in block:
                if isinstance(s, ast.Assign) and len(s.targets) == 1 and isinstance(s.value, ast.Call) and isinstance(s.value.func, ast.Name) \
                        and s.value.func.id in ("min", "max") and len(s.value.args) == 2:
                    tgt = _bound_ref(prog, fn, s.targets[0])
                    if tgt is None:
                        continue
                    args = s.value.args
                    other = [a for a in args if ast.unparse(a) != ast.unparse(s.targets[0])]
                    if len(other) != 1:
                        continue
                    po = _plus_offset(other[0])
                    if po is None:
                        continue
                    base, k, sym = po
                    ob = _bound_ref(prog, fn, base)
                    if ob is None:
                        continue
                    if s.value.func.id == "min" and tgt[1] == "MAX" and ob[1] == "MAX":
                        enforced[(tgt[0], ob[0])] = (-k, tuple((n_, -c_) for n_, c_ in sym), s.lineno)  # a.MAX <= b.MAX - k'
                    if s.value.func.id == "max" and tgt[1] == "MIN" and ob[1] == "MIN":
                        enforced2[(ob[0], tgt[0])] = (k, sym, s.lineno)  # b.MIN >= a.MIN + k
                    for pair in set(enforced) & set(enforced2):
                        e1, e2 = enforced[pair], enforced2[pair]
                        if s.lineno != max(e1[2], e2[2]):
                            continue
                        if (e1[0], e1[1]) == (e2[0], e2[1]):
                            ctx.ok("R-ENFORCE-ENTAIL", f"{fn.name}: both halves enforce {pair[0]} + {_show_off(e1[0], e1[1])} <= {pair[1]}", sample={"line": s.lineno})
                        else:
                            ctx.violation("R-ENFORCE-ENTAIL", fn.path, fn.name, f"enforce-halves-disagree:{pair[0]}:{pair[1]}", f"{fn.path}:{s.lineno}",
                                          f"{fn.name}: this block lowers {pair[0]}.max to {pair[1]}.max - ({_show_off(e1[0], e1[1])}) but raises {pair[1]}.min only to "
                                          f"{pair[0]}.min + ({_show_off(e2[0], e2[1])}): the two stores are the two halves of one ordering a + k <= b and must "
                                          "use the same k; the weaker half leaves a bound without support in a pass that reports 'consistent'")
                tests: List[Tuple[ast.expr, int]] = []
                if isinstance(s, ast.Return) and isinstance(s.value, ast.IfExp) and isinstance(s.value.body, ast.Name) and s.value.body.id == PE:
                    tests.append((s.value.test, s.lineno))
                # the same through a local:  r = ENTAILMENT if cond else CONSISTENCY ; return r
                if isinstance(s, ast.Assign) and len(s.targets) == 1 and isinstance(s.targets[0], ast.Name) and isinstance(s.value, ast.IfExp) \
                        and isinstance(s.value.body, ast.Name) and s.value.body.id == PE \
                        and any(isinstance(x, ast.Return) and isinstance(x.value, ast.Name) and x.value.id == s.targets[0].id for x in block):
                    tests.append((s.value.test, s.lineno))
                if isinstance(s, ast.If) and any(isinstance(x, ast.Return) and isinstance(x.value, ast.Name) and x.value.id == PE for x in s.body):
                    tests.append((s.test, s.lineno))
                for t, line in tests:
                    if not (isinstance(t, ast.Compare) and len(t.ops) == 1):
                        continue
                    pl, pr = _plus_offset(t.left), _plus_offset(t.comparators[0])
                    if pl is None or pr is None:
                        continue
                    l, r_ = _bound_ref(prog, fn, pl[0]), _bound_ref(prog, fn, pr[0])
                    if l is None or r_ is None:
                        continue
                    op = type(t.ops[0])
                    # offsets of the test:  (left cell + dl) op (right cell + dr)
                    dk = pl[1] - pr[1]
                    dsym_d: Dict[str, int] = {}
                    for n_, c_ in pl[2]:
                        dsym_d[n_] = dsym_d.get(n_, 0) + c_
                    for n_, c_ in pr[2]:
                        dsym_d[n_] = dsym_d.get(n_, 0) - c_
                    dsym = tuple(sorted((n_, c_) for n_, c_ in dsym_d.items() if c_))
                    # normalise to  a.MAX (op) b.MIN
                    if l[1] == "MAX" and r_[1] == "MIN" and op in (ast.Lt, ast.LtE):
                        a, b, strict = l[0], r_[0], op is ast.Lt  # a.MAX + d (op) b.MIN
                        gk, gsym = dk, dsym
                    elif l[1] == "MIN" and r_[1] == "MAX" and op in (ast.Gt, ast.GtE):
                        a, b, strict = r_[0], l[0], op is ast.Gt  # b.MIN + d (op) a.MAX, i.e. a.MAX - d (op') b.MIN
                        gk, gsym = -dk, tuple((n_, -c_) for n_, c_ in dsym)
                    else:
                        continue
                    es = [d[(a, b)] for d in (enforced, enforced2) if (a, b) in d]
                    if not es:
                        continue
                    n += 1
                    guaranteed = gk + (1 if strict else 0)  # the test establishes a.MAX + guaranteed (+ gsym) <= b.MIN
                    syms = {e_[1] for e_ in es}
                    if len(syms) != 1 or next(iter(syms)) != gsym:
                        if len(syms) == 1:
                            ctx.violation("R-ENFORCE-ENTAIL", fn.path, fn.name, f"entail-weaker-than-enforced:{a}:{b}", f"{fn.path}:{line}",
                                          f"{fn.name} enforces {a} + ({_show_off(es[0][0], es[0][1])}) <= {b} in this block but answers 'entailed' under {ast.unparse(t)}, "
                                          f"which establishes {a}.max + ({_show_off(guaranteed, gsym)}) <= {b}.min: the two offsets differ by a quantity that is not a constant")
                        continue  # the halves disagree (reported above)
                    k = max(e_[0] for e_ in es)
                    if guaranteed >= k:
                        ctx.ok("R-ENFORCE-ENTAIL", f"{fn.name}: enforces {a} + {k} <= {b}, entailed under {ast.unparse(t)}", sample={"line": line, "k": k})
                    else:
                        ctx.violation("R-ENFORCE-ENTAIL", fn.path, fn.name, f"entail-weaker-than-enforced:{a}:{b}", f"{fn.path}:{line}",
                                      f"{fn.name} enforces {a} + {k} <= {b} in this block but answers 'entailed' as soon as {ast.unparse(t)}: with "
                                      f"{a}.max == {b}.min the box still contains tuples violating the relation it has just enforced; the constraint is "
                                      "then disabled for the subtree and violating assignments are reported")
    ctx.floor("R-ENFORCE-ENTAIL:blocks", n, 4)


# ------------------------------------------------------------------ R-MIRROR-ENTAIL
class _Mirror(ast.NodeTransformer):
    """Value negation v -> -v: MIN <-> MAX, min <-> max, < <-> >, <= <-> >=, +k <-> -k."""

    SW = {"MIN": "MAX", "MAX": "MIN", "min": "max", "max": "min"}

    def visit_Name(self, n: ast.Name):
        return ast.copy_location(ast.Name(id=self.SW.get(n.id, n.id), ctx=n.ctx), n)

    def visit_Attribute(self, n: ast.Attribute):
        self.generic_visit(n)
        return ast.copy_location(ast.Attribute(value=n.value, attr=self.SW.get(n.attr, n.attr), ctx=n.ctx), n)

    def visit_Compare(self, n: ast.Compare):
        self.generic_visit(n)
        flip = {ast.Lt: ast.Gt, ast.Gt: ast.Lt, ast.LtE: ast.GtE, ast.GtE: ast.LtE}
        n.ops = [flip.get(type(o), type(o))() for o in n.ops]
        return n

    def visit_BinOp(self, n: ast.BinOp):
        self.generic_visit(n)
        if isinstance(n.op, (ast.Add, ast.Sub)) and isinstance(n.right, ast.Constant) and isinstance(n.right.value, int):
            n.op = ast.Sub() if isinstance(n.op, ast.Add) else ast.Add()
        return n


def _canon_cmp(e: ast.expr) -> str:
    """Text of a comparison with a canonical direction (a > b written b < a, a >= b written b <= a)."""
    if isinstance(e, ast.Compare) and len(e.ops) == 1:
        l, r, op = e.left, e.comparators[0], type(e.ops[0])
        if op in (ast.Gt, ast.GtE):
            l, r = r, l
            op = ast.Lt if op is ast.Gt else ast.LtE
        sym = {ast.Lt: "<", ast.LtE: "<=", ast.Eq: "==", ast.NotEq: "!="}.get(op, op.__name__)
        a, b = ast.unparse(l), ast.unparse(r)
        if sym in ("==", "!=") and b < a:
            a, b = b, a
        return f"{a} {sym} {b}"
    if isinstance(e, ast.BoolOp):
        return (" and " if isinstance(e.op, ast.And) else " or ").join(sorted(_canon_cmp(v) for v in e.values))
    return ast.unparse(e)


def _positional(fn: FuncInfo, e: ast.expr) -> ast.expr:
    """The expression with the function's own naming removed: locals bound once to an expression are replaced by it (x = domains[:-1]),
    parameters by their position."""
    once: Dict[str, ast.expr] = {}
    counts: Dict[str, int] = {}
    for n in ast.walk(fn.node):
        tg = []
        if isinstance(n, ast.Assign):
            tg = n.targets
        elif isinstance(n, (ast.AugAssign, ast.AnnAssign, ast.For)):
            tg = [n.target]
        for t in tg:
            for x in (t.elts if isinstance(t, (ast.Tuple, ast.List)) else [t]):
                if isinstance(x, ast.Name):  # (a store through a subscript does not re-bind the name)
                    counts[x.id] = counts.get(x.id, 0) + 1
        if isinstance(n, ast.Assign) and len(n.targets) == 1 and isinstance(n.targets[0], ast.Name):
            once[n.targets[0].id] = n.value
    once = {k: v for k, v in once.items() if counts.get(k) == 1 and k not in fn.params}
    pos = {p_: f"P{i}" for i, p_ in enumerate(fn.params)}

    class Sub(ast.NodeTransformer):
        def __init__(self) -> None:
            self.depth = 0

        def visit_Name(self, n: ast.Name):
            if n.id in once and self.depth < 6:
                self.depth += 1
                r = self.visit(ast.parse(ast.unparse(once[n.id]), mode="eval").body)
                self.depth -= 1
                return r
            if n.id in pos:
                return ast.copy_location(ast.Name(id=pos[n.id], ctx=n.ctx), n)
            return n

    return Sub().visit(ast.parse(ast.unparse(e), mode="eval").body)


def _entail_guards(fn: FuncInfo) -> List[ast.expr]:
    return [_positional(fn, g) for g in _entail_guards_raw(fn)]


def _entail_guards_raw(fn: FuncInfo) -> List[ast.expr]:
    out = []
    for n in ast.walk(fn.node):
        if isinstance(n, ast.If) and any(isinstance(x, ast.Return) and isinstance(x.value, ast.Name) and x.value.id == "PROP_ENTAILMENT" for x in n.body):
            out.append(n.test)
        if isinstance(n, ast.Return) and isinstance(n.value, ast.IfExp) and isinstance(n.value.body, ast.Name) and n.value.body.id == "PROP_ENTAILMENT":
            out.append(n.value.test)
    return out


def rule_mirror_entail(ctx: Ctx, prog: Program) -> None:
    """Sibling propagators that are each other's image under value negation (max_leq / min_geq) must declare entailment under mirrored
    conditions.  The check knows nothing about the constraints: it compares the two guards after mirroring one (MIN<->MAX, min<->max,
    <= <-> >=).  A disagreement means one of the two is wrong (which one is not decided here)."""
    ctx.rule("R-MIRROR-ENTAIL")
    by_name = {c.name: c for _, c, _ in propagator_triples(prog)}
    pairs = []
    for nm, f in by_name.items():
        if "_max_" in nm:
            other = nm.replace("_max_", "_min_").replace("_leq", "_GEQ").replace("_geq", "_leq").replace("_GEQ", "_geq")
            if other in by_name:
                pairs.append((f, by_name[other]))
    n = 0
    for a, b in pairs:
        ga = sorted(_canon_cmp(g) for g in _entail_guards(a))
        gb = sorted(_canon_cmp(_Mirror().visit(ast.parse(ast.unparse(g), mode="eval").body)) for g in _entail_guards(b))
        if not ga and not gb:
            continue
        n += 1
        ctx.fn(a.fq, b.fq)
        if ga == gb:
            ctx.ok("R-MIRROR-ENTAIL", f"{a.name} / {b.name}: entailment guards are mirror images", sample={"guard": ga, "mirrored sibling": gb})
        else:
            ctx.violation("R-MIRROR-ENTAIL", b.path, f"{a.name}/{b.name}", "entailment-guards-differ", b.loc(),
                          f"{a.name} declares entailment under {ga} but its mirror image {b.name} under {sorted(_canon_cmp(g) for g in _entail_guards(b))} "
                          f"(= {gb} after mirroring MIN<->MAX, min<->max, <= <-> >=): the two are the same constraint up to negation of the values, "
                          "so one of the guards declares entailment on boxes that still contain violating tuples (or never declares it)")
    ctx.floor("R-MIRROR-ENTAIL:pairs", n, 1)


# ------------------------------------------------------------------------------------------ R-ENTAIL-GUARD
def _unit_step(st: ast.stmt) -> Optional[Tuple[str, int]]:
    """(name, +1 / -1) for  n += 1, n -= 1, n = n + 1, n = n - 1, n = 1 + n"""
    if isinstance(st, ast.AugAssign) and isinstance(st.target, ast.Name) and isinstance(st.op, (ast.Add, ast.Sub)) \
            and isinstance(st.value, ast.Constant) and st.value.value == 1:
        return st.target.id, (1 if isinstance(st.op, ast.Add) else -1)
    if isinstance(st, ast.Assign) and len(st.targets) == 1 and isinstance(st.targets[0], ast.Name) and isinstance(st.value, ast.BinOp) \
            and isinstance(st.value.op, (ast.Add, ast.Sub)):
        nm = st.targets[0].id
        l, r = st.value.left, st.value.right
        if isinstance(l, ast.Name) and l.id == nm and isinstance(r, ast.Constant) and r.value == 1:
            return nm, (1 if isinstance(st.value.op, ast.Add) else -1)
        if isinstance(st.value.op, ast.Add) and isinstance(r, ast.Name) and r.id == nm and isinstance(l, ast.Constant) and l.value == 1:
            return nm, 1
    return None


def _loops_in(trace) -> List[LoopSummary]:
    out: List[LoopSummary] = []

    def rec(evs):
        for e in evs:
            if e.kind in ("loop", "iter") and e.loop is not None and e.loop not in out:
                out.append(e.loop)
                for bp in e.loop.paths:
                    rec(bp.events)
    rec(trace)
    return out


def _cell_rows(x: Any, dom: str, acc: List[Aff]) -> None:
    """Rows of `dom` whose cells occur (at any depth) in the abstract value / atom x."""
    if isinstance(x, Aff):
        for a in x.atoms():
            _cell_rows(a, dom, acc)
    elif isinstance(x, tuple):
        if len(x) >= 3 and x[0] in ("init", "hav"):
            root, idx = (x[1], x[2]) if x[0] == "init" else (x[2], x[3]) if len(x) >= 4 else (None, ())
            if root == dom and isinstance(idx, tuple) and len(idx) == 2 and isinstance(idx[0], Aff) and idx[0].is_const():
                if idx[0] not in acc:
                    acc.append(idx[0])
                return
        for y in x:
            _cell_rows(y, dom, acc)


def _store_may_hit_row(st: Any, e: Any, dom: str, row: Aff, fn_node: Optional[ast.AST] = None) -> bool:
    """May the store event e (into `dom`) write a cell of the given constant row?"""
    if not e.idx or not isinstance(e.idx[0], Aff):
        return True
    r0 = e.idx[0]
    if r0.is_const():
        if r0.c == row.c:
            return True
        return (r0.c < 0) != (row.c < 0)  # one counted from the end, the other from the start: not decided here
    # a symbolic row reached through a view that excludes the tail of the array (x = dom[:-k]; x[j] = ... or y = x[j]; y[:] = ...) never
    # is one of the last k rows
    once: Dict[str, ast.expr] = {}
    if fn_node is not None:
        cnt: Dict[str, int] = {}
        for n in ast.walk(fn_node):
            if isinstance(n, ast.Assign) and len(n.targets) == 1 and isinstance(n.targets[0], ast.Name):
                cnt[n.targets[0].id] = cnt.get(n.targets[0].id, 0) + 1
                once[n.targets[0].id] = n.value
        once = {k: v for k, v in once.items() if cnt[k] == 1}

    def excluded_tail(name: str, depth: int = 0) -> int:
        v = st.env.get(name)
        if isinstance(v, View) and v.root == dom and len(v.idx) == 1 and isinstance(v.idx[0], tuple) and v.idx[0][0] == "slice":
            hi = v.idx[0][2]
            if isinstance(hi, Aff) and hi.is_const() and hi.c < 0:
                return -hi.c
        src = once.get(name)
        if depth < 4 and isinstance(src, ast.Subscript):
            b = src.value
            while isinstance(b, ast.Subscript):
                b = b.value
            if isinstance(b, ast.Name):
                return excluded_tail(b.id, depth + 1)
        return 0

    tgt = e.node.targets[0] if isinstance(e.node, ast.Assign) and len(e.node.targets) == 1 else getattr(e.node, "target", None)
    while isinstance(tgt, ast.Subscript) and not isinstance(tgt.value, ast.Name):
        tgt = tgt.value
    if isinstance(tgt, ast.Subscript) and isinstance(tgt.value, ast.Name):
        k = excluded_tail(tgt.value.id)
        if k and row.c < 0 and row.c >= -k:
            return False
    return True


def _ground_at_some_point(it: Interp, r: Any, dom: str, row: Aff, MIN: int, MAX: int, fn_node: Optional[ast.AST] = None) -> bool:
    """The path establishes that row `row` of `dom` is a single value at some point after which nothing writes that row."""
    st = r.state
    evs = st.trace
    last_hit = 0
    for e in evs:
        if e.kind == "store" and e.root == dom and _store_may_hit_row(st, e, dom, row, fn_node):
            last_hit = max(last_hit, e.hpos + 1)
    seen = set()
    for pos in [len(st.heap)] + sorted({e.hpos for e in evs if e.hpos >= last_hit}, reverse=True):
        if pos in seen or pos < last_hit:
            continue
        seen.add(pos)
        lo = it.scalar(st, it.load_at(st, pos, dom, (row, K(MIN))))
        hi = it.scalar(st, it.load_at(st, pos, dom, (row, K(MAX))))
        if isinstance(lo, Aff) and isinstance(hi, Aff) and st.facts.decide(cmp_cond("==", lo, hi)) is True:
            return True
    return False


def rule_entail_guard(ctx: Ctx, prog: Program) -> None:
    """Three families of sibling filtering functions answer 'entailed' under the same kind of condition; the condition is read off the
    siblings and demanded of every 'entailed' path of every member (as an entailment of the path's facts, so an equivalent rewriting of the
    test is accepted and a weakened one -- a further disjunct -- is not):
      index family   (a scan `for idx in range(<cells of ONE row of the domains>)`, the element constraints): the box can only be entirely
                     inside the relation l[i] = v when the index variable is instantiated -- its stored MIN equals its stored MAX at the return;
      counter family (a scan that counts down the variables that cannot take the value and counts up those that must, count_eq / exactly_*):
                     the count is decided only when no variable is left undecided -- the two counters are equal at the return;
      table family   (a loop-carried array filtered from the parameters, the relation constraint): the bounding box of the remaining rows is
                     the relation only when one row is left -- its length is 1 at the return.
    Filtering functions outside the three families are not concerned (the inequality families are the business of R-ENFORCE-ENTAIL /
    R-MIRROR-ENTAIL)."""
    ctx.rule("R-ENTAIL-GUARD")
    PE = prog.C("PROP_ENTAILMENT")
    MIN, MAX = prog.C("MIN"), prog.C("MAX")
    n_fam = {"index": 0, "counter": 0, "table": 0}
    for _, fn, _ in propagator_triples(prog):
        # only the filtering functions that name PROP_ENTAILMENT in their own body are concerned (the others are not interpreted here)
        if not any(isinstance(n, ast.Name) and n.id == "PROP_ENTAILMENT" for n in ast.walk(fn.node)):
            continue
        it = Interp(prog)
        it.invariants = True  # cursors of a scan keep their order (needed to tell the scanned rows from the index row)
        try:
            res = it.run(fn)
        except AnalysisError:
            continue
        ent = [r for r in res if r.outcome == "return" and isinstance(it.scalar(r.state, r.value), Aff) and it.scalar(r.state, r.value) == K(PE)]
        if not ent:
            continue
        dom = fn.params[0]
        loops: List[LoopSummary] = []
        for r in res:
            for l in _loops_in(r.state.trace):
                if l not in loops and l.fn == fn.fq:
                    loops.append(l)
        # ---- family detection
        rows: List[Aff] = []
        for l in loops:
            rv = l.iter_value
            if l.kind == "for" and rv.__class__.__name__ == "RangeVal":
                _cell_rows(rv.start, dom, rows)
                _cell_rows(rv.stop, dom, rows)
        counters: Optional[Tuple[str, str]] = None
        for node in ast.walk(fn.node):
            if isinstance(node, ast.For):
                steps = [_unit_step(n) for n in ast.walk(node) if isinstance(n, ast.stmt)]
                ups = {s_[0] for s_ in steps if s_ and s_[1] == 1}
                downs = {s_[0] for s_ in steps if s_ and s_[1] == -1}
                if len(ups) == 1 and len(downs) == 1 and ups != downs and counters is None:
                    counters = (next(iter(ups)), next(iter(downs)))
        tables: List[str] = []
        for l in loops:
            for nm in l.assigned:
                pv = as_view(l.pre_env.get(nm))
                if isinstance(pv, View) and pv.root != dom and not pv.root.startswith(dom) and nm not in tables and nm not in fn.params:
                    tables.append(nm)
        fam = "index" if len(rows) == 1 else "counter" if counters else "table" if len(tables) == 1 else None
        if fam is None:
            ctx.undecided_site("R-ENTAIL-GUARD", fn.name, "answers 'entailed' but belongs to none of the index / counter / table families")
            continue
        ctx.fn(fn.fq)
        n_fam[fam] += 1
        bad_line = None
        extra_why = ""
        for r in ent:
            st = r.state
            f = st.facts
            if fam == "index":
                okk = _ground_at_some_point(it, r, dom, rows[0], MIN, MAX, fn.node)
                # a path that makes one variable's row a copy of another's (`l[i] = v`) enforces their equality: two variables that share
                # an interval are equal on the whole box only if that interval is a single value
                if okk:
                    for e_ in r.state.trace:
                        if e_.kind == "store" and e_.root == dom and e_.fn == fn.fq:
                            src_ = as_view(e_.value)
                            if isinstance(src_, View) and src_.root == dom and src_.idx and isinstance(src_.idx[0], Aff) and src_.idx[0].is_const() \
                                    and not (e_.idx and isinstance(e_.idx[0], Aff) and e_.idx[0] == src_.idx[0]):
                                if not _ground_at_some_point(it, r, dom, src_.idx[0], MIN, MAX, fn.node):
                                    okk = False
                                    extra_why = f" and that the variable whose row is copied into another's (row {show_val(src_.idx[0])}) is a single value"
            elif fam == "counter":
                a, b = counters  # type: ignore[misc]
                okk = a in st.env and b in st.env and f.decide(cmp_cond("==", it.scalar(st, st.env[a]), it.scalar(st, st.env[b]))) is True
            else:
                x = st.env.get(tables[0])
                okk = x is not None and f.decide(cmp_cond("<=", it.len_of(x, st), ONE)) is True
            if not okk:
                bad_line = next((e.line for e in reversed(r.events) if e.kind == "return"), fn.node.lineno)
                break
        what = {"index": f"the index variable (row {show_val(rows[0]) if rows else '?'} of the domains, whose bounds drive the scan) is instantiated",
                "counter": f"the two counters of the scan ({counters[0] if counters else '?'} counted up, {counters[1] if counters else '?'} counted down) are equal, i.e. no variable is left undecided",
                "table": f"one row of the filtered table `{tables[0] if tables else '?'}` is left"}[fam]
        if bad_line is None:
            ctx.ok("R-ENTAIL-GUARD", f"{fn.name} ({fam} family): every 'entailed' path entails that {what}", sample={"entailed_paths": len(ent)})
        else:
            ctx.violation("R-ENTAIL-GUARD", fn.path, fn.name, f"entailed-without:{fam}", f"{fn.path}:{bad_line}",
                          f"{fn.name} has a path that answers PROP_ENTAILMENT on which it is not established that {what}{extra_why}: the returned box can then "
                          "still contain tuples that violate the constraint, the engine disables the constraint for the whole subtree and those "
                          "tuples are accepted as solutions")
    ctx.floor("R-ENTAIL-GUARD:index-family", n_fam["index"], 3)
    ctx.floor("R-ENTAIL-GUARD:counter-family", n_fam["counter"], 3)
    ctx.floor("R-ENTAIL-GUARD:table-family", n_fam["table"], 1)


# ------------------------------------------------------------------------------------------ R-VECTOR-WIDTH
def rule_vector_width(ctx: Ctx, prog: Program) -> None:
    """The domains and parameters handed to a filtering function are 32-bit arrays.  Scalar arithmetic on their elements is carried out in
    64 bits by compiled code (and the results are compared / clipped before they are stored), but an element-wise operation between two
    such arrays stays in 32 bits and wraps: a sum of products like coefficients * domains[:, MAX] is then wrong as soon as one product
    reaches 2**31, the entailment / failure tests and the pruning formulas are fed wrapped values.  Rule: in a registered filtering
    function (and the helpers of its module) no +, -, * between two expressions that are both 32-bit array views of the arguments (an
    operand widened with .astype(np.int64) / np.int64(...) is fine)."""
    ctx.rule("R-VECTOR-WIDTH")
    n_fn = n_bad = 0
    seen: Set[str] = set()
    work: List[FuncInfo] = [c for _, c, _ in propagator_triples(prog)]
    while work:
        fn = work.pop()
        if fn.fq in seen:
            continue
        seen.add(fn.fq)
        n_fn += 1
        for node in ast.walk(fn.node):
            if isinstance(node, ast.Call) and isinstance(node.func, ast.Name):
                r = prog.resolve(fn.module, node.func.id)
                if r and r[0] == "func" and r[1].module == fn.module:
                    work.append(r[1])
        # abstract "32-bit array of the arguments, n dimensions" per local name (flow-insensitive: any binding counts)
        dims: Dict[str, int] = {}
        if len(fn.params) >= 2 and fn.name.startswith("compute_domains"):
            dims[fn.params[0]] = 2
            dims[fn.params[1]] = 1
        else:
            continue

        def nd(e: ast.expr) -> int:
            """number of dimensions of a 32-bit array view, 0 = scalar / unknown / widened"""
            if isinstance(e, ast.Name):
                return dims.get(e.id, 0)
            if isinstance(e, ast.Subscript):
                b = nd(e.value)
                if b == 0:
                    return 0
                idx = e.slice.elts if isinstance(e.slice, ast.Tuple) else [e.slice]
                drop = sum(1 for i in idx if not isinstance(i, ast.Slice))
                return max(0, b - drop)
            if isinstance(e, ast.BinOp) and isinstance(e.op, (ast.Add, ast.Sub, ast.Mult)):
                return max(nd(e.left), nd(e.right)) if nd(e.left) and nd(e.right) else 0
            if isinstance(e, ast.UnaryOp):
                return nd(e.operand)
            if isinstance(e, ast.Call):
                f = ast.unparse(e.func)
                if f in ("np.copy", "numpy.copy", "np.maximum", "np.minimum") and e.args:
                    return max(nd(a) for a in e.args)
                if isinstance(e.func, ast.Attribute) and e.func.attr == "copy":
                    return nd(e.func.value)
                return 0  # astype / np.int64 / reductions / anything else: not a 32-bit view any more (or a scalar)
            return 0

        for _ in range(3):
            for node in ast.walk(fn.node):
                if isinstance(node, ast.Assign) and len(node.targets) == 1 and isinstance(node.targets[0], ast.Name):
                    k = nd(node.value)
                    if k:
                        dims[node.targets[0].id] = max(dims.get(node.targets[0].id, 0), k)
        for node in ast.walk(fn.node):
            if isinstance(node, ast.BinOp) and isinstance(node.op, (ast.Add, ast.Sub, ast.Mult)) and nd(node.left) and nd(node.right):
                n_bad += 1
                ctx.violation("R-VECTOR-WIDTH", fn.path, fn.name, f"int32-elementwise:{type(node.op).__name__}", f"{fn.path}:{node.lineno}",
                              f"`{ast.unparse(node)[:90]}` in {fn.name} is an element-wise operation between two 32-bit array views of the arguments: it is "
                              "carried out in 32 bits and wraps (the scalar arithmetic it stands for is 64-bit in compiled code), so for large "
                              "coefficients or bounds the entailment and failure tests and the pruning formulas are fed wrapped values "
                              "(e.g. 70000 * x with x around 30675)")
    if not n_bad:
        ctx.ok("R-VECTOR-WIDTH", "no element-wise +, -, * between two 32-bit array views of the arguments in any filtering function", sample={"functions": n_fn})
    ctx.floor("R-VECTOR-WIDTH:filtering-functions", n_fn, 25)


# ------------------------------------------------------------------------------------------ R-SOLE-CANDIDATE
def rule_sole_candidate(ctx: Ctx, prog: Program) -> None:
    """The aggregate constraints max_i x_i = y / min_i x_i = y count, in one scan, the variables that can still be the aggregate and, when one
    is left, force it to take over a bound of y (`if candidates == 1: x[c, MIN] = y[MIN]`).  That is sound only if every variable *not*
    counted is unable to reach that bound, i.e. if the scan compares each variable with the very bound of y that is forced afterwards.
    Comparing with the other bound of y (`x[i, MAX] >= y[MAX]` while forcing y[MIN]) counts too few candidates: a variable that can still
    reach y[MIN] is overlooked, the 'sole' candidate is forced, and solutions in which another variable is the aggregate are removed.
    Rule (agreement of two statements of the same function, no specification consulted): the value the candidates are compared with occurs
    in the value the sole candidate is forced to."""
    ctx.rule("R-SOLE-CANDIDATE")
    n = 0
    for _, fn, _ in propagator_triples(prog):
        for loop in [x for x in fn.node.body if isinstance(x, ast.For)]:
            idx_names = {x.id for x in ast.walk(loop.target) if isinstance(x, ast.Name)}
            found = None
            # candidate blocks: the body of `if T:` -- or what follows `if not T: continue` in the same block
            cands: List[Tuple[ast.If, ast.Compare, List[ast.stmt]]] = []
            for node in ast.walk(loop):
                for blk in [getattr(node, a_, None) for a_ in ("body", "orelse")]:
                    if not (isinstance(blk, list) and blk and isinstance(blk[0], ast.stmt)):
                        continue
                    for k_, st_ in enumerate(blk):
                        if not isinstance(st_, ast.If):
                            continue
                        t_ = st_.test
                        neg = False
                        while isinstance(t_, ast.UnaryOp) and isinstance(t_.op, ast.Not):
                            t_, neg = t_.operand, not neg
                        if not (isinstance(t_, ast.Compare) and len(t_.ops) == 1):
                            continue
                        if not st_.orelse and len(st_.body) == 1 and isinstance(st_.body[0], ast.Continue):
                            cands.append((st_, t_, blk[k_ + 1:]))  # (only the operands of the test are used below, not its direction)
                        elif not neg:
                            cands.append((st_, t_, st_.body))
            for node, cmp_, stmts_ in cands:
                ups = [_unit_step(s_)[0] for s_ in stmts_ if _unit_step(s_) and _unit_step(s_)[1] == 1]
                recs = [s_.targets[0].id for s_ in stmts_ if isinstance(s_, ast.Assign) and len(s_.targets) == 1 and isinstance(s_.targets[0], ast.Name)
                        and isinstance(s_.value, ast.Name) and s_.value.id in idx_names]
                if len(ups) == 1 and len(recs) == 1:
                    l_, r_ = cmp_.left, cmp_.comparators[0]
                    l_is = any(isinstance(x, ast.Name) and x.id in idx_names for x in ast.walk(l_))
                    r_is = any(isinstance(x, ast.Name) and x.id in idx_names for x in ast.walk(r_))
                    if l_is != r_is:
                        found = (ups[0], recs[0], r_ if l_is else l_, node)
            if found is None:
                continue
            counter, cand, T, test_node = found
            after = fn.node.body[fn.node.body.index(loop) + 1:]
            forced = []
            for st in after:
                if isinstance(st, ast.If) and isinstance(st.test, ast.Compare) and len(st.test.ops) == 1 and isinstance(st.test.ops[0], ast.Eq) \
                        and {ast.unparse(st.test.left), ast.unparse(st.test.comparators[0])} == {counter, "1"}:
                    for s_ in st.body:
                        if isinstance(s_, ast.Assign) and len(s_.targets) == 1 and isinstance(s_.targets[0], ast.Subscript) \
                                and any(isinstance(x, ast.Name) and x.id == cand for x in ast.walk(s_.targets[0].slice)):
                            forced.append(s_)
            if not forced:
                continue
            n += 1
            ctx.fn(fn.fq)
            # every scanned variable is examined: the counting test is not the `else` side of a branch that has just stored the cell it reads
            def _anc(stmts: List[ast.stmt], chain: List[Tuple[ast.If, str]]) -> Optional[List[Tuple[ast.If, str]]]:
                for st_ in stmts:
                    if st_ is test_node:
                        return chain
                    if isinstance(st_, ast.If):
                        for side in ("body", "orelse"):
                            r_ = _anc(getattr(st_, side), chain + [(st_, side)])
                            if r_ is not None:
                                return r_
                    elif isinstance(st_, (ast.For, ast.While)):
                        r_ = _anc(st_.body, chain)
                        if r_ is not None:
                            return r_
                return None
            chain = _anc(loop.body, []) or []
            read_cells = {ast.unparse(x) for x in ast.walk(test_node.test) if isinstance(x, ast.Subscript)}
            bypass = None
            for anc, side in chain:
                if side != "orelse":
                    continue
                for s_ in ast.walk(ast.Module(body=anc.body, type_ignores=[])):
                    if isinstance(s_, (ast.Assign, ast.AugAssign)):
                        for t_ in (s_.targets if isinstance(s_, ast.Assign) else [s_.target]):
                            if isinstance(t_, ast.Subscript) and ast.unparse(t_) in read_cells:
                                bypass = (anc, ast.unparse(t_))
            if bypass is not None:
                ctx.violation("R-SOLE-CANDIDATE", fn.path, fn.name, "candidate-test-bypassed", f"{fn.path}:{test_node.lineno}",
                              f"{fn.name}: the test that counts the candidates (`{ast.unparse(test_node.test)}`) is the else side of `if {ast.unparse(bypass[0].test)}`, "
                              f"whose branch has just stored `{bypass[1]}` - the very cell the test reads: a variable whose bound was cut in this execution is not "
                              "examined, too few candidates are counted, the 'sole' one is forced and solutions in which the other variable is the aggregate "
                              "are removed")
            else:
                ctx.ok("R-SOLE-CANDIDATE", f"{fn.name}: every scanned variable reaches the candidate test with its current bounds", nontrivial=False)
            t_txt = ast.unparse(_positional(fn, T))
            for s_ in forced:
                f_txts = {ast.unparse(x) for x in ast.walk(_positional(fn, s_.value)) if isinstance(x, ast.expr)}
                if t_txt in f_txts:
                    ctx.ok("R-SOLE-CANDIDATE", f"{fn.name}: the candidates are compared with the bound the sole candidate is forced to",
                           sample={"compared_with": ast.unparse(T), "forced_to": ast.unparse(s_.value)})
                else:
                    ctx.violation("R-SOLE-CANDIDATE", fn.path, fn.name, "test-and-forced-bound-differ", f"{fn.path}:{test_node.lineno}",
                                  f"{fn.name} counts as candidates the variables with `{ast.unparse(test_node.test)}` and, when one is left, forces "
                                  f"`{ast.unparse(s_.targets[0])} = {ast.unparse(s_.value)}`: the scan compares with `{ast.unparse(T)}`, the forced value is "
                                  f"`{ast.unparse(s_.value)}`.  A variable that can still reach `{ast.unparse(s_.value)}` but not `{ast.unparse(T)}` is not counted, "
                                  "the 'sole' candidate is forced and every solution in which the other variable is the aggregate is removed "
                                  "(e.g. max(x0, x1) = y on x0 in [0,5], x1 in [0,3], y in [2,5] loses (0,2,2), (1,3,3), ...)")
    ctx.floor("R-SOLE-CANDIDATE:aggregate-constraints", n, 2)


# ------------------------------------------------------------------------------------------ R-INTERVAL-SUM
def rule_interval_sum(ctx: Ctx, prog: Program) -> None:
    """Interval arithmetic over a signed coefficient: the smallest value of c * x is c * min(x) when c > 0 and c * max(x) otherwise (and the
    other way round for the greatest).  A scan that keeps two accumulators and branches on the sign of the coefficient states this four
    times; the four statements constrain each other: within one sign branch the two accumulators read the two *different* bounds of the
    variable, and each accumulator reads the *other* bound in the other sign branch.  A copy/paste slip (both accumulators reading MIN in one
    branch) breaks the symmetry; the accumulators then no longer bound the sum and the entailment / failure tests and pruning formulas
    derived from them are wrong.  No specification is consulted: the four statements contradict each other."""
    ctx.rule("R-INTERVAL-SUM")
    n = 0
    seen: Set[str] = set()
    work: List[FuncInfo] = [c for _, c, _ in propagator_triples(prog)]
    while work:
        fn = work.pop()
        if fn.fq in seen:
            continue
        seen.add(fn.fq)
        MIN, MAX = prog.C("MIN"), prog.C("MAX")

        def bound_name(e: ast.expr) -> Optional[str]:
            v = prog.fold(fn.module, e)
            return "MIN" if v == MIN and v is not NO else "MAX" if v == MAX and v is not NO else None

        def updates(stmts: List[ast.stmt]) -> Dict[str, Set[str]]:
            """accumulator name -> bounds of domain cells read in its update, for `acc -= / += ...` and `acc = acc - / + ...` statements"""
            out: Dict[str, Set[str]] = {}
            for st in stmts:
                tgt = None
                val: Optional[ast.expr] = None
                if isinstance(st, ast.AugAssign) and isinstance(st.target, ast.Name) and isinstance(st.op, (ast.Add, ast.Sub)):
                    tgt, val = st.target.id, st.value
                elif isinstance(st, ast.Assign) and len(st.targets) == 1 and isinstance(st.targets[0], ast.Name) and isinstance(st.value, ast.BinOp) \
                        and isinstance(st.value.op, (ast.Add, ast.Sub)) and isinstance(st.value.left, ast.Name) and st.value.left.id == st.targets[0].id:
                    tgt, val = st.targets[0].id, st.value.right
                if tgt is None or val is None:
                    continue
                bs = set()
                for x in ast.walk(val):
                    if isinstance(x, ast.Subscript) and isinstance(x.slice, ast.Tuple) and len(x.slice.elts) == 2:
                        b = bound_name(x.slice.elts[1])
                        if b:
                            bs.add(b)
                if bs:
                    out.setdefault(tgt, set()).update(bs)
            return out

        for loop in [x for x in ast.walk(fn.node) if isinstance(x, ast.For)]:
            for node in loop.body:
                if not (isinstance(node, ast.If) and node.orelse and not (len(node.orelse) == 1 and isinstance(node.orelse[0], ast.If))):
                    continue
                names = [x.id for x in ast.walk(loop.target) if isinstance(x, ast.Name)]
                if not any(_sign_of_test(node.test, nm) is not None for nm in names):
                    continue
                a, b = updates(node.body), updates(node.orelse)
                accs = sorted(set(a) & set(b))
                if len(accs) != 2 or any(len(a[x]) != 1 or len(b[x]) != 1 for x in accs):
                    continue
                n += 1
                ctx.fn(fn.fq)
                p, q = accs
                pa, qa, pb, qb = next(iter(a[p])), next(iter(a[q])), next(iter(b[p])), next(iter(b[q]))
                if pa != qa and pb != qb and pa != pb and qa != qb:
                    ctx.ok("R-INTERVAL-SUM", f"{fn.name}: the two accumulators read opposite bounds, swapped between the two signs of the coefficient",
                           sample={p: [pa, pb], q: [qa, qb], "line": node.lineno})
                else:
                    ctx.violation("R-INTERVAL-SUM", fn.path, fn.name, f"asymmetric:{p}:{q}", f"{fn.path}:{node.lineno}",
                                  f"{fn.name}: in the scan branching on the sign of the coefficient, `{p}` reads {pa} / {pb} and `{q}` reads {qa} / {qb} "
                                  "(positive / other branch): interval arithmetic needs the two accumulators to read opposite bounds in each branch and "
                                  "each to swap its bound between the branches; as written one accumulator no longer bounds the sum, so the test or "
                                  "the pruning derived from it is wrong (e.g. 'entailed' declared on a box that still contains violating tuples)")
    ctx.floor("R-INTERVAL-SUM:sign-branching-scans", n, 3)


# ------------------------------------------------------------------ R-AFFINE-BOUND
def _sign_scans(prog: Program, fn: FuncInfo):
    """The sign-branching accumulator scans of a function: [(for node, coefficient name, {acc: {'pos': bound, 'neg': bound}})]."""
    MIN, MAX = prog.C("MIN"), prog.C("MAX")

    def bound_name(e: ast.expr) -> Optional[str]:
        v = prog.fold(fn.module, e)
        return "MIN" if v == MIN and v is not NO else "MAX" if v == MAX and v is not NO else None

    def updates(stmts: List[ast.stmt]) -> Dict[str, Set[str]]:
        out: Dict[str, Set[str]] = {}
        for st in stmts:
            tgt = None
            val: Optional[ast.expr] = None
            if isinstance(st, ast.AugAssign) and isinstance(st.target, ast.Name) and isinstance(st.op, (ast.Add, ast.Sub)):
                tgt, val = st.target.id, st.value
            elif isinstance(st, ast.Assign) and len(st.targets) == 1 and isinstance(st.targets[0], ast.Name) and isinstance(st.value, ast.BinOp) \
                    and isinstance(st.value.op, (ast.Add, ast.Sub)) and isinstance(st.value.left, ast.Name) and st.value.left.id == st.targets[0].id:
                tgt, val = st.targets[0].id, st.value.right
            if tgt is None or val is None:
                continue
            bs = set()
            for x in ast.walk(val):
                if isinstance(x, ast.Subscript) and isinstance(x.slice, ast.Tuple) and len(x.slice.elts) == 2:
                    b = bound_name(x.slice.elts[1])
                    if b:
                        bs.add(b)
            if bs:
                out.setdefault(tgt, set()).update(bs)
        return out

    res = []
    for loop in [x for x in ast.walk(fn.node) if isinstance(x, ast.For)]:
        for node in loop.body:
            if not (isinstance(node, ast.If) and node.orelse and not (len(node.orelse) == 1 and isinstance(node.orelse[0], ast.If))):
                continue
            names = [x.id for x in ast.walk(loop.target) if isinstance(x, ast.Name)]
            cn = next((nm for nm in names if _sign_of_test(node.test, nm) is not None), None)
            if cn is None:
                continue
            sg = _sign_of_test(node.test, cn)
            a, b = updates(node.body), updates(node.orelse)
            accs = sorted(set(a) & set(b))
            if len(accs) != 2 or any(len(a[x]) != 1 or len(b[x]) != 1 for x in accs):
                continue
            tbl: Dict[str, Dict[str, str]] = {}
            for acc in accs:
                ba, bb = next(iter(a[acc])), next(iter(b[acc]))
                ent: Dict[str, str] = {}
                for s in sg[0]:
                    ent[s] = ba
                for s in sg[1]:
                    ent[s] = bb
                tbl[acc] = ent
            res.append((loop, cn, tbl))
    return res


class _Rnd:
    """A value as `base cells + sum of quotient terms`, each term (sign, numerator text with its own sign, divisor sign parity, rounding)."""
    __slots__ = ("cells", "quots", "other")

    def __init__(self):
        self.cells: List[Tuple[int, str, str]] = []   # (sign, row text, bound)
        self.quots: List[Tuple[int, str, int, bool]] = []   # (outer sign, accumulator name, sign of the real quotient relative to acc/c, rounded down?)
        self.other: List[str] = []


def rule_affine_bound(ctx: Ctx, prog: Program) -> None:
    """Bounds derived from a linear (in)equality by division.  In a filtering function that first scans its variables keeping two interval
    accumulators `A = k - sum(...)` (R-INTERVAL-SUM) and then stores, per variable, `cell <- base + A // c`, four beliefs meet and must agree:
      own-contribution  the accumulator has subtracted `c * x[i, B]` for this sign of c; the store adds that contribution back, so its base is
                        the same cell `x[i, B]` (a different bound gives a bound computed from a sum that still contains / lacks the variable);
      store-side        what `base + A / c` bounds is the *other* bound of the variable (from x.MIN upwards one derives a maximum);
      quotient-sign     the real value is `base + A / c` (each negation of numerator / divisor / term accounted for);
      rounding          an integer maximum derived from a rational one is its floor, an integer minimum its ceiling: `//` rounds down, so the
                        term must enter a MAX store with an even and a MIN store with an odd number of outer negations (rounding the other
                        way keeps a value the constraint excludes: on a box that is a single tuple the violation is then not rejected).
    No specification of the constraint is consulted: the statements of one function contradict each other.  A store whose value holds an
    accumulator under `//` but cannot be decomposed is an analysis error (exit 2), never a violation."""
    ctx.rule("R-AFFINE-BOUND")
    n_sites = 0
    for _, fn, _ in propagator_triples(prog):
        scans = _sign_scans(prog, fn)
        if not scans:
            continue
        acc_tbl: Dict[str, Dict[str, str]] = {}
        for _, _, tbl in scans:
            acc_tbl.update(tbl)
        # the domains parameter and its copies
        dom = fn.params[0] if fn.params else None
        copies: Set[str] = {dom} if dom else set()
        for st in ast.walk(fn.node):
            if isinstance(st, ast.Assign) and len(st.targets) == 1 and isinstance(st.targets[0], ast.Name) and isinstance(st.value, ast.Call):
                f = st.value.func
                nm = f.attr if isinstance(f, ast.Attribute) else f.id if isinstance(f, ast.Name) else ""
                if nm == "copy" and ((st.value.args and isinstance(st.value.args[0], ast.Name) and st.value.args[0].id in copies)
                                     or (isinstance(f, ast.Attribute) and isinstance(f.value, ast.Name) and f.value.id in copies)):
                    copies.add(st.targets[0].id)
        ctx.fn(fn.fq)

        def walk(stmts: List[ast.stmt], cn: Optional[str], signs: frozenset, env: Dict[str, ast.expr], ivar: Optional[str]) -> None:
            nonlocal n_sites
            env = dict(env)
            for k, st in enumerate(stmts):
                if isinstance(st, ast.For):
                    names = [x.id for x in ast.walk(st.target) if isinstance(x, ast.Name)]
                    walk(st.body, cn, signs, env, ivar) if not names else walk_loop(st, names, env)
                elif isinstance(st, ast.If):
                    sg = _sign_of_test(st.test, cn) if cn else None
                    if sg is not None:
                        # a test of the coefficient's sign: the statements that follow are read once per branch (path-sensitive on the sign)
                        rest = list(stmts[k + 1:])
                        if signs & sg[0]:
                            walk(list(st.body) + ([] if _leaves(st.body) else rest), cn, signs & sg[0], env, ivar)
                        if signs & sg[1]:
                            walk(list(st.orelse) + ([] if _leaves(st.orelse) else rest), cn, signs & sg[1], env, ivar)
                        return
                    else:
                        walk(st.body, cn, signs, env, ivar)
                        walk(st.orelse, cn, signs, env, ivar)
                    for x in ast.walk(st):  # locals assigned under a branch are not substituted afterwards
                        if isinstance(x, ast.Assign):
                            for t in x.targets:
                                if isinstance(t, ast.Name):
                                    env.pop(t.id, None)
                elif isinstance(st, ast.While):
                    walk(st.body, cn, signs, env, ivar)
                elif isinstance(st, ast.Assign) and len(st.targets) == 1 and isinstance(st.targets[0], ast.Name):
                    env[st.targets[0].id] = _subst(st.value, env)
                elif isinstance(st, ast.Assign) and len(st.targets) == 1 and isinstance(st.targets[0], ast.Subscript):
                    tgt = st.targets[0]
                    br = _bound_ref(prog, fn, tgt)
                    if br is None or not (isinstance(tgt.value, ast.Name) and tgt.value.id == dom):
                        continue
                    val = _subst(st.value, env)
                    if not any(isinstance(x, ast.BinOp) and isinstance(x.op, (ast.FloorDiv, ast.Div)) for x in ast.walk(val)):
                        continue
                    if not any(isinstance(x, ast.Name) and x.id in acc_tbl for x in ast.walk(val)):
                        continue
                    n_sites += 1
                    judge(st, br, val, cn, signs)

        def walk_loop(loop: ast.For, names: List[str], env: Dict[str, ast.expr]) -> None:
            # the coefficient name of this loop: a loop target tested against 0 somewhere in the body
            cn = None
            for x in ast.walk(loop):
                if isinstance(x, ast.If):
                    cn = next((nm for nm in names if _sign_of_test(x.test, nm) is not None), None)
                    if cn:
                        break
            walk(loop.body, cn, SIGNS, env, None)

        def judge(st: ast.Assign, br: Tuple[str, str], val: ast.expr, cn: Optional[str], signs: frozenset) -> None:
            row, cell = br
            loc = f"{fn.path}:{st.lineno}"
            # peel min(...)/max(...) with the stored cell itself: the candidate is the other argument
            cands = [val]
            if isinstance(val, ast.Call) and isinstance(val.func, ast.Name) and val.func.id in ("min", "max") and len(val.args) == 2:
                others = [a for a in val.args if _bound_ref(prog, fn, a) != br or not (isinstance(a, ast.Subscript) and isinstance(a.value, ast.Name) and a.value.id == dom)]
                if len(others) == 1:
                    cands = others
            cand = cands[0]
            r = _Rnd()
            try:
                _decomp(cand, +1, r, cn, lambda x: ("MIN" if prog.fold(fn.module, x) == prog.C("MIN") else "MAX" if prog.fold(fn.module, x) == prog.C("MAX") else None)
                        if isinstance(x, (ast.Name, ast.Constant)) else None)
            except _NoDecomp as ex:
                raise AnalysisError(f"R-AFFINE-BOUND: {fn.name} line {st.lineno}: the stored value `{ast.unparse(cand)}` holds an accumulator under a division "
                                    f"but is not of the form base + acc // c ({ex})")
            sg = sorted(signs - {"zero"})
            if len(r.quots) != 1 or len(r.cells) != 1 or r.other or len(sg) != 1 or cn is None:
                raise AnalysisError(f"R-AFFINE-BOUND: {fn.name} line {st.lineno}: `{ast.unparse(cand)}` under signs {sorted(signs)} is not one base cell plus one quotient")
            sign = sg[0]
            (osign, acc, parity, rdown) = r.quots[0]
            (bsign, brow, bbound) = r.cells[0]
            want_b = acc_tbl[acc].get(sign)
            inst = f"{fn.name}:{cell}:{sign}"
            good = True
            if bsign != 1 or want_b is None or bbound != want_b:
                good = False
                ctx.violation("R-AFFINE-BOUND", fn.path, fn.name, f"own-contribution:{cell}:{sign}", loc,
                              f"{fn.name}: for a {'positive' if sign == 'pos' else 'negative'} coefficient the accumulator `{acc}` has subtracted c * x[i, {want_b}], "
                              f"but the bound stored into x[i, {cell}] is built on x[i, {bbound}]: the variable's own contribution is not the one added back, "
                              "so the bound is computed from a sum that is not the sum of the others (values are removed or violating tuples kept)")
            if good and cell == bbound:
                good = False
                ctx.violation("R-AFFINE-BOUND", fn.path, fn.name, f"store-side:{cell}:{sign}", loc,
                              f"{fn.name}: `x[i, {bbound}] + {acc} / c` bounds the {'MAX' if bbound == 'MIN' else 'MIN'} of the variable; it is stored into x[i, {cell}]")
            if good and parity != 1:
                good = False
                ctx.violation("R-AFFINE-BOUND", fn.path, fn.name, f"quotient-sign:{cell}:{sign}", loc,
                              f"{fn.name}: the value stored into x[i, {cell}] is x[i, {bbound}] - {acc} / c over the reals; the bound implied by the accumulator is x[i, {bbound}] + {acc} / c")
            if good and ((cell == "MAX") != rdown):
                good = False
                ctx.violation("R-AFFINE-BOUND", fn.path, fn.name, f"rounding:{cell}:{sign}", loc,
                              f"{fn.name}: the quotient entering the {cell} stored for a {'positive' if sign == 'pos' else 'negative'} coefficient is rounded "
                              f"{'down' if rdown else 'up'}: an integer {'maximum' if cell == 'MAX' else 'minimum'} derived from a rational bound is its "
                              f"{'floor' if cell == 'MAX' else 'ceiling'}; rounded the other way a value excluded by the constraint stays in the domain and a "
                              "violating single tuple is not rejected")
            if good:
                ctx.ok("R-AFFINE-BOUND", inst, sample={"acc": acc, "base": bbound, "cell": cell, "sign": sign, "rounding": "down" if rdown else "up", "line": st.lineno})

        walk(fn.node.body, None, SIGNS, {}, None)
    ctx.floor("R-AFFINE-BOUND:division-derived stores", n_sites, 8)


class _NoDecomp(Exception):
    pass


def _subst(e: ast.expr, env: Dict[str, ast.expr]) -> ast.expr:
    class S(ast.NodeTransformer):
        def visit_Name(self, node: ast.Name) -> ast.AST:
            if isinstance(node.ctx, ast.Load) and node.id in env:
                return env[node.id]
            return node
    import copy as _copy
    return S().visit(_copy.deepcopy(e))


def _decomp(e: ast.expr, sign: int, r: "_Rnd", cn: Optional[str], bf: Any = None) -> None:
    """e (taken with `sign`) as a sum of domain cells and quotient terms acc // (+-c)."""
    if isinstance(e, ast.UnaryOp) and isinstance(e.op, ast.USub):
        return _decomp(e.operand, -sign, r, cn, bf)
    if isinstance(e, ast.UnaryOp) and isinstance(e.op, ast.UAdd):
        return _decomp(e.operand, sign, r, cn, bf)
    if isinstance(e, ast.BinOp) and isinstance(e.op, ast.Add):
        _decomp(e.left, sign, r, cn, bf)
        return _decomp(e.right, sign, r, cn, bf)
    if isinstance(e, ast.BinOp) and isinstance(e.op, ast.Sub):
        _decomp(e.left, sign, r, cn, bf)
        return _decomp(e.right, -sign, r, cn, bf)
    if isinstance(e, ast.BinOp) and isinstance(e.op, ast.FloorDiv):
        ns, acc = _signed_name(e.left)
        ds, den = _signed_name(e.right)
        if acc is None or den is None or den != cn:
            raise _NoDecomp(f"quotient `{ast.unparse(e)}` is not (+-accumulator) // (+-coefficient)")
        # value = sign * floor(ns*acc / (ds*c)); real = sign*ns*ds * acc/c; floor rounds down, so the term is rounded down iff sign == +1
        r.quots.append((sign, acc, sign * ns * ds, sign == 1))
        return
    if isinstance(e, ast.Subscript):
        sl = e.slice
        elts = list(sl.elts) if isinstance(sl, ast.Tuple) else [sl]
        b = bf(elts[1]) if (bf is not None and len(elts) == 2) else None
        if b is not None:
            r.cells.append((sign, ast.unparse(e.value) + "[" + ast.unparse(elts[0]) + "]", b))
            return
    if isinstance(e, ast.Constant) and e.value == 0:
        return
    raise _NoDecomp(f"term `{ast.unparse(e)}`")


def _signed_name(e: ast.expr) -> Tuple[int, Optional[str]]:
    s = 1
    while isinstance(e, ast.UnaryOp) and isinstance(e.op, (ast.USub, ast.UAdd)):
        if isinstance(e.op, ast.USub):
            s = -s
        e = e.operand
    return (s, e.id) if isinstance(e, ast.Name) else (s, None)


# ------------------------------------------------------------------ R-TWO-SIDED
def rule_two_sided(ctx: Ctx, prog: Program) -> None:
    """A filtering function that keeps a lower and an upper bound of a count in two locals and answers 'entailed' when the interval they
    span is a point (`lo == hi`, or `lo == k and hi == k`) holds two beliefs: the count cannot go below `lo` and cannot go above `hi`.  The
    constraint fails when *either* bound leaves the admissible side, so each of the two locals has to reach a failure exit: it occurs in a
    test that guards `return PROP_INCONSISTENCY`, or it flows into a domain cell that such a test compares.  A function that tests only
    one of them ('fewer than c can still be true' kept, 'more than c are already true' lost) accepts single tuples that violate the
    constraint on the other side.  One-sided comparison, no specification consulted; an unrecognised guard is not judged."""
    ctx.rule("R-TWO-SIDED")
    n = 0
    for _, fn, _ in propagator_triples(prog):
        params = set(fn.params)
        assigned: Set[str] = set()
        for x in ast.walk(fn.node):
            if isinstance(x, (ast.Assign, ast.AugAssign, ast.AnnAssign)):
                for t in (x.targets if isinstance(x, ast.Assign) else [x.target]):
                    if isinstance(t, ast.Name):
                        assigned.add(t.id)
        pairs: List[Tuple[str, str, int]] = []
        par_of: Dict[int, ast.AST] = {}
        for x in ast.walk(fn.node):
            for c_ in ast.iter_child_nodes(x):
                par_of[id(c_)] = x
        guards: List[Tuple[List[ast.expr], int]] = []
        for x in ast.walk(fn.node):
            if isinstance(x, ast.If) and any(isinstance(y, ast.Return) and isinstance(y.value, ast.Name) and y.value.id == "PROP_ENTAILMENT" for y in x.body):
                tests = [x.test]
                cur_ = x
                while isinstance(par_of.get(id(cur_)), ast.If) and par_of[id(cur_)].body == [cur_] and not par_of[id(cur_)].orelse:
                    cur_ = par_of[id(cur_)]
                    tests.append(cur_.test)  # `if a: if b: return ENTAILED` is `if a and b`
                guards.append((tests, x.lineno))
            if isinstance(x, ast.Return) and isinstance(x.value, ast.IfExp) and isinstance(x.value.body, ast.Name) and x.value.body.id == "PROP_ENTAILMENT":
                guards.append(([x.value.test], x.lineno))
        for tests_, gline in guards:
            names: List[str] = []
            ok_shape = True
            conj = [c_ for t_ in tests_ for c_ in (t_.values if isinstance(t_, ast.BoolOp) and isinstance(t_.op, ast.And) else [t_])]
            consts: List[str] = []
            for c in conj:
                if not (isinstance(c, ast.Compare) and len(c.ops) == 1 and isinstance(c.ops[0], ast.Eq)):
                    ok_shape = False
                    break
                l, r = c.left, c.comparators[0]
                for side in (l, r):
                    if isinstance(side, ast.Name) and side.id in assigned and side.id not in params:
                        names.append(side.id)
                    elif isinstance(side, (ast.Constant, ast.Name, ast.Attribute)):
                        consts.append(ast.unparse(side))
                    else:
                        ok_shape = False
            if not ok_shape or len(set(names)) != 2 or len(set(consts)) > 1:
                continue
            # the two locals are integer counters: initialised from a length / constant / count and moved by steps, or a vectorised count
            pairs.append((names[0], [x for x in names if x != names[0]][0], gline))
        if not pairs:
            continue
        # names that reach a failure exit
        fail_tests: List[ast.expr] = []
        for x in ast.walk(fn.node):
            if isinstance(x, ast.If) and any(isinstance(y, ast.Return) and isinstance(y.value, ast.Name) and y.value.id == "PROP_INCONSISTENCY" for y in x.body):
                fail_tests.append(x.test)
            if isinstance(x, ast.Return) and isinstance(x.value, ast.IfExp):
                if isinstance(x.value.body, ast.Name) and x.value.body.id == "PROP_INCONSISTENCY":
                    fail_tests.append(x.value.test)
                if isinstance(x.value.orelse, ast.Name) and x.value.orelse.id == "PROP_INCONSISTENCY":
                    fail_tests.append(x.value.test)
        reach: Set[str] = set()
        cells: Set[str] = set()
        for t in fail_tests:
            for y in ast.walk(t):
                if isinstance(y, ast.Name):
                    reach.add(y.id)
                if isinstance(y, ast.Subscript):
                    cells.add(ast.unparse(y))
        changed = True
        while changed:
            changed = False
            for x in ast.walk(fn.node):
                if isinstance(x, ast.Assign):
                    for t in x.targets:
                        hit = (isinstance(t, ast.Subscript) and ast.unparse(t) in cells) or (isinstance(t, ast.Name) and t.id in reach and t.id not in {p for pr in pairs for p in pr[:2]})
                        if hit:
                            for y in ast.walk(x.value):
                                if isinstance(y, ast.Name) and y.id not in reach:
                                    reach.add(y.id)
                                    changed = True
        for lo, hi, line in pairs:
            n += 1
            ctx.fn(fn.fq)
            missing = [v for v in (lo, hi) if v not in reach]
            if not missing:
                ctx.ok("R-TWO-SIDED", f"{fn.name}: both `{lo}` and `{hi}` reach a failure exit", sample={"line": line})
            elif len(missing) == 1:
                ctx.violation("R-TWO-SIDED", fn.path, fn.name, f"one-sided:{missing[0]}", f"{fn.path}:{line}",
                              f"{fn.name}: answers 'entailed' when `{lo}` and `{hi}` meet, so both bound a count; `{missing[0]}` never reaches a test that "
                              "returns PROP_INCONSISTENCY (directly or through a domain cell): the constraint is only rejected on the other side, and a "
                              "single tuple that violates it on this side is answered 'consistent'")
            else:
                ctx.undecided_site("R-TWO-SIDED", f"{fn.name}:{lo}:{hi}", "neither bound reaches a failure exit in a form this rule reads")
    ctx.floor("R-TWO-SIDED:point-interval entailment guards", n, 1)
