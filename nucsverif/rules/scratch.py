"""R-SCRATCH (C16): scratch-array extents of the two Hall-interval propagators (alldifferent, gcc), decided assume/guarantee style.

The heavy way (interpreting compute_domains_gcc with every helper inlined) does not finish; the structure of the code allows a cheap
modular argument instead:

  1. the caller (compute_domains_X) is interpreted WITHOUT inlining: every helper call is recorded with its arguments; for each array
     argument the allocation shape is known as an affine form in n (= len(domains)) and m;
  2. each helper is interpreted on its own, from a state that assumes exactly those shapes for its array parameters (expressed in the
     helper's own scalar parameters) and, for the number of distinct bounds `nb`, the contract of update_bounds (0 <= nb <= 2n),
     which is itself established on update_bounds by inductive invariants (nb <= i + j, i <= n, j <= n - 1);
  3. every subscript whose index is a *shape-only* form (affine in loop indices, loop-carried counters and scalar parameters -- no array
     contents) must be provably within the extent: 0 <= index < extent.  Subscripts whose index is read from an array (pointer contents:
     t[z], h[x], ranks[...], sets[...]) are listed as undecided -- the Hall-interval invariants are not a shape.

No frozen table of source texts: the obligation set is derived from the current code, so renaming locals or extracting temporaries
does not move any verdict.  Shrinking an allocation (2n+2 -> 2n+1, m+6 -> m+5), widening an initialisation loop by one, or passing the
wrong array makes a shape-only site unprovable: that is the violation.
"""
from __future__ import annotations

import ast
from typing import Any, Dict, List, Optional, Set, Tuple

from ..core import Ctx
from ..interp import ALL, Dual, Event, Interp, LoopSummary, PathResult, State, Tup, View, as_view
from ..program import AnalysisError, FuncInfo, Program
from ..terms import Aff, Facts, K, ONE, ZERO, atoms_in, cmp_cond, show_cond, show_val, subst
from .bounds import _advance, _extent_of
from .model import _all_loops

CALLERS = [
    ("propagators.alldifferent_propagator", "compute_domains_alldifferent"),
    ("propagators.gcc_propagator", "compute_domains_gcc"),
]


def _init(name: str) -> Aff:
    return Aff.atom(("init", name, ()))


def _never(_f: FuncInfo) -> bool:
    return False


def _array_params(fn: FuncInfo) -> Set[str]:
    """Parameters used as arrays in the body (subscripted, measured, iterated or passed on to such a use)."""
    out: Set[str] = set()
    for n in ast.walk(fn.node):
        if isinstance(n, ast.Subscript) and isinstance(n.value, ast.Name) and n.value.id in fn.params:
            out.add(n.value.id)
        if isinstance(n, ast.Call) and isinstance(n.func, ast.Name) and n.func.id in ("len", "enumerate") and n.args and isinstance(n.args[0], ast.Name):
            out.add(n.args[0].id)
        if isinstance(n, ast.For) and isinstance(n.iter, ast.Name):
            out.add(n.iter.id)
    return out & set(fn.params)


def _shape_of(it: Interp, st: State, root: str) -> Optional[List[Aff]]:
    org = it.allocs.get(root)
    if org and org[0] == "call" and str(org[1]).endswith("argsort") and org[2]:
        a0 = as_view(org[2][0])
        if isinstance(a0, View):  # a permutation of the rows of its argument
            return [Aff.atom(("len", a0.root, ()))]
    if org and org[0] == "alloc" and org[2] and org[1] not in ("numpy.array", "numpy.zeros_like", "numpy.empty_like"):
        shp = org[2][0]
        if isinstance(shp, Tup):
            return [it.scalar(st, x) for x in shp.items]
        return [it.scalar(st, shp)]
    return None


def _extent2(it: Interp, st: State, root: str, base: Tuple[Any, ...]) -> Optional[Aff]:
    """Extent of the axis addressed by the next scalar index applied to the view root[base]."""
    shp = _shape_of(it, st, root)
    pos = len(base)
    for k, c in enumerate(base):
        if not isinstance(c, Aff):
            pos = k
            break
    if shp is not None and pos < len(shp):
        full = shp[pos]
    elif pos == 0:
        full = Aff.atom(("len", root, ()))
    else:
        full = Aff.atom(("dim", root, pos))
    if pos == len(base) or base[pos] == ALL:
        return full
    c = base[pos]
    if isinstance(c, tuple) and c[0] == "slice":
        lo = c[1] if isinstance(c[1], Aff) else ZERO
        hi = c[2] if isinstance(c[2], Aff) else full
        if isinstance(c[2], Aff) and c[2].is_const() and c[2].c < 0:
            hi = full + c[2]
        if isinstance(lo, Aff) and lo.is_const() and lo.c < 0:
            return None
        if st.facts.decide(cmp_cond("<=", hi, full)) is True and st.facts.decide(cmp_cond(">=", lo, ZERO)) is True:
            return hi - lo
        return None
    return None


class Call:
    def __init__(self, callee: FuncInfo, node: ast.AST, line: int):
        self.callee = callee
        self.node = node
        self.line = line
        self.facts: List[Tuple] = []  # assumptions on the callee's parameters, in the callee's own atoms
        self.shown: List[str] = []
        self.nb_params: List[str] = []  # parameters bound to the result of update_bounds
        self.perm_params: List[str] = []  # parameters bound to an argsort result: a permutation of 0..len-1
        self.n_params: List[str] = []  # scalar parameters bound to the caller's arity  len(domains)
        self.pos_params: List[str] = []  # other scalar parameters known to be >= 1 in the caller (e.g. the number of values m)
        self.scalar_params: List[str] = []
        self.nonneg_params: List[str] = []


def caller_calls(prog: Program, fn: FuncInfo) -> Tuple[List[Call], Dict[str, Any]]:
    it = Interp(prog, inline_filter=_never)
    st_in = State()
    # contract read off the caller itself: a parameter it reads at position 0 is not empty
    for node in ast.walk(fn.node):
        if isinstance(node, ast.Subscript) and isinstance(node.value, ast.Name) and node.value.id in fn.params \
                and isinstance(node.slice, ast.Constant) and node.slice.value == 0:
            st_in.facts.add(cmp_cond(">=", Aff.atom(("len", node.value.id, ())), ONE))
    res = it.run(fn, state=st_in)
    calls: Dict[int, Call] = {}
    info: Dict[str, Any] = {"paths": len(res)}
    for r in res:
        s = r.state
        ub_rets: Set[Any] = set()
        for e in s.trace:
            if e.kind == "call" and e.name and e.name.split(":")[-1].endswith("update_bounds") and e.ret is not None:
                rv = e.ret
                ub_rets.add(repr(it.scalar(s, rv)))
        for e in s.trace:
            if e.kind != "call" or not e.name or id(e.node) in calls:
                continue
            bare = e.name.split(":")[-1]
            rs = prog.resolve(fn.module, bare) if "." not in bare else None
            if not rs or rs[0] != "func":
                continue
            callee: FuncInfo = rs[1]
            if not callee.njit or len(callee.params) != len(e.args):
                continue
            c = Call(callee, e.node, e.line)
            # substitution caller atom -> callee parameter, from the scalar arguments
            sub: Dict[Any, Aff] = {}
            vals: List[Any] = []
            arrs = _array_params(callee)
            for pn, a in zip(callee.params, e.args):
                av = as_view(a)
                if isinstance(av, View) and pn in arrs:
                    vals.append(("array", av))
                    continue
                v = it.value_at(s, e.hpos, a)
                vals.append(("scalar", v))
                c.scalar_params.append(pn)
                if isinstance(v, Aff) and v == Aff.atom(("len", fn.params[0], ())):
                    c.n_params.append(pn)
                elif isinstance(v, Aff) and not v.is_const() and s.facts.decide(cmp_cond(">=", v, ONE)) is True:
                    c.pos_params.append(pn)
                elif isinstance(v, Aff) and not v.is_const() and s.facts.decide(cmp_cond(">=", v, ZERO)) is True:
                    c.nonneg_params.append(pn)
                at = v.single_atom()
                if at is not None and v.c == 0 and v.t[0][1] == 1:
                    sub.setdefault(at, _init(pn))
                if repr(v) in ub_rets:
                    c.nb_params.append(pn)
            for pn, (kind, v) in zip(callee.params, vals):
                if kind != "array":
                    continue
                av: View = v
                shp = _shape_of(it, s, av.root) if not av.idx else None
                org = it.allocs.get(av.root)
                if not av.idx and org and org[0] == "call" and str(org[1]).endswith("argsort"):
                    c.perm_params.append(pn)
                if shp is not None:
                    ext = subst(shp[0], sub)
                    c.facts.append(cmp_cond("==", Aff.atom(("len", pn, ())), ext))
                    c.shown.append(f"len({pn}) = {show_val(ext)}")
                    for k, dimv in enumerate(shp[1:], start=1):
                        c.facts.append(cmp_cond("==", Aff.atom(("dim", pn, k)), subst(dimv, sub)))
                elif not av.idx:
                    ln = Aff.atom(("len", av.root, ()))
                    if ln.single_atom() in sub:
                        c.facts.append(cmp_cond("==", Aff.atom(("len", pn, ())), sub[ln.single_atom()]))
                        c.shown.append(f"len({pn}) = {show_val(sub[ln.single_atom()])}")
                elif len(av.idx) == 1 and isinstance(av.idx[0], tuple) and av.idx[0][0] == "slice":
                    # a slice root[lo:hi] of a caller array: its length in caller terms, compared with the scalar arguments
                    lo, hi = av.idx[0][1], av.idx[0][2]
                    base = Aff.atom(("len", av.root, ()))
                    lo = lo if isinstance(lo, Aff) else ZERO
                    L = (hi if isinstance(hi, Aff) else base) - lo
                    within = hi is None or s.facts.decide(cmp_cond("<=", hi, base)) is True
                    if within and s.facts.decide(cmp_cond(">=", lo, ZERO)) is True:
                        for pn2, (k2, v2) in zip(callee.params, vals):
                            if k2 == "scalar" and isinstance(v2, Aff) and s.facts.decide(cmp_cond(">=", L, v2)) is True and not v2.is_const():
                                c.facts.append(cmp_cond(">=", Aff.atom(("len", pn, ())), _init(pn2)))
                                c.shown.append(f"len({pn}) >= {pn2}")
            calls[id(e.node)] = c
    return list(calls.values()), info


# ------------------------------------------------------------------------------------------ invariants
def inductive(it: Interp, summ: LoopSummary, pre: Facts, pre_vals: Dict[str, Aff], cands: List[Tuple[str, Aff]]) -> List[Tuple[str, Aff]]:
    """Largest subset of `cands` (E >= 0, E over the loop's lv atoms) that holds initially and is preserved by every iteration path."""
    lv = {nm: Aff.atom(("lv", nm, summ.loop_id)) for nm in summ.assigned}

    def at_start(E: Aff) -> Aff:
        return subst(E, {lv[nm].single_atom(): v for nm, v in pre_vals.items() if nm in lv})

    alive = [(d, E) for d, E in cands if pre.decide(("ge0", at_start(E))) is True]
    iter_paths = [bp for bp in summ.paths if bp.outcome in ("fall", "continue")]
    for _ in range(8):
        keep = []
        for d, E in alive:
            okk = True
            for bp in iter_paths:
                f = bp.state.facts.copy()
                for _, E2 in alive:
                    f.add(("ge0", E2))
                if f.infeasible_strong():
                    continue
                m = {}
                for nm in summ.assigned:
                    v = bp.state.env.get(nm)
                    if v is not None and nm in lv:
                        m[lv[nm].single_atom()] = it.scalar(bp.state, v)
                if f.decide(("ge0", subst(E, m))) is not True:
                    okk = False
                    break
            if okk:
                keep.append((d, E))
        if len(keep) == len(alive):
            break
        alive = keep
    return alive


def default_candidates(summ: LoopSummary, pre_vals: Dict[str, Aff], scalars: List[Aff], triples: bool = False) -> List[Tuple[str, Aff]]:
    lv = {nm: Aff.atom(("lv", nm, summ.loop_id)) for nm in pre_vals}
    out: List[Tuple[str, Aff]] = []
    names = list(lv)[:6]
    for x in names:
        out.append((f"{x}>=0", lv[x]))
        out.append((f"{x}>=init", lv[x] - pre_vals[x]))
        out.append((f"{x}<=init", pre_vals[x] - lv[x]))
        for sc in scalars:
            out.append((f"{x}<={show_val(sc)}", sc - lv[x]))
            out.append((f"{x}<={show_val(sc)}-1", sc - lv[x] - ONE))
            out.append((f"{x}<={show_val(sc)}+1", sc - lv[x] + ONE))
        for y in names:
            if x != y:
                out.append((f"{x}<={y}", lv[y] - lv[x]))
            for z in names:
                if triples and x != y and x != z and y < z:
                    out.append((f"{x}<={y}+{z}", lv[y] + lv[z] - lv[x]))
    return out


# ------------------------------------------------------------------------------------------ helper analysis
def _value_driven_names(fn: FuncInfo) -> Set[str]:
    """Locals whose value depends on how long a data-dependent `while` ran (its test reads an array): not shape quantities."""
    tainted: Set[str] = set()
    for n in ast.walk(fn.node):
        if isinstance(n, ast.While) and any(isinstance(x, ast.Subscript) for x in ast.walk(n.test)):
            # names the test itself bounds by a comparison with a plain name / expression without subscripts (`i < n and a[i] == ...`)
            conj = n.test.values if isinstance(n.test, ast.BoolOp) and isinstance(n.test.op, ast.And) else [n.test]
            guarded = set()
            for c in conj:
                if isinstance(c, ast.Compare) and len(c.ops) == 1 and not any(isinstance(x, ast.Subscript) for x in ast.walk(c)):
                    for side in (c.left, c.comparators[0]):
                        if isinstance(side, ast.Name):
                            guarded.add(side.id)
            for b in n.body:
                for x in ast.walk(b):
                    if isinstance(x, ast.Name) and isinstance(x.ctx, ast.Store) and x.id not in guarded:
                        tainted.add(x.id)
    for _ in range(4):
        for n in ast.walk(fn.node):
            if isinstance(n, ast.Assign) and any(isinstance(x, ast.Name) and x.id in tainted for x in ast.walk(n.value)):
                for t in n.targets:
                    for x in ast.walk(t):
                        if isinstance(x, ast.Name) and isinstance(x.ctx, ast.Store):
                            tainted.add(x.id)
    return tainted


def _shape_only(c: Aff, scalar_params: Set[str], value_driven: Set[str] = frozenset()) -> bool:
    for a in atoms_in(c):
        if not isinstance(a, tuple):
            return False
        if a[0] == "lv" and a[1] in value_driven:
            return False
        if a[0] in ("it", "lv"):
            continue
        if a[0] == "init" and a[1] in scalar_params and a[2] == ():
            continue
        return False
    return True


def analyse_helper(prog: Program, call: Call, nb_contract: bool) -> List[Dict[str, Any]]:
    fn = call.callee
    it = Interp(prog, inline_filter=_never)
    it.track_index = True
    st0 = State()
    for c in call.facts:
        st0.facts.add(c)
    n_atom = _init(call.n_params[0]) if call.n_params else None
    if n_atom is not None:
        st0.facts.add(cmp_cond(">=", n_atom, ONE))  # contract: a constraint has at least one variable
    for pp in call.pos_params:
        st0.facts.add(cmp_cond(">=", _init(pp), ONE))
    for pp in call.nonneg_params:
        st0.facts.add(cmp_cond(">=", _init(pp), ZERO))
    if nb_contract and n_atom is not None:
        for pn in call.nb_params:
            st0.facts.add(cmp_cond(">=", _init(pn), ONE))
            st0.facts.add(cmp_cond("<=", _init(pn), n_atom.scale(2)))
    res = it.run(fn, state=st0)
    # loop invariants (own generator: includes x >= 0, x <= scalar, x <= y + z)
    loops: List[LoopSummary] = []
    for r in res:
        for l in _all_loops(r.state.trace):
            if l not in loops:
                loops.append(l)
    array_params = set()
    for c in call.facts:
        for a in atoms_in(c):
            if isinstance(a, tuple) and a[0] in ("len", "dim"):
                array_params.add(a[1])
    scalars = [_init(p) for p in call.scalar_params if p in call.n_params or p in call.nb_params or p in call.pos_params or p in call.nonneg_params]
    inv_by_loop: Dict[int, List[Tuple[str, Aff]]] = {}
    for l in loops:
        pre_vals: Dict[str, Aff] = {}
        pre_state = State()
        pre_state.facts = st0.facts.copy()
        for nm in l.assigned:
            v0 = l.pre_env.get(nm)
            if isinstance(v0, (Aff, Dual)):
                pv = it.scalar(pre_state, v0)
                if _shape_only(pv, set(fn.params)) or pv.is_const():
                    pre_vals[nm] = pv
        if not pre_vals:
            continue
        # the facts that hold when the loop is reached: those of any path that reaches it (conservatively: the initial assumptions)
        inv = inductive(it, l, st0.facts, pre_vals, default_candidates(l, pre_vals, scalars, triples=l.kind == "while"))
        inv_by_loop[l.loop_id] = inv
    vdn = _value_driven_names(fn)
    paths: List[PathResult] = list(res)
    for l in loops:
        for bp in l.paths:
            paths.append(bp)
    sites: Dict[Tuple[int, int], Dict[str, Any]] = {}
    seen = set()
    for pr in paths:
        s = pr.state
        f = s.facts.copy()
        for lid, inv in inv_by_loop.items():
            for _, E in inv:
                f.add(("ge0", E))
        if f.infeasible_strong():
            continue  # a path the loop invariants rule out
        for e in s.trace:
            if e.kind != "index":
                continue
            # (an event of the common prefix of two paths is judged on each of them: the facts that follow differ)
            base_idx, new = e.value
            cur = tuple(base_idx)
            for k, c in enumerate(new):
                if not isinstance(c, Aff):
                    cur = cur + (c,)
                    continue
                if c.is_const():
                    cur = _advance(cur, c)
                    continue
                key = (id(e.node), k)
                src = ast.unparse(e.node) if e.node is not None else "?"
                # elements of an argsort result are row numbers of the sorted array: 0 <= element <= len - 1
                perm_atoms = [a for a in atoms_in(c) if isinstance(a, tuple) and a[0] in ("init", "hav") and (a[1] if a[0] == "init" else a[2]) in call.perm_params]
                fq = f
                if perm_atoms:
                    fq = f.copy()
                    for a in perm_atoms:
                        pr_root = a[1] if a[0] == "init" else a[2]
                        fq.add(("ge0", Aff.atom(a)))
                        fq.add(cmp_cond("<", Aff.atom(a), Aff.atom(("len", pr_root, ()))))
                rec = sites.setdefault(key, {"function": fn.name, "expr": src, "axis": k, "line": getattr(e.node, "lineno", 0), "verdicts": set(),
                                             "index": show_val(c), "extent": "?",
                                             "shape_only": _shape_only(c, set(fn.params), vdn) or (bool(perm_atoms) and c.single_atom() in perm_atoms)})
                ext = _extent2(it, s, e.root, cur)
                verdict = "unproved"
                if ext is not None:
                    rec["extent"] = show_val(ext)
                    lo = fq.decide(cmp_cond(">=", c, ZERO))
                    hi = fq.decide(cmp_cond("<", c, ext))
                    if lo is True and hi is True:
                        verdict = "proved"
                    elif rec["shape_only"] and (lo is not True or hi is not True):
                        rec["why"] = ("lower bound " if lo is not True else "") + ("upper bound" if hi is not True else "")
                rec["verdicts"].add(verdict)
                cur = _advance(cur, c)
    out = []
    for rec in sites.values():
        v = rec.pop("verdicts")
        rec["verdict"] = "proved" if v == {"proved"} else "unproved"
        out.append(rec)
    return out


def check_update_bounds(ctx: Ctx, prog: Program, call: Call) -> bool:
    """Contract of update_bounds: it returns nb with 1 <= nb <= 2n.  Established by inductive invariants on its loop."""
    fn = call.callee
    it = Interp(prog, inline_filter=_never)
    st0 = State()
    for c in call.facts:
        st0.facts.add(c)
    if not call.n_params:
        raise AnalysisError(f"{fn.fq}: no parameter carries the arity of the constraint")
    n = _init(call.n_params[0])
    st0.facts.add(cmp_cond(">=", n, ONE))
    res = it.run(fn, state=st0)
    loops = []
    for r in res:
        for l in _all_loops(r.state.trace):
            if l.kind == "while" and l not in loops:
                loops.append(l)
    if len(loops) != 1:
        ctx.violation("R-SCRATCH", fn.path, fn.name, "nb-contract", fn.loc(), f"{fn.name}: expected one merging loop, found {len(loops)}")
        return False
    l = loops[0]
    pre_vals = {}
    for nm in l.assigned:
        v0 = l.pre_env.get(nm)
        if isinstance(v0, (Aff, Dual)):
            pv = it.scalar(State(), v0)
            if pv.is_const():
                pre_vals[nm] = pv
    inv = inductive(it, l, st0.facts, pre_vals, default_candidates(l, pre_vals, [n], triples=True))
    okk = True
    rets = [r for r in res if r.outcome == "return"]
    for r in rets:
        f = r.state.facts.copy()
        # the state after the loop is the state of the breaking iteration: invariants hold for its lv atoms
        for _, E in inv:
            f.add(("ge0", E))
        rv = it.scalar(r.state, r.value)
        if not (f.decide(cmp_cond("<=", rv, n.scale(2))) is True and f.decide(cmp_cond(">=", rv, ZERO)) is True):
            okk = False
    if okk and rets:
        ctx.ok("R-SCRATCH", f"{fn.module.split('.')[-1]}.{fn.name}: returns nb with 0 <= nb <= 2n", sample={"invariants": [d for d, _ in inv][:12]})
    else:
        ctx.violation("R-SCRATCH", fn.path, fn.name, "nb-contract", fn.loc(),
                      f"{fn.name}: the number of distinct bounds it returns is no longer provably <= 2n (invariants found: {[d for d, _ in inv][:8]}): "
                      "the scratch arrays of size 2n+2 are sized for exactly that")
    return okk


def rule_scratch(ctx: Ctx, prog: Program) -> None:
    ctx.rule("R-SCRATCH")
    n_proved = n_undec = 0
    for mod, name in CALLERS:
        fn = prog.func(f"{prog.package}.{mod}", name)
        ctx.fn(fn.fq)
        calls, info = caller_calls(prog, fn)
        if not calls:
            raise AnalysisError(f"{fn.fq}: no helper call found")
        nb_ok = True
        for c in calls:
            if c.callee.name == "update_bounds":
                nb_ok = check_update_bounds(ctx, prog, c)
        for c in calls:
            ctx.fn(c.callee.fq)
            for rec in analyse_helper(prog, c, nb_contract=nb_ok):
                inst = f"{c.callee.module.split('.')[-1]}.{rec['function']}:{rec['expr']}#{rec['axis']}"
                if rec["verdict"] == "proved":
                    n_proved += 1
                    ctx.ok("R-SCRATCH", inst, sample={"index": rec["index"], "extent": rec["extent"], "assumed": c.shown[:4]} if n_proved <= 4 else None)
                elif rec["shape_only"]:
                    ctx.violation("R-SCRATCH", c.callee.path, rec["function"], f"{_norm(rec['expr'])}#{rec['axis']}", f"{c.callee.path}:{rec['line']}",
                                  f"{rec['function']}: the index of {rec['expr']} ({rec['index']}) is not provably within the extent {rec['extent']} of the array "
                                  f"passed by {name} ({', '.join(c.shown[:6])}; nb <= 2n): {rec.get('why', 'unproved')}. Compiled code performs no bounds check")
                else:
                    n_undec += 1
                    ctx.undecided_site("R-SCRATCH", inst, f"index read from an array ({rec['index']}): Hall-interval pointer contents, not a shape")
    ctx.floor("R-SCRATCH:shape-sites-proved", n_proved, 100)
    ctx.extra["scratch_sites_proved"] = n_proved
    ctx.extra["scratch_sites_value_dependent"] = n_undec


def _norm(src: str) -> str:
    return "".join(src.split())


# ------------------------------------------------------------------------------------------ R-HALL-PRECOND
def rule_hall_precondition(ctx: Ctx, prog: Program) -> None:
    """The Hall-interval filtering of gcc (Quimper et al.) ranks the variable bounds and assumes MIN <= MAX for every variable.  Since fix
    0d60ece compute_domains_gcc first moves every bound off the values whose capacity is zero (a pruning step); a variable whose bounds
    cross in that step has an empty domain, and if it were ranked the pointer chases (path_set) would walk chains that do not contain
    their end marker: the call would never return.  Rule: on every path of compute_domains_gcc that stores into the domains before the
    bounds are sorted and ranked (update_bounds), the storing loop has a body path that returns PROP_INCONSISTENCY.  (Whether the bounds
    are moved at all is a matter of pruning strength, not of termination, since fix a67ad7b: see rule_hall_intervals.)"""
    ctx.rule("R-HALL-PRECOND")
    fn = prog.func(f"{prog.package}.propagators.gcc_propagator", "compute_domains_gcc")
    ctx.fn(fn.fq)
    MIN, MAX, PI = prog.C("MIN"), prog.C("MAX"), prog.C("PROP_INCONSISTENCY")
    it = Interp(prog, inline_filter=_never)
    res = it.run(fn)
    dom = fn.params[0]
    n_reach = n_moved = 0
    bad: List[str] = []
    for r in res:
        evs = r.state.trace
        ub = [i for i, e in enumerate(evs) if e.kind == "call" and e.name and e.name.split(":")[-1].endswith("update_bounds")]
        if not ub:
            continue
        n_reach += 1
        # the partial sums of the capacities: init_partial_sum(..., values = parameters[1 + m:])  (open-ended slice = the upper bounds)
        cap_roots = set()
        for e in evs[: ub[0]]:
            if e.kind == "call" and e.name and e.name.split(":")[-1].endswith("init_partial_sum") and len(e.args) == 3:
                v = as_view(e.args[2])
                if isinstance(v, View) and len(v.idx) == 1 and isinstance(v.idx[0], tuple) and v.idx[0][0] == "slice" and v.idx[0][2] is None and e.ret is not None:
                    cap_roots.add(as_view(e.ret).root)
        okk = {"MIN": False, "MAX": False, "fail": False, "all": False}
        for i, e in enumerate(evs[: ub[0]]):
            if e.kind != "loop" or e.loop is None or e.loop.kind != "for":
                continue
            l = e.loop
            rng = l.iter_value
            covers = getattr(rng, "start", None) == ZERO and isinstance(getattr(rng, "stop", None), Aff) and rng.stop == Aff.atom(("len", dom, ()))
            for bp in l.paths:
                for x in bp.events:
                    if x.kind == "store" and x.root == dom and len(x.idx) == 2 and x.idx[0] == l.index and isinstance(x.idx[1], Aff) and x.idx[1].is_const():
                        b = "MIN" if x.idx[1].c == MIN else "MAX"
                        want = "skip_non_null_elements_right" if b == "MIN" else "skip_non_null_elements_left"
                        src = [c for c in bp.events if c.kind == "call" and c.name and c.name.split(":")[-1].endswith(want) and c.ret is not None
                               and as_view(c.ret) == as_view(x.value) if isinstance(as_view(x.value), View)]
                        src = src or [c for c in bp.events if c.kind == "call" and c.name and c.name.split(":")[-1].endswith(want)
                                      and it.scalar(bp.state, c.ret) == (x.value if isinstance(x.value, Aff) else it.scalar(bp.state, x.value))]
                        for c in src:
                            a0 = as_view(c.args[0])
                            a1 = it.value_at(bp.state, c.hpos, c.args[1])
                            if isinstance(a0, View) and a0.root in cap_roots and a1 == Aff.atom(("init", dom, (l.index, K(MIN if b == "MIN" else MAX)))) or \
                                    (isinstance(a0, View) and a0.root in cap_roots and isinstance(a1, Aff) and any(
                                        isinstance(t, tuple) and t[0] in ("init", "hav") and (t[1] if t[0] == "init" else t[2]) == dom for t in atoms_in(a1))):
                                okk[b] = True
                                okk["all"] = okk["all"] or covers
                if bp.outcome == "return" and it.scalar(bp.state, bp.value) == K(PI):
                    okk["fail"] = True
        # any store into the domains before the ranking, recognised pre-pass or not
        moved = any(x.kind == "store" and x.root == dom for e in evs[: ub[0]] if e.kind == "loop" and e.loop is not None
                    for bp in e.loop.paths for x in bp.events) or any(x.kind == "store" and x.root == dom for x in evs[: ub[0]])
        n_moved += 1 if moved else 0
        if moved and not okk["fail"]:
            bad.append("no failure when the moved bounds cross")
    if n_reach == 0:
        raise AnalysisError(f"{fn.fq}: no path reaches update_bounds")
    if bad:
        ctx.violation("R-HALL-PRECOND", fn.path, fn.name, "crossed-bounds-ranked", fn.loc(),
                      f"compute_domains_gcc moves variable bounds before it sorts and ranks them but has no failure exit when a variable's bounds cross "
                      f"({bad[0]}): an empty domain enters the Hall-interval filtering, whose rank arithmetic assumes MIN <= MAX, and path_set then walks "
                      "a pointer chain that does not contain its end marker -- the call never returns (e.g. domains [(1,1),(1,1),(1,1),(0,0)], "
                      "parameters [0, 0,0, 2,0])")
    else:
        ctx.ok("R-HALL-PRECOND", "compute_domains_gcc: no variable whose bounds were moved before the ranking reaches it with crossed bounds "
               "(failure exit in the moving loop)" if n_moved else "compute_domains_gcc: the bounds are ranked as received",
               sample={"paths_reaching_update_bounds": n_reach, "paths_moving_bounds_first": n_moved})


def _merge_idioms(fn: FuncInfo) -> List[Tuple[str, str, ast.AST]]:
    """(capacity array D, pointer array T, enclosing loop) for every `D[z] -= 1 ; if D[z] == 0: T[z] = z +- 1` in the function: the
    merge of an interval into its neighbour when its remaining capacity reaches zero."""
    out: List[Tuple[str, str, ast.AST]] = []

    def blocks(node: ast.AST):
        for name in ("body", "orelse", "finalbody"):
            b = getattr(node, name, None)
            if isinstance(b, list) and b and isinstance(b[0], ast.stmt):
                yield b
                for s in b:
                    if not isinstance(s, (ast.For, ast.While, ast.FunctionDef)):
                        yield from blocks(s)

    def dec_target(s: ast.stmt) -> Optional[ast.Subscript]:
        if isinstance(s, ast.AugAssign) and isinstance(s.op, ast.Sub) and isinstance(s.value, ast.Constant) and s.value.value == 1 \
                and isinstance(s.target, ast.Subscript) and isinstance(s.target.value, ast.Name):
            return s.target
        if isinstance(s, ast.Assign) and len(s.targets) == 1 and isinstance(s.targets[0], ast.Subscript) and isinstance(s.targets[0].value, ast.Name) \
                and isinstance(s.value, ast.BinOp) and isinstance(s.value.op, ast.Sub) and isinstance(s.value.right, ast.Constant) and s.value.right.value == 1 \
                and ast.dump(s.value.left) == ast.dump(ast.Subscript(value=s.targets[0].value, slice=s.targets[0].slice, ctx=ast.Load())):
            return s.targets[0]
        return None

    for loop in ast.walk(fn.node):
        if not isinstance(loop, (ast.For, ast.While)):
            continue
        for blk in blocks(loop):
            for k, s in enumerate(blk):
                tg = dec_target(s)
                if tg is None:
                    continue
                cell = ast.dump(ast.Subscript(value=tg.value, slice=tg.slice, ctx=ast.Load()))
                for s2 in blk[k + 1:]:
                    if not (isinstance(s2, ast.If) and isinstance(s2.test, ast.Compare) and len(s2.test.ops) == 1 and isinstance(s2.test.ops[0], ast.Eq)
                            and ast.dump(s2.test.left) == cell and isinstance(s2.test.comparators[0], ast.Constant) and s2.test.comparators[0].value == 0):
                        continue
                    for s3 in s2.body:
                        if isinstance(s3, ast.Assign) and len(s3.targets) == 1 and isinstance(s3.targets[0], ast.Subscript) \
                                and isinstance(s3.targets[0].value, ast.Name) and ast.dump(s3.targets[0].slice) == ast.dump(tg.slice) \
                                and isinstance(s3.value, ast.BinOp) and isinstance(s3.value.op, (ast.Add, ast.Sub)) \
                                and (ast.dump(s3.value.left) == ast.dump(tg.slice)
                                     or (isinstance(s3.value.op, ast.Add) and ast.dump(s3.value.right) == ast.dump(tg.slice))):
                            out.append((tg.value.id, s3.targets[0].value.id, loop))
    return out


def rule_hall_intervals(ctx: Ctx, prog: Program) -> None:
    """Second precondition of the same filtering, read off its four sibling passes: an interval between two consecutive bounds is merged
    into its neighbour at the moment its remaining capacity *reaches* zero (`D[z] -= 1; if D[z] == 0: T[z] = z +- 1`).  An interval whose
    capacity is zero from the start (all its values have capacity zero) never takes that branch: its counter goes negative, it is never
    skipped, and the Hall-interval marking then chases a pointer chain without its end marker.  The two lower-capacity passes test the
    initial capacity against zero when they initialise the pointers; the rule demands the same of every pass that uses the idiom:
    before the main loop, some initialisation loop has a body path on which the initial capacity of interval i is known to be zero and
    which stores into the pointer array, and another on which it is known to be non-zero."""
    ctx.rule("R-HALL-PRECOND")
    mod = f"{prog.package}.propagators.gcc_propagator"
    n_inst = 0
    m = prog.modules.get(mod)
    if m is None:
        raise AnalysisError(f"anchor module vanished: {mod}")
    for fn in list(m.functions.values()):
        idioms = _merge_idioms(fn)
        if not idioms:
            continue
        ctx.fn(fn.fq)
        it = Interp(prog, inline_filter=_never)
        res = it.run(fn)
        for D, T, loop_node in {(d, t, id(l)): (d, t, l) for d, t, l in idioms}.values():
            n_inst += 1
            verdicts: List[bool] = []
            for r in res:
                evs = [e for e in r.state.trace if e.kind in ("loop", "iter") and e.loop is not None]
                top = min((e.depth for e in evs), default=0)
                evs = [e for e in evs if e.depth == top]
                if not any(e.loop.node is loop_node for e in evs):
                    continue
                zero_path = nonzero_path = False
                for e in evs:
                    l = e.loop
                    if l.node is loop_node:
                        break
                    if l.index is None:
                        continue
                    for bp in l.paths:
                        try:
                            dv = it.scalar(bp.state, it.load(bp.state, View(D, (l.index,))))
                        except AnalysisError:
                            continue
                        if not isinstance(dv, Aff):
                            continue
                        f = bp.state.facts
                        if f.decide(cmp_cond("<=", dv, ZERO)) is True:
                            if any(x.kind == "store" and x.root == T for x in bp.events):
                                zero_path = True
                        elif f.decide(cmp_cond("!=", dv, ZERO)) is True or f.decide(cmp_cond(">", dv, ZERO)) is True:
                            nonzero_path = True
                verdicts.append(zero_path and nonzero_path)
            if not verdicts:
                raise AnalysisError(f"{fn.fq}: no path reaches the loop with the merge idiom")
            if not all(verdicts):
                ctx.violation("R-HALL-PRECOND", fn.path, fn.name, f"zero-capacity-intervals:{D}", (fn.path, getattr(loop_node, "lineno", fn.node.lineno)),
                              f"{fn.name} merges an interval into its neighbour only when its remaining capacity {D}[z] *reaches* zero, and the "
                              f"initialisation of {T} does not single out the intervals whose capacity is zero from the start (every value between "
                              "two consecutive bounds has capacity zero): such an interval is never skipped, its counter goes negative, and on an "
                              "infeasible instance path_set then chases a pointer chain without its end marker -- the call never returns (e.g. "
                              "domains [(0,1),(0,3),(1,2)], parameters [0, 1,0,1,0, 1,0,1,0])")
            else:
                ctx.ok("R-HALL-PRECOND", f"{fn.name}: the initialisation of {T} singles out the intervals whose initial capacity {D}[i] is zero",
                       sample={"function": fn.name, "capacity": D, "pointers": T})
    ctx.floor("R-HALL-PRECOND", n_inst, 4)


# ------------------------------------------------------------------------------------------ generic modular analysis (call chains)
def _len_in_caller(it: Interp, f: Facts, st: State, av: View) -> Optional[Aff]:
    """Length (first axis) of an array argument, in the caller's terms; None when it cannot be expressed."""
    shp = _shape_of(it, st, av.root)
    base = shp[0] if shp is not None else Aff.atom(("len", av.root, ()))
    if not av.idx:
        return base
    if len(av.idx) == 1 and isinstance(av.idx[0], tuple) and av.idx[0][0] == "slice":
        lo = av.idx[0][1] if isinstance(av.idx[0][1], Aff) else ZERO
        hi = av.idx[0][2] if isinstance(av.idx[0][2], Aff) else base
        g = f.copy()
        g.add(cmp_cond(">=", base, ZERO))
        if g.decide(cmp_cond("<=", hi, base)) is True and g.decide(cmp_cond(">=", lo, ZERO)) is True and g.decide(cmp_cond("<=", lo, hi)) is True:
            return hi - lo
    return None


def derive_call_facts(it: Interp, f: Facts, st: State, e: Event, callee: FuncInfo) -> List[Tuple]:
    """What the caller establishes about the callee's parameters at this call site, from a candidate set of order relations between
    the callee's scalar parameters, the lengths of its array parameters and the constant 0."""
    arrs = _array_params(callee)
    qs: List[Tuple[Aff, Aff]] = []  # (callee quantity, caller value)
    for pn, a in zip(callee.params, e.args):
        av = as_view(a)
        if pn in arrs and isinstance(av, View):
            L = _len_in_caller(it, f, st, av)
            if L is not None:
                qs.append((Aff.atom(("len", pn, ())), L))
        elif pn not in arrs:
            v = it.value_at(st, e.hpos, a)
            if isinstance(v, Aff):
                qs.append((_init(pn), v))
    out: List[Tuple] = []
    g = f.copy()
    for q, v in qs:
        if g.decide(cmp_cond(">=", v, ZERO)) is True:
            out.append(cmp_cond(">=", q, ZERO))
    for i, (q1, v1) in enumerate(qs):
        for j, (q2, v2) in enumerate(qs):
            if i == j:
                continue
            if g.decide(cmp_cond("<", v1, v2)) is True:
                out.append(cmp_cond("<", q1, q2))
            elif g.decide(cmp_cond("<=", v1, v2)) is True:
                out.append(cmp_cond("<=", q1, q2))
    return out


def analyse_under(prog: Program, fn: FuncInfo, facts: List[Tuple]) -> Tuple[List[Dict[str, Any]], Dict[str, List[List[Tuple]]]]:
    """Sites of `fn` analysed under `facts` (no inlining) + for every callee the facts derived at each of its call sites."""
    it = Interp(prog, inline_filter=_never)
    it.track_index = True
    st0 = State()
    for c in facts:
        st0.facts.add(c)
    res = it.run(fn, state=st0)
    loops: List[LoopSummary] = []
    for r in res:
        for l in _all_loops(r.state.trace):
            if l not in loops:
                loops.append(l)
    arrs = _array_params(fn)
    scalars = [_init(p) for p in fn.params if p not in arrs]
    inv_all: List[Tuple[str, Aff]] = []
    for l in loops:
        pre_vals: Dict[str, Aff] = {}
        for nm in l.assigned:
            v0 = l.pre_env.get(nm)
            if isinstance(v0, (Aff, Dual)) or (isinstance(v0, View) and not v0.idx and v0.root in fn.params and v0.root not in arrs):
                pv = it.scalar(State(), v0)
                if _shape_only(pv, set(fn.params)) or pv.is_const():
                    pre_vals[nm] = pv
        if pre_vals:
            inv_all.extend(inductive(it, l, st0.facts, pre_vals, default_candidates(l, pre_vals, scalars[:3], triples=False)))
    vdn = _value_driven_names(fn)
    paths: List[PathResult] = list(res)
    for l in loops:
        paths.extend(l.paths)
    sites: Dict[Tuple[int, int], Dict[str, Any]] = {}
    calls: Dict[str, List[List[Tuple]]] = {}
    seen = set()
    seen_calls = set()
    for pr in paths:
        s = pr.state
        f = s.facts.copy()
        for _, E in inv_all:
            f.add(("ge0", E))
        if f.infeasible_strong():
            continue  # a path the loop invariants rule out (e.g. 'left the scan with i > n')
        for e in s.trace:
            if e.kind == "call" and e.name and id(e) not in seen_calls:
                seen_calls.add(id(e))
                bare = e.name.split(":")[-1]
                rs = prog.resolve(fn.module, bare) if "." not in bare else None
                if rs and rs[0] == "func" and rs[1].njit and len(rs[1].params) == len(e.args):
                    calls.setdefault(rs[1].fq, []).append(derive_call_facts(it, f, s, e, rs[1]))
            if e.kind != "index":
                continue
            # (an event of the common prefix of two paths is judged on each of them: the facts that follow differ)
            base_idx, new = e.value
            cur = tuple(base_idx)
            for k, c in enumerate(new):
                if not isinstance(c, Aff):
                    cur = cur + (c,)
                    continue
                if c.is_const():
                    cur = _advance(cur, c)
                    continue
                key = (id(e.node), k)
                src = ast.unparse(e.node) if e.node is not None else "?"
                rec = sites.setdefault(key, {"function": fn.name, "expr": src, "axis": k, "line": getattr(e.node, "lineno", 0), "verdicts": set(),
                                             "index": show_val(c), "extent": "?", "shape_only": _shape_only(c, set(fn.params), vdn)})
                ext = _extent2(it, s, e.root, cur)
                verdict = "unproved"
                if ext is not None:
                    rec["extent"] = show_val(ext)
                    lo = f.decide(cmp_cond(">=", c, ZERO))
                    hi = f.decide(cmp_cond("<", c, ext))
                    if lo is True and hi is True:
                        verdict = "proved"
                    else:
                        rec["why"] = ("lower bound " if lo is not True else "") + ("upper bound" if hi is not True else "")
                    if hi is not True:
                        # is the index tested against the size of this very array on this path?  (a condition of the path mentions both an
                        # atom of the index and an atom of the extent / the length of the array): then the test is meant to keep the index
                        # inside the array, and it does not
                        ia = set(atoms_in(c))
                        ea = set(atoms_in(ext)) | {("len", e.root, ())}
                        for cnd in f.conds:
                            ca = set(atoms_in(cnd))
                            if ca & ia and ca & ea:
                                rec["tested_against_extent"] = True
                                break
                rec["verdicts"].add(verdict)
                cur = _advance(cur, c)
    out = []
    for rec in sites.values():
        v = rec.pop("verdicts")
        rec["verdict"] = "proved" if v == {"proved"} else "unproved"
        out.append(rec)
    return out, calls


def rule_example_kernels(ctx: Ctx, prog: Program) -> None:
    """The jitted kernels shipped with the examples (a custom consistency algorithm and its helpers) run without bounds checks like the engine.
    Each is interpreted on its own (callees not inlined).  Two verdicts are definite: a shape index (loop indices, counters, lengths) that
    is not provably inside its array, and a value-driven index that the code itself tests against the size of the array it addresses while
    the test does not establish index < size (a guard that is one off).  Other value-driven sites are listed as undecided."""
    ctx.rule("R-SCRATCH")
    n = n_proved = 0
    for m in prog.modules.values():
        if ".examples." not in m.name:
            continue
        for fn in m.functions.values():
            if not fn.njit:
                continue
            n += 1
            ctx.fn(fn.fq)
            recs, _ = analyse_under(prog, fn, [])
            for rec in recs:
                inst = f"{fn.module.split('.')[-1]}.{rec['function']}:{rec['expr']}#{rec['axis']}"
                if rec["verdict"] == "proved":
                    n_proved += 1
                    ctx.ok("R-SCRATCH", inst)
                elif rec.get("tested_against_extent"):
                    ctx.violation("R-SCRATCH", fn.path, rec["function"], f"guard-one-off:{_norm(rec['expr'])}#{rec['axis']}", f"{fn.path}:{rec['line']}",
                                  f"{rec['function']}: the index of {rec['expr']} ({rec['index']}) is tested against the size of the array it addresses "
                                  f"({rec['extent']}) but the test does not establish index < size ({rec.get('why', 'unproved')}): the access one past the "
                                  "end is not excluded. Compiled code performs no bounds check")
                else:
                    ctx.undecided_site("R-SCRATCH", inst, "value-driven or caller-dependent index of an example kernel: " + rec.get("why", "unproved"))
    ctx.floor("R-SCRATCH:example-kernels", n, 3)


CHAINS = [("propagators.lexicographic_leq_propagator", "compute_domains_lexicographic_leq")]


def rule_call_chains(ctx: Ctx, prog: Program) -> None:
    """R-SCRATCH for propagators written as a chain of jitted helpers (lexicographic_leq: entry -> state 1 -> state 2 -> states 3/4): each
    function is analysed on its own under the order relations its callers establish between its scalar parameters and the lengths of its
    array parameters (intersection over all call sites); every shape index must be provably inside its array."""
    ctx.rule("R-SCRATCH")
    n_proved = 0
    for mod, name in CHAINS:
        entry = prog.func(f"{prog.package}.{mod}", name)
        pre: Dict[str, List[Tuple]] = {entry.fq: []}
        fns: Dict[str, FuncInfo] = {entry.fq: entry}
        order = [entry.fq]
        done: Set[str] = set()
        # callers before callees: the chain is a DAG; a callee is analysed once all its (discovered) callers have been
        pending_sites: Dict[str, List[List[Tuple]]] = {}
        guard = 0
        while order and guard < 40:
            guard += 1
            fq = order.pop(0)
            if fq in done:
                continue
            fn = fns[fq]
            ctx.fn(fn.fq)
            recs, calls = analyse_under(prog, fn, pre.get(fq, []))
            done.add(fq)
            for rec in recs:
                inst = f"{fn.module.split('.')[-1]}.{rec['function']}:{rec['expr']}#{rec['axis']}"
                if rec["verdict"] == "proved":
                    n_proved += 1
                    ctx.ok("R-SCRATCH", inst, sample={"index": rec["index"], "extent": rec["extent"], "assumed": [show_cond(c) for c in pre.get(fq, [])][:6]} if n_proved <= 2 else None)
                elif rec["shape_only"]:
                    ctx.violation("R-SCRATCH", fn.path, rec["function"], f"{_norm(rec['expr'])}#{rec['axis']}", f"{fn.path}:{rec['line']}",
                                  f"{rec['function']}: the index of {rec['expr']} ({rec['index']}) is not provably within the extent {rec['extent']} under what its "
                                  f"callers establish ({', '.join(show_cond(c) for c in pre.get(fq, [])[:8])}): {rec.get('why', 'unproved')}. Compiled code performs no bounds check")
                else:
                    ctx.undecided_site("R-SCRATCH", inst, f"index read from an array ({rec['index']})")
            for cfq, site_facts in calls.items():
                callee = prog.func(cfq.split(":")[0], cfq.split(":")[1])
                fns[cfq] = callee
                for sf in site_facts:
                    if cfq not in pre:
                        pre[cfq] = list(sf)
                    else:
                        pre[cfq] = [c for c in pre[cfq] if c in sf]
                if cfq not in done and cfq not in order:
                    order.append(cfq)
    ctx.floor("R-SCRATCH:chain-shape-sites-proved", n_proved, 30)
    ctx.extra["chain_sites_proved"] = n_proved
