"""C16 rules: R-EXTENT (index within extent, proved from path facts), R-TAINT-INDEX (clamps dominate value-derived
indices), R-NARROW-SCRATCH (narrow scratch dtypes)."""
from __future__ import annotations

import ast
import json
import os
from typing import Any, Dict, List, Optional, Tuple

from ..core import Ctx, VERIF
from ..interp import ALL, Dual, Event, Interp, LoopSummary, PathResult, State, Tup, View, as_view, NONE
from ..program import AnalysisError, FuncInfo, Program
from ..terms import Aff, K, ONE, S, ZERO, atoms_in, cmp_cond, show_cond, show_val
from .model import _all_loops

TABLE = os.path.join(VERIF, "nucsverif", "tables", "extent_sites.json")

# functions analysed in the quick tier (fast: loop-free or simple loops); the Hall-interval propagators are listed as undecided
QUICK_FUNCS = [
    ("propagators.element_iv_propagator", "compute_domains_element_iv"),
    ("propagators.element_lic_propagator", "compute_domains_element_lic"),
    ("propagators.element_liv_propagator", "compute_domains_element_liv"),
    ("propagators.no_sub_cycle_propagator", "compute_domains_no_sub_cycle"),
    ("propagators.and_propagator", "compute_domains_and"),
    ("propagators.max_eq_propagator", "compute_domains_max_eq"),
    ("propagators.min_eq_propagator", "compute_domains_min_eq"),
    ("propagators.max_leq_propagator", "compute_domains_max_leq"),
    ("propagators.min_geq_propagator", "compute_domains_min_geq"),
    ("propagators.scc_propagator", "compute_domains_scc"),
    ("propagators.affine_eq_propagator", "compute_domains_affine_eq"),
    ("propagators.affine_geq_propagator", "compute_domains_affine_geq"),
    ("propagators.affine_leq_propagator", "compute_domains_affine_leq"),
    ("propagators.count_eq_propagator", "compute_domains_count_eq"),
    ("propagators.exactly_eq_propagator", "compute_domains_exactly_eq"),
    ("propagators.exactly_true_propagator", "compute_domains_exactly_true"),
    ("propagators.relation_propagator", "compute_domains_relation"),
    ("propagators.propagators", "pop_propagator"),
    ("propagators.propagators", "add_propagators"),
]


def _extent_of(it: Interp, st: State, root: str, axis: int, base_idx: Tuple[Any, ...]) -> Optional[Aff]:
    """Extent of the dimension addressed by the next index component of view root[base_idx]."""
    org = it.allocs.get(root)
    hops = 0
    while org and org[0] == "copy" and isinstance(org[1], View) and not org[1].idx and hops < 4:
        # a copy has the shape of what it copies
        root = org[1].root
        org = it.allocs.get(root)
        hops += 1
    # number of already-fixed scalar components tells which axis of the root comes next
    fixed = sum(1 for c in base_idx if isinstance(c, Aff))
    open_comps = [c for c in base_idx if not isinstance(c, Aff)]
    if open_comps:
        c = open_comps[0]
        if isinstance(c, tuple) and c[0] == "slice":
            if len(base_idx) == 1:
                return it.len_of(View(root, base_idx), st)
            return None
        if c == ALL:
            axis_root = base_idx.index(c)
        else:
            return None
    else:
        axis_root = fixed
    if org and org[0] == "alloc" and org[2]:
        shape = org[2][0]
        if org[1] in ("numpy.array", "numpy.zeros_like", "numpy.empty_like"):
            return None
        if isinstance(shape, Tup):
            if axis_root < len(shape.items):
                return it.scalar(st, shape.items[axis_root])
            return None
        if axis_root == 0:
            return it.scalar(st, shape)
        return None
    if axis_root == 0:
        return it.len_of(View(root, ()), st)
    return Aff.atom(("dim", root, axis_root))


def analyse_function(prog: Program, fn: FuncInfo) -> List[Dict[str, Any]]:
    """All computed-index accesses of `fn` (callees inlined) with their verdict: proved / unproved."""
    it = Interp(prog, max_depth=6)
    it.track_index = True
    it.invariants = True
    res = it.run(fn)
    paths: List[PathResult] = list(res)
    for r in res:
        for l in _all_loops(r.state.trace):
            paths.extend(l.paths)
    sites: Dict[str, Dict[str, Any]] = {}
    seen_ev = set()
    loop_by_id: Dict[int, LoopSummary] = {}
    for pr in paths:
        for l in _all_loops(pr.state.trace):
            loop_by_id[l.loop_id] = l

    def shape_index(c: Aff) -> bool:
        if not _is_shape_index(c):
            return False
        for a in atoms_in(c):
            if isinstance(a, tuple) and a[0] == "lv":
                l = loop_by_id.get(a[2])
                pre = l.pre_env.get(a[1]) if l is not None else None
                pv = it.scalar(State(), pre) if isinstance(pre, (Aff, Dual)) else None
                if pv is not None and pv.is_const() and pv.c < 0:
                    return False  # a selection variable with a negative sentinel ('none chosen yet'): its use is guarded by data, not by shape
        return True
    for pr in paths:
        s = pr.state
        for e in pr.state.trace:
            if e.kind != "index":
                continue
            # (an event of the common prefix of two paths is judged on each of them: the facts that follow differ)
            base_idx, new = e.value
            node = e.node
            src = ast.unparse(node) if node is not None else "?"
            efn = (e.fn or "").split(":")[-1]
            cur_base = tuple(base_idx)
            for k, c in enumerate(new):
                if not isinstance(c, Aff):
                    cur_base = cur_base + (c,)
                    continue
                if c.is_const():
                    # constant subscripts: 0/1 (bounds), -1/-2 (from the end) and small positions are shape facts, not index arithmetic
                    cur_base = _advance(cur_base, c)
                    continue
                key = f"{efn}:{src}#{k}"
                ext = _extent_of(it, s, e.root, k, cur_base)
                verdict = "unproved"
                lo = None
                if ext is not None:
                    lo = s.facts.decide(cmp_cond(">=", c, ZERO))
                    hi = s.facts.decide(cmp_cond("<", c, ext))
                    if lo is True and hi is True:
                        verdict = "proved"
                    elif lo is False or hi is False:
                        verdict = "refuted"
                rec = sites.setdefault(key, {"key": key, "function": efn, "expr": src, "axis": k, "line": getattr(node, "lineno", 0), "verdicts": set(),
                                             "index": show_val(c), "extent": show_val(ext) if ext is not None else "?", "shape_only": shape_index(c),
                                             "foreign_extent": False, "lo_unproved": False})
                if lo is not True and s.facts.decide(cmp_cond("!=", c, K(-1))) is not True:
                    rec["lo_unproved"] = True  # on this path neither 0 <= index nor index != -1 (the usual 'none yet' sentinel) is known
                if ext is not None and verdict == "unproved" and lo is True:
                    # the index is bounded by the length of ONE parameter array and addresses ANOTHER parameter array: whether the two have the
                    # same extent is decided where they are allocated (R-SHAPES / R-INIT-COHERENCE), not inside this function
                    ext_roots = {a[1] for a in atoms_in(ext) if isinstance(a, tuple) and a[0] in ("len", "dim", "slen")}
                    if ext_roots and ext_roots <= set(fn.params) and all(isinstance(a, tuple) and a[0] in ("len", "dim", "slen") for a in atoms_in(ext)):
                        idx_atoms = set(atoms_in(c))
                        bound_roots = {a[1] for cnd in s.facts.conds if idx_atoms & set(atoms_in(cnd))
                                       for a in atoms_in(cnd) if isinstance(a, tuple) and a[0] in ("len", "dim", "slen")}
                        if bound_roots and not (ext_roots & bound_roots):
                            rec["foreign_extent"] = True
                rec["verdicts"].add(verdict)
                cur_base = _advance(cur_base, c)
    out = []
    for rec in sites.values():
        v = rec.pop("verdicts")
        rec["verdict"] = "proved" if v == {"proved"} else ("refuted" if "refuted" in v else "unproved")
        out.append(rec)
    return out


def _is_shape_index(c: Aff) -> bool:
    """An index made of loop indices, loop-carried counters and lengths only (no array contents): whether it is inside its array is a
    matter of loop ranges, clamps and allocation sizes -- decidable from the shape of the code."""
    for a in atoms_in(c):
        if not isinstance(a, tuple) or a[0] not in ("it", "lv", "len", "slen", "dim"):
            return False
    return True


def _advance(base: Tuple[Any, ...], c: Aff) -> Tuple[Any, ...]:
    lst = list(base)
    for i, x in enumerate(lst):
        if not isinstance(x, Aff):
            lst[i] = c
            return tuple(lst)
    return tuple(lst) + (c,)


def _caller_may_pass_negative(prog: Program, fn: FuncInfo, param: str) -> bool:
    """Does some call of fn inside the package pass, for `param`, a negative literal or a local that is assigned a negative literal?"""
    pos = fn.params.index(param)
    for g in prog.all_functions():
        if not g.module.startswith(prog.package + "."):
            continue
        for c in ast.walk(g.node):
            if not (isinstance(c, ast.Call) and isinstance(c.func, ast.Name) and c.func.id == fn.name and len(c.args) > pos):
                continue
            r = prog.resolve(g.module, c.func.id)
            if not (r and r[0] == "func" and r[1].fq == fn.fq):
                continue
            a = c.args[pos]

            def neg(e: ast.expr) -> bool:
                return (isinstance(e, ast.UnaryOp) and isinstance(e.op, ast.USub) and isinstance(e.operand, ast.Constant) and isinstance(e.operand.value, int)) \
                    or (isinstance(e, ast.Constant) and isinstance(e.value, int) and not isinstance(e.value, bool) and e.value < 0)
            if neg(a):
                return True
            if isinstance(a, ast.Name):
                for st in ast.walk(g.node):
                    if isinstance(st, ast.Assign) and any(isinstance(t, ast.Name) and t.id == a.id for t in st.targets) and neg(st.value):
                        return True
                    if isinstance(st, ast.Assign) and isinstance(st.value, ast.Tuple) or isinstance(st, ast.Assign) and len(st.targets) > 1:
                        for t in st.targets:  # a = b = -1
                            if isinstance(t, ast.Name) and t.id == a.id and neg(st.value):
                                return True
    return False


def load_table() -> Dict[str, Any]:
    if not os.path.exists(TABLE):
        raise AnalysisError(f"must-prove table missing: {TABLE}")
    with open(TABLE) as f:
        return json.load(f)


def rule_extents(ctx: Ctx, prog: Program) -> None:
    ctx.rule("R-EXTENT")
    table = load_table()
    must = {e["key"]: e for e in table["must_prove"]}
    undecided = {e["key"]: e for e in table["undecided"]}
    found = set()
    n_proved = 0
    for mod, name in QUICK_FUNCS:
        fn = prog.func(f"{prog.package}.{mod}", name)
        ctx.fn(fn.fq)
        for rec in analyse_function(prog, fn):
            key = rec["key"]
            found.add(key)
            loc = f"{fn.path}:{rec['line']}"
            if rec["verdict"] == "proved":
                n_proved += 1
                ctx.ok("R-EXTENT", key, sample={"index": rec["index"], "extent": rec["extent"]} if n_proved <= 3 else None)
            elif rec.get("shape_only") and rec.get("foreign_extent"):
                ctx.undecided_site("R-EXTENT", key, "index bounded by the length of one parameter array, used on another: extents agree by allocation (R-SHAPES, R-INIT-COHERENCE)")
            elif rec.get("shape_only"):
                # no frozen list of source texts: a shape index (loop index / counter / length) that cannot be shown inside its array is the violation
                ctx.violation("R-EXTENT", fn.path, rec["function"], f"{''.join(rec['expr'].split())}#{rec['axis']}", loc,
                              f"the index of {rec['expr']} (axis {rec['axis']}: {rec['index']}) is not provably within the extent {rec['extent']} "
                              f"({rec['verdict']}): the loop range / clamp / allocation that bounds it no longer does. Compiled code performs no bounds check")
            elif key in must:
                ctx.violation("R-EXTENT", fn.path, rec["function"], f"{rec['expr']}#{rec['axis']}", loc,
                              f"the index of {rec['expr']} (axis {rec['axis']}: {rec['index']}) is no longer provably within the extent {rec['extent']} "
                              f"({rec['verdict']}); on the pinned tree the path facts proved 0 <= index < extent. Compiled code performs no bounds check")
            elif rec.get("lo_unproved") and rec["index"] in fn.params and _caller_may_pass_negative(prog, fn, rec["index"]):
                # the index is a scalar parameter, a caller starts it from a negative sentinel ('none yet'), and on some path to this subscript
                # nothing excludes the sentinel
                ctx.violation("R-EXTENT", fn.path, rec["function"], f"sentinel-reaches-index:{''.join(rec['expr'].split())}#{rec['axis']}", loc,
                              f"{rec['expr']} is indexed by the parameter `{rec['index']}`, which a caller in the package initialises with a negative sentinel, "
                              "and on some path to this subscript nothing excludes the sentinel: index -1 is the last element when the array has one, and is "
                              "outside the array when it is empty (a model without constraints); compiled code performs no bounds check")
            elif key in undecided:
                ctx.undecided_site("R-EXTENT", key, undecided[key].get("reason", "value-dependent index"))
            else:
                if rec["verdict"] == "refuted":
                    ctx.violation("R-EXTENT", fn.path, rec["function"], f"{rec['expr']}#{rec['axis']}", loc,
                                  f"the index of {rec['expr']} (axis {rec['axis']}: {rec['index']}) is provably outside the extent {rec['extent']} on some path")
                else:
                    ctx.undecided_site("R-EXTENT", key, "new site, not provable from path facts (not in the triage table)")
                    ctx.extra.setdefault("new_unproved_sites", []).append(key)
    ctx.floor("R-EXTENT:sites-proved", n_proved, 20)
    ctx.extra["extent_sites_proved"] = n_proved
    ctx.extra["extent_sites_listed_undecided"] = len([k for k in found if k in undecided])
    ctx.assume("contents of pointer arrays of the Hall-interval propagators (t, h, sets, stbl_intervals, pot_stbl_sets, ds) are in range: not decided")
    ctx.assume("in-contract inputs: successor values of no_sub_cycle in [0, n-1]; cost tables of min-cost / max-regret cover the domain values; gcc values within [v0, v0+m-1]")


def rule_narrow_scratch(ctx: Ctx, prog: Program) -> None:
    """Scratch arrays with 16-bit elements hold ranks / positions bounded by the arity: the arity itself is bounded by the
    uint16 index types of the problem (props_dom_indices), so 2n+2 <= 2*65535+2 does NOT fit uint16 for n > 32766 -- listed, not claimed."""
    ctx.rule("R-NARROW-SCRATCH")
    n = 0
    for m in prog.modules.values():
        if ".propagators." not in m.name:
            continue
        for node in ast.walk(m.tree):
            if isinstance(node, ast.Call) and isinstance(node.func, ast.Attribute) and node.func.attr in ("zeros", "empty", "ones", "full"):
                for kw in node.keywords:
                    if kw.arg == "dtype" and ast.unparse(kw.value) in ("np.uint16", "np.int16", "np.uint8", "np.int8"):
                        n += 1
                        ctx.undecided_site("R-NARROW-SCRATCH", f"{m.relpath}:{ast.unparse(node)[:60]}",
                                           "narrow scratch dtype: holds positions bounded by the constraint's arity (contract: arity < 2^15)")
    ctx.extra["narrow_scratch_allocations"] = n


# ------------------------------------------------------------------------------------------ R-CLAMP-ORDER
def rule_clamp_order(ctx: Ctx, prog: Program) -> None:
    """A filtering function that clamps a domain cell to the index range of a list (`i[MIN] = max(i[MIN], 0)`, `i[MAX] = min(i[MAX], len(l) - 1)`)
    states that the cell may lie outside that range on entry.  Using the same cell as an index into that list *before* the clamp contradicts
    that belief: for an index variable instantiated outside the list the access is out of bounds (compiled code has no bounds checks).  Rule:
    in a function that contains such clamps at its top level, no subscript of the clamped list is indexed by the clamped cell(s) in a statement
    that precedes the clamps."""
    from .propagators import propagator_triples

    ctx.rule("R-CLAMP-ORDER")
    n_fn = 0
    for _, fn, _ in propagator_triples(prog):
        body = fn.node.body
        clamps: List[Tuple[int, str, str]] = []  # (statement position in the body, row text of the clamped cell, list name)
        for pos, st in enumerate(body):
            if not (isinstance(st, ast.Assign) and len(st.targets) == 1 and isinstance(st.targets[0], ast.Subscript) and isinstance(st.value, ast.Call)
                    and isinstance(st.value.func, ast.Name) and st.value.func.id in ("min", "max") and len(st.value.args) == 2):
                continue
            tgt = ast.unparse(st.targets[0])
            args = [ast.unparse(a) for a in st.value.args]
            if tgt not in args:
                continue
            other = st.value.args[1 - args.index(tgt)]
            lst = None
            if st.value.func.id == "min":
                for n in ast.walk(other):
                    if isinstance(n, ast.Call) and isinstance(n.func, ast.Name) and n.func.id == "len" and len(n.args) == 1 and isinstance(n.args[0], ast.Name):
                        lst = n.args[0].id
            row = ast.unparse(st.targets[0].value)  # `i` in i[MIN]
            if lst or (st.value.func.id == "max" and isinstance(other, ast.Constant) and other.value == 0):
                clamps.append((pos, row, lst or ""))
        upper = [(p_, r_, l_) for p_, r_, l_ in clamps if l_]
        if not upper:
            continue
        n_fn += 1
        ctx.fn(fn.fq)
        rows = {r_ for _, r_, _ in upper}
        clamps = [c for c in clamps if c[1] in rows]
        first = min(p_ for p_, _, _ in clamps)
        lists = {l_ for _, _, l_ in upper}
        bad = None
        for st in body[:first]:
            for n in ast.walk(st):
                if isinstance(n, ast.Subscript) and isinstance(n.value, ast.Name) and n.value.id in lists:
                    for x in ast.walk(n.slice):
                        if isinstance(x, ast.Subscript) and ast.unparse(x.value) in rows:
                            bad = (n, x)
        # the cell may also reach the subscript through a local bound before the clamp (j = i[MIN]; l[j])
        pre_locals = {}
        for st in body[:first]:
            for n in ast.walk(st):
                if isinstance(n, ast.Assign) and len(n.targets) == 1 and isinstance(n.targets[0], ast.Name) \
                        and any(isinstance(x, ast.Subscript) and ast.unparse(x.value) in rows for x in ast.walk(n.value)):
                    pre_locals[n.targets[0].id] = n
        for st in body:
            for n in ast.walk(st):
                if isinstance(n, ast.Subscript) and isinstance(n.value, ast.Name) and n.value.id in lists and bad is None:
                    for x in ast.walk(n.slice):
                        if isinstance(x, ast.Name) and x.id in pre_locals:
                            bad = (n, x)
        if bad is None:
            ctx.ok("R-CLAMP-ORDER", f"{fn.name}: the clamped index cell(s) {sorted(rows)} are not used as an index of {sorted(lists)} before the clamp",
                   sample={"clamps": len(clamps)})
        else:
            n, x = bad
            ctx.violation("R-CLAMP-ORDER", fn.path, fn.name, f"index-before-clamp:{ast.unparse(n.value)}", f"{fn.path}:{n.lineno}",
                          f"{fn.name} clamps {sorted(rows)} to the index range of {sorted(lists)} (line {body[first].lineno}) -- the index variable may lie outside "
                          f"it on entry -- but `{ast.unparse(n)}` uses `{ast.unparse(x)}` as an index before that clamp: with the index variable "
                          "instantiated outside the list the access is out of bounds (no bounds check in compiled code)")
    ctx.floor("R-CLAMP-ORDER:functions-with-clamps", n_fn, 3)
