"""Search-loop rules on solve_one and the enumeration generators:
R-SOLUTION, R-HANDOVER, R-SENTINEL, R-CAPACITY(2) (push guard), R-RESUME, SOLVER_* counters."""
from __future__ import annotations

import ast
from typing import Any, Dict, List, Optional, Tuple

from ..core import Ctx
from ..interp import ALL, Dual, EnumVal, Event, Interp, LoopSummary, RangeVal, PathResult, State, Tup, View, as_view, NONE
from ..program import AnalysisError, FuncInfo, Program
from ..roles import get_roles
from ..terms import Aff, Facts, K, ONE, S, ZERO, atoms_in, cmp_cond, negate, show_cond, show_val
from .engine import calls_named, loops_of, init, role_param, _call_result

BT_MOD = "solvers.backtrack_solver"


class SolveOne:
    def __init__(self, prog: Program, jit_disabled: bool):
        self.prog = prog
        self.fn = prog.func(f"{prog.package}.{BT_MOD}", "solve_one")
        self.mode = "interpreted" if jit_disabled else "compiled"
        self.it = Interp(prog, no_inline={"add_propagators": [0], "backtrack": None, "get_solution": []},
                         assume_globals={"NUMBA_DISABLE_JIT": jit_disabled})
        self.paths = self.it.run(self.fn)
        f = self.fn
        self.P = {r: role_param(prog, f, r) for r in (
            "statistics", "shr_domains_stack", "not_entailed_propagators_stack", "dom_update_stack", "stacks_top",
            "triggered_propagators", "triggers", "decision_domains", "dom_indices_arr", "dom_offsets_arr",
            "var_heuristic_params", "dom_heuristic_params")}
        self.loop: Optional[LoopSummary] = None
        for r in self.paths:
            for l in loops_of(r.state.trace):
                if any(e.kind == "icall" for bp in l.paths for e in bp.events):
                    self.loop = l
        if self.loop is None:
            raise AnalysisError("solve_one: no search loop found")
        self.pre_events: List[Event] = []
        for r in self.paths:
            for i, e in enumerate(r.events):
                if e.kind == "iter" and e.loop is self.loop:
                    self.pre_events = r.events[:i]
                    break
            if self.pre_events:
                break

    def icalls(self, bp: PathResult) -> List[Event]:
        return [e for e in bp.events if e.kind == "icall"]

    def table_of(self, e: Event) -> Optional[str]:
        """Which registry an indirect callee was taken from (G:REG[idx] or function_from_address(TYPE_X, addrs[idx]))."""
        rv = as_view(e.recv)
        if not isinstance(rv, View):
            return None
        if rv.root.startswith("G:"):
            return rv.root[2:]
        org = self.it.allocs.get(rv.root)
        if org and org[0] == "call" and org[1].endswith("function_from_address"):
            t = as_view(org[2][0])
            if isinstance(t, View) and t.root.startswith("G:TYPE_"):
                return t.root[2:]
        return None


def solve_one_analyses(prog: Program) -> List[SolveOne]:
    c = getattr(prog, "_so", None)
    if c is None:
        c = [SolveOne(prog, False), SolveOne(prog, True)]
        prog._so = c  # type: ignore[attr-defined]
    return c


KIND = {"CONSISTENCY_ALG_FCTS": "alg", "TYPE_CONSISTENCY_ALG": "alg", "VAR_HEURISTIC_FCTS": "var", "TYPE_VAR_HEURISTIC": "var",
        "DOM_HEURISTIC_FCTS": "dom", "TYPE_DOM_HEURISTIC": "dom"}


def _classify(a: SolveOne, bp: PathResult) -> Dict[str, Event]:
    out: Dict[str, Event] = {}
    for e in a.icalls(bp):
        k = KIND.get(a.table_of(e) or "")
        if k and k not in out:
            out[k] = e
    return out


def rule_solve_one(ctx: Ctx, prog: Program, want: Tuple[str, ...] = ("R-SOLUTION", "R-HANDOVER", "R-COUNTER", "R-CAPACITY")) -> None:
    for w in want:
        ctx.rule(w)
    PB, PU, PI = prog.C("PROBLEM_BOUND"), prog.C("PROBLEM_UNBOUND"), prog.C("PROBLEM_INCONSISTENT")
    IDX = {n: prog.C(n) for n in ("STATS_IDX_SOLVER_SOLUTION_NB", "STATS_IDX_SOLVER_CHOICE_NB", "STATS_IDX_SOLVER_CHOICE_DEPTH")}
    max_push = max_registered_push(prog)
    for a in solve_one_analyses(prog):
        fn, it, P = a.fn, a.it, a.P
        ctx.fn(fn.fq)
        n_sol = n_choice = n_bt = 0
        for bp in a.loop.paths:
            s = bp.state
            ic = _classify(a, bp)
            if "alg" not in ic:
                ctx.violation("R-SOLUTION", fn.path, "solve_one", "no-propagation", fn.loc(), f"solve_one ({a.mode}): an iteration does not call the consistency algorithm")
                continue
            status = _call_result(bp.events, ic["alg"])
            f = s.facts
            is_b = f.decide(cmp_cond("==", status, K(PB)))
            is_u = f.decide(cmp_cond("==", status, K(PU)))
            stat_stores = [e for e in bp.events if e.kind == "store" and e.root == P["statistics"]]
            sol_incs = [e for e in stat_stores if tuple(e.idx) == (K(IDX["STATS_IDX_SOLVER_SOLUTION_NB"]),)]
            ch_incs = [e for e in stat_stores if tuple(e.idx) == (K(IDX["STATS_IDX_SOLVER_CHOICE_NB"]),)]
            dp_sets = [e for e in stat_stores if tuple(e.idx) == (K(IDX["STATS_IDX_SOLVER_CHOICE_DEPTH"]),)]
            gets = calls_named(bp.events, "get_solution")
            bts = calls_named(bp.events, "backtrack")
            returns_value = bp.outcome == "return" and not (it.scalar(s, bp.value) == NONE)
            # ---------------------------------------------------------------- R-SOLUTION
            if returns_value:
                n_sol += 1
                okk = is_b is True and len(gets) == 1 and as_view(bp.value) == as_view(gets[0].ret)
                if okk:
                    ga = [as_view(x) for x in gets[0].args]
                    okk = ga == [View(P["shr_domains_stack"], ()), View(P["stacks_top"], ()), View(P["dom_indices_arr"], ()), View(P["dom_offsets_arr"], ())]
                if "R-SOLUTION" in want:
                    if okk:
                        ctx.ok("R-SOLUTION", f"{a.mode}: a vector is returned only under status == PROBLEM_BOUND, = get_solution(stack, top, indices, offsets)")
                    else:
                        ctx.violation("R-SOLUTION", fn.path, "solve_one", "solution-return", f"{fn.path}:{_line(bp)}",
                                      f"solve_one ({a.mode}) returns a vector on a path where the consistency algorithm did not answer PROBLEM_BOUND, "
                                      "or the vector is not get_solution(stack, top, dom_indices, dom_offsets)")
                if "R-COUNTER" in want:
                    _one_inc(ctx, fn, a.mode, "SOLVER_SOLUTION_NB", sol_incs, it, s, "a solution is returned")
            elif "R-COUNTER" in want and sol_incs:
                ctx.violation("R-COUNTER", fn.path, "solve_one", "SOLVER_SOLUTION_NB:extra", f"{fn.path}:{sol_incs[0].line}",
                              "the solution counter is incremented on a path that does not return a solution")
            if bp.outcome == "return" and not returns_value and "R-SOLUTION" in want:
                okk = len(bts) >= 1 and f.decide(cmp_cond("==", _call_result(bp.events, bts[-1]), ZERO)) is True and is_b is False and is_u is False
                if okk:
                    ctx.ok("R-SOLUTION", f"{a.mode}: None only after a failed backtrack on an inconsistent state")
                elif any(e.kind == "store" and e.root in fn.params and e.root != P["statistics"] for e in bp.events) and is_u is True and "dom" not in ic:
                    ctx.ok("R-SOLUTION", f"{a.mode}: None with a mark left in a parameter when there is no room to branch (whether every caller reads the mark: R-CAPACITY refusal-not-reported)")
                else:
                    ctx.violation("R-SOLUTION", fn.path, "solve_one", "none-return", f"{fn.path}:{_line(bp)}",
                                  f"solve_one ({a.mode}) gives up (returns None) on a path other than 'inconsistent and nothing left to backtrack to'")
            # ----------------------------------------------------------------- choices
            if "dom" in ic:
                n_choice += 1
                ev_dom = ic["dom"]
                if is_u is not True:
                    ctx.violation("R-HANDOVER", fn.path, "solve_one", "branch-status", f"{fn.path}:{ev_dom.line}",
                                  f"solve_one ({a.mode}) branches on a path where the status is not PROBLEM_UNBOUND")
                ev_var = ic.get("var")
                if ev_var is None or bp.events.index(ev_var) > bp.events.index(ev_dom):
                    ctx.violation("R-HANDOVER", fn.path, "solve_one", "no-var-heuristic", f"{fn.path}:{ev_dom.line}", "the value heuristic is called without a variable heuristic result")
                    continue
                d = _call_result(bp.events, ev_var)
                va = [as_view(x) for x in ev_var.args]
                if va != [View(P["var_heuristic_params"], ()), View(P["decision_domains"], ()), View(P["shr_domains_stack"], ()), View(P["stacks_top"], ())]:
                    ctx.violation("R-HANDOVER", fn.path, "solve_one", "var-heuristic-args", f"{fn.path}:{ev_var.line}",
                                  f"variable heuristic called with {[repr(x) for x in va]}")
                da = list(ev_dom.args)
                exp = [P["dom_heuristic_params"], P["shr_domains_stack"], P["not_entailed_propagators_stack"], P["dom_update_stack"], P["stacks_top"]]
                okd = len(da) == 6 and [as_view(x) for x in da[:5]] == [View(r, ()) for r in exp] and it.value_at(s, ev_dom.hpos, da[5]) == d
                if "R-HANDOVER" in want:
                    if okd:
                        ctx.ok("R-HANDOVER", f"{a.mode}: value heuristic receives the variable heuristic's answer and this solver's stacks")
                    else:
                        ctx.violation("R-HANDOVER", fn.path, "solve_one", "dom-heuristic-args", f"{fn.path}:{ev_dom.line}",
                                      f"value heuristic called with {[repr(x) for x in da]}: expected (params, stack, flags, updates, top, chosen domain)")
                    adds = [e for e in calls_named(bp.events, "add_propagators") if bp.events.index(e) > bp.events.index(ev_dom)]
                    evr = _call_result(bp.events, ev_dom)
                    okh = False
                    if len(adds) == 1:
                        aa = adds[0].args
                        row = as_view(aa[1])
                        top_now = it.load_at(s, adds[0].hpos, P["stacks_top"], (K(0),))
                        mask = it.value_at(s, adds[0].hpos, aa[4])
                        mask_ok = mask == evr or (mask.single_atom() is not None and mask.single_atom()[0] == "bitor" and evr in (mask.single_atom()[1], mask.single_atom()[2]))
                        okh = (
                            as_view(aa[0]) == View(P["triggered_propagators"], ()) and isinstance(row, View) and row.root == P["not_entailed_propagators_stack"]
                            and len(row.idx) == 1 and row.idx[0] == top_now and as_view(aa[2]) == View(P["triggers"], ())
                            and it.value_at(s, adds[0].hpos, aa[3]) == d and mask_ok
                        )
                    row_ok = True
                    if len(adds) == 1:
                        row = as_view(adds[0].args[1])
                        top_now = it.load_at(s, adds[0].hpos, P["stacks_top"], (K(0),))
                        # a row at or below the current level enables a superset of the current row (rows below the top are frozen copies
                        # taken before further constraints were disabled): waking through it is harmless; a row above is stale
                        row_ok = isinstance(row, View) and row.root == P["not_entailed_propagators_stack"] and len(row.idx) == 1 and isinstance(row.idx[0], Aff) \
                            and (row.idx[0] == top_now or (_nonneg(f, top_now).decide(cmp_cond("<=", row.idx[0], top_now)) is True and f.decide(cmp_cond(">=", row.idx[0], ZERO)) is True))
                        if not okh and row_ok and not (row.idx[0] == top_now):
                            aa = adds[0].args
                            okh = (as_view(aa[0]) == View(P["triggered_propagators"], ()) and as_view(aa[2]) == View(P["triggers"], ())
                                   and it.value_at(s, adds[0].hpos, aa[3]) == d and mask_ok)
                    if not row_ok:
                        ctx.violation("R-HANDOVER", fn.path, "solve_one", "announce-row", f"{fn.path}:{ev_dom.line}",
                                      f"solve_one ({a.mode}): the decision is announced against {row!r}, which is not the enabled-flags row of the new top level "
                                      "(nor a level below it): constraints disabled or enabled there are not those of the current node")
                    elif okh:
                        ctx.ok("R-HANDOVER", f"{a.mode}: returned events announced for the chosen domain on the new top row",
                               sample={"add_propagators": [repr(x) for x in adds[0].args]})
                    else:
                        ctx.violation("R-HANDOVER", fn.path, "solve_one", "announce-branch", f"{fn.path}:{ev_dom.line}",
                                      f"solve_one ({a.mode}): the events returned by the value heuristic must be announced once, for the chosen domain, "
                                      "against the enabled-flags row of the new top level")
                # counters
                if "R-COUNTER" in want:
                    _one_inc(ctx, fn, a.mode, "SOLVER_CHOICE_NB", ch_incs, it, s, "a value heuristic is called")
                    top_after = it.load_at(s, len(s.heap) if not dp_sets else dp_sets[0].hpos, P["stacks_top"], (K(0),))
                    depth_before = Aff.atom(("hav", _havoc_id_of(s, P["statistics"], ev_dom), P["statistics"], (K(IDX["STATS_IDX_SOLVER_CHOICE_DEPTH"]),)))
                    gt = None
                    for e in bp.events:
                        if e.kind == "branch" and e.cond is not None and bp.events.index(e) > bp.events.index(ev_dom):
                            names = [x for x in atoms_in(e.cond) if isinstance(x, tuple) and x[0] in ("hav", "init") and (x[2] if x[0] == "hav" else x[1]) == P["statistics"]]
                            if names:
                                gt = e
                    if dp_sets:
                        v = it.value_at(s, dp_sets[0].hpos, dp_sets[0].value)
                        okdp = len(dp_sets) == 1 and v == top_after and gt is not None and _is_gt(gt, top_after, P["statistics"], IDX["STATS_IDX_SOLVER_CHOICE_DEPTH"], True)
                        if okdp:
                            ctx.ok("R-COUNTER", f"{a.mode}: SOLVER_CHOICE_DEPTH = max(depth, new top)")
                        else:
                            ctx.violation("R-COUNTER", fn.path, "solve_one", "SOLVER_CHOICE_DEPTH", f"{fn.path}:{dp_sets[0].line}",
                                          "the depth statistic must be set to the new stack level exactly when that level exceeds it")
                    else:
                        okdp = gt is not None and _is_gt(gt, top_after, P["statistics"], IDX["STATS_IDX_SOLVER_CHOICE_DEPTH"], False)
                        if okdp:
                            ctx.ok("R-COUNTER", f"{a.mode}: SOLVER_CHOICE_DEPTH unchanged when not exceeded")
                        else:
                            ctx.violation("R-COUNTER", fn.path, "solve_one", "SOLVER_CHOICE_DEPTH:missing", f"{fn.path}:{ev_dom.line}",
                                          "after a choice the depth statistic is not compared with the new stack level")
                # ------------------------------------------------------ capacity guard before the push
                if "R-CAPACITY" in want:
                    top_before = it.load_at(s, ev_dom.hpos, P["stacks_top"], (K(0),))
                    ln = Aff.atom(("len", P["shr_domains_stack"], ()))
                    q = cmp_cond("<", top_before.addc(max_push), ln)
                    if f.decide(q) is True:
                        ctx.ok("R-CAPACITY", f"{a.mode}: push guarded: top + {max_push} < len(stack) before branching", sample={"guard": show_cond(q)})
                    elif push_primitive_self_guarded(prog):
                        # no write past the stacks (the push primitive refuses a full stack), but the refusal happens behind a function
                        # pointer: it cannot be reported from there (R-SWALLOWED-RAISE) -- a capacity-reporting matter only
                        ctx.violation("R-CAPACITY", fn.path, "solve_one", "push-unreported", f"{fn.path}:{ev_dom.line}",
                                      f"nothing before the indirect value-heuristic call ensures stacks_top[0] + {max_push} < len(shr_domains_stack); the push "
                                      "primitive checks the level itself, so nothing is written past the stacks, but it is reached only through a "
                                      "function pointer, from where an error cannot be raised to the caller: a search deeper than stack_max_height is "
                                      "not reported")
                    else:
                        ctx.violation("R-CAPACITY", fn.path, "solve_one", "push-unguarded", f"{fn.path}:{ev_dom.line}",
                                      f"the value heuristic pushes up to {max_push} choice points but nothing before the call ensures "
                                      f"stacks_top[0] + {max_push} < len(shr_domains_stack): a search deeper than stack_max_height writes past the stacks "
                                      "(compiled code has no bounds check) instead of raising")
            else:
                if "R-COUNTER" in want and (ch_incs or dp_sets):
                    ctx.violation("R-COUNTER", fn.path, "solve_one", "SOLVER_CHOICE_NB:extra", f"{fn.path}:{(ch_incs + dp_sets)[0].line}",
                                  "choice statistics are modified on a path without a branching decision")
            # -------------------------------------------------------------- backtracking branch
            if bts and "R-SOLUTION" in want:
                n_bt += 1
                ba = [as_view(x) for x in bts[0].args]
                exp = [P["statistics"], P["not_entailed_propagators_stack"], P["dom_update_stack"], P["stacks_top"], P["triggered_propagators"], P["triggers"]]
                okb = len(bts) == 1 and ba == [View(r, ()) for r in exp] and is_b is False and is_u is False
                if okb:
                    ctx.ok("R-SOLUTION", f"{a.mode}: backtrack(statistics, flags, updates, top, queue, triggers) exactly on an inconsistent state")
                else:
                    ctx.violation("R-SOLUTION", fn.path, "solve_one", "backtrack-call", f"{fn.path}:{bts[0].line}",
                                  f"solve_one ({a.mode}): backtrack must be called once, with this solver's arrays, exactly when propagation failed")
        # a value heuristic called from a loop nested in the search loop (several decisions per propagation pass): the guard must hold
        # before *each* call, i.e. on the body paths of that inner loop, where the level pointer is what the previous decision left
        if "R-CAPACITY" in want:
            seen_loops: List[LoopSummary] = [a.loop]
            work = [l for bp in a.loop.paths for l in loops_of(bp.state.trace)]
            while work:
                l = work.pop()
                if any(l is x for x in seen_loops):
                    continue
                seen_loops.append(l)
                for bp in l.paths:
                    work.extend(loops_of(bp.state.trace))
                    for e in a.icalls(bp):
                        if KIND.get(a.table_of(e) or "") != "dom":
                            continue
                        top_before = it.load_at(bp.state, e.hpos, P["stacks_top"], (K(0),))
                        q = cmp_cond("<", top_before.addc(max_push), Aff.atom(("len", P["shr_domains_stack"], ())))
                        if bp.state.facts.decide(q) is True:
                            ctx.ok("R-CAPACITY", f"{a.mode}: push in a nested decision loop guarded: top + {max_push} < len(stack)")
                        else:
                            ctx.violation("R-CAPACITY", fn.path, "solve_one", "push-unguarded" if not push_primitive_self_guarded(prog) else "push-unreported", f"{fn.path}:{e.line}",
                                          f"solve_one ({a.mode}) calls the value heuristic from a loop nested in the search loop (several decisions per propagation "
                                          f"pass) and nothing on that loop's own path ensures stacks_top[0] + {max_push} < len(shr_domains_stack) before each call: the guard "
                                          "of the enclosing iteration is evaluated once, the pushes repeat -- a search deeper than stack_max_height writes past the "
                                          "stacks (compiled code has no bounds check) instead of raising")
        # the refusal itself: on the path where the guard finds no room, the search must not end like an exhausted search
        if "R-CAPACITY" in want:
            _refusal_is_reported(ctx, prog, a, PU)
        ctx.floor(f"solve_one:{a.mode}:solution-paths", n_sol, 1)
        ctx.floor(f"solve_one:{a.mode}:choice-paths", n_choice, 1)
        if "R-SOLUTION" in want:
            ctx.floor(f"R-SOLUTION:{a.mode}:backtrack-paths", n_bt, 2)


def _refusal_is_reported(ctx: Ctx, prog: Program, a: "SolveOne", PU: int) -> None:
    """With the status 'not solved, not failed' an iteration either branches or refuses (no room for a push).  A refusal that raises is
    reported by construction.  A refusal that *returns* looks, to every caller, like the end of an exhausted search -- unless it leaves a
    mark (a flag array among the parameters) and every function that calls solve_one looks at that mark."""
    fn, it, P = a.fn, a.it, a.P
    for bp in a.loop.paths:
        ic = _classify(a, bp)
        if "alg" not in ic or "dom" in ic or bp.outcome != "return":
            continue
        status = _call_result(bp.events, ic["alg"])
        if bp.state.facts.decide(cmp_cond("==", status, K(PU))) is not True:
            continue
        marks = sorted({e.root for e in bp.events if e.kind == "store" and e.root in fn.params and e.root != P["statistics"]})
        if not marks:
            ctx.violation("R-CAPACITY", fn.path, "solve_one", "refusal-not-reported", f"{fn.path}:{_line(bp)}",
                          f"solve_one ({a.mode}): when there is no room for a push the search returns (as it does when it is exhausted) instead of raising, "
                          "and leaves no mark: a search deeper than stack_max_height ends as 'no more solutions'")
            continue
        pos = {m: fn.params.index(m) for m in marks}
        missing: List[str] = []
        n_callers = 0
        for g in prog.all_functions():
            if g.njit or g.fq == fn.fq:
                continue
            for c in ast.walk(g.node):
                if not (isinstance(c, ast.Call) and isinstance(c.func, ast.Name) and c.func.id == fn.name):
                    continue
                n_callers += 1
                for m, k in pos.items():
                    if k >= len(c.args):
                        missing.append(g.qualname)
                        continue
                    txt = ast.unparse(c.args[k])
                    inside = {id(y) for y in ast.walk(c)}

                    def looks(node: ast.AST, skip: set) -> bool:
                        return any(id(y) not in skip and isinstance(y, (ast.Attribute, ast.Name, ast.Subscript)) and ast.unparse(y) == txt and isinstance(getattr(y, "ctx", None), ast.Load)
                                   for y in ast.walk(node))
                    ok_ = looks(g.node, inside)
                    if not ok_ and g.cls:
                        for y in ast.walk(g.node):
                            if isinstance(y, ast.Call) and isinstance(y.func, ast.Attribute) and isinstance(y.func.value, ast.Name) and y.func.value.id == "self":
                                h = prog.modules[g.module].classes.get(g.cls, {}).get(y.func.attr)
                                if h is not None and looks(h.node, set()):
                                    ok_ = True
                    if not ok_:
                        missing.append(g.qualname)
        if missing:
            for who in sorted(set(missing)):
                ctx.violation("R-CAPACITY", fn.path, who, "refusal-not-reported", f"{fn.path}:{_line(bp)}",
                              f"solve_one ({a.mode}) no longer raises when there is no room for a push: it sets '{marks[0]}' and returns like an exhausted search; "
                              f"{who} calls it and never looks at that mark -- there a search deeper than stack_max_height ends as 'no (more) solution' "
                              "(a partial enumeration, a non-optimal optimum) without any error")
        else:
            ctx.ok("R-CAPACITY", f"{a.mode}: a refused push is marked in '{marks[0]}' and each of the {n_callers} callers of solve_one looks at the mark")


def _nonneg(facts, top: Aff):
    g = facts.copy()
    g.add(cmp_cond(">=", top, ZERO))  # the level pointer is unsigned
    return g


def _line(bp: PathResult) -> int:
    for e in reversed(bp.events):
        if e.kind == "return":
            return e.line
    return 0


def _havoc_id_of(s: State, root: str, before: Event) -> int:
    for i in range(before.hpos - 1, -1, -1):
        st = s.heap[i]
        if st.root == root and st.havoc_id is not None:
            return st.havoc_id
    return -1


def _is_gt(e: Event, top: Aff, stats_root: str, idx: int, taken: bool) -> bool:
    """branch `top > statistics[idx]` with the expected outcome"""
    c = e.cond
    if c[0] != "ge0":
        return False
    a: Aff = c[1]
    # top - stat - 1 >= 0
    rest = a - top + ONE
    # `top > stat` (c == 0) or `top >= stat` (c == 1): storing an equal value is a no-op, both are a max-update
    if not rest.t or len(rest.t) != 1 or rest.c not in (0, 1) or rest.t[0][1] != -1:
        return False
    at = rest.t[0][0]
    root = at[2] if at[0] == "hav" else (at[1] if at[0] == "init" else None)
    cell = at[3] if at[0] == "hav" else (at[2] if at[0] == "init" else None)
    return root == stats_root and tuple(cell) == (K(idx),) and e.taken == taken


def _one_inc(ctx: Ctx, fn: FuncInfo, mode: str, label: str, incs: List[Event], it: Interp, s: State, when: str) -> None:
    okk = len(incs) == 1 and ((incs[0].aug is not None and incs[0].aug[0] == "Add" and incs[0].aug[1] == ONE)
                              or (isinstance(incs[0].value, Aff) and isinstance(incs[0].old, Aff) and (incs[0].value - incs[0].old) == ONE))
    if okk:
        ctx.ok("R-COUNTER", f"{mode}: {label} += 1 exactly once when {when}", sample={"line": incs[0].line})
    else:
        ctx.violation("R-COUNTER", fn.path, fn.name, f"{label}", f"{fn.path}:{incs[0].line if incs else fn.node.lineno}",
                      f"{label} must be incremented by exactly 1, once, on every path where {when} (found {len(incs)} modification(s))")


def push_primitive_self_guarded(prog: Program) -> bool:
    """Does cp_put establish, on every path that writes level T+1 of a stack, that T+1 is a valid level?"""
    c = getattr(prog, "_push_self_guarded", None)
    if c is not None:
        return c
    fn = prog.func(f"{prog.package}.solvers.choice_points", "cp_put")
    it = Interp(prog)
    res = it.run(fn)
    ok = True
    n = 0
    for r in res:
        if r.outcome == "raise":
            continue
        for e in r.events:
            if e.kind == "store" and e.root in fn.params[:2] and e.idx and isinstance(e.idx[0], Aff):
                n += 1
                if r.state.facts.decide(cmp_cond("<", e.idx[0], Aff.atom(("len", e.root, ())))) is not True \
                        and r.state.facts.decide(cmp_cond("<", e.idx[0], Aff.atom(("len", fn.params[0], ())))) is not True:
                    ok = False
    ok = ok and n > 0
    prog._push_self_guarded = ok  # type: ignore[attr-defined]
    return ok


def max_registered_push(prog: Program) -> int:
    """Largest net push of any registered value heuristic (from its abstract paths)."""
    c = getattr(prog, "_max_push", None)
    if c is not None:
        return c
    reg = prog.registry("DOM_HEURISTIC_FCTS")
    best = 0
    for ent in reg.entries:
        if not isinstance(ent, FuncInfo):
            continue
        it = Interp(prog)
        troot = ent.params[4] if len(ent.params) >= 5 else "stacks_top"
        T = init(troot, K(0))
        for r in it.run(ent):
            if r.outcome != "return":
                continue
            tops = [T]
            for e in r.events:
                if e.kind == "store" and e.root == troot:
                    tops.append(it.value_at(r.state, e.hpos + 1, View(troot, (K(0),))))
            for t in tops:
                d = t - T
                if d.is_const():
                    best = max(best, d.c)
                else:
                    best = max(best, 2)
    prog._max_push = best  # type: ignore[attr-defined]
    return best


# ------------------------------------------------------------------------ R-SENTINEL
def rule_sentinel(ctx: Ctx, prog: Program) -> None:
    ctx.rule("R-SENTINEL")
    MIN, MAX = prog.C("MIN"), prog.C("MAX")
    reg = prog.registry("VAR_HEURISTIC_FCTS")
    # is the answer tested against the sentinel before use in solve_one?
    tested = True
    for a in solve_one_analyses(prog):
        for bp in a.loop.paths:
            ic = _classify(a, bp)
            if "dom" in ic and "var" in ic:
                d = _call_result(bp.events, ic["var"])
                if bp.state.facts.decide(cmp_cond("!=", d, K(-1))) is not True and bp.state.facts.decide(cmp_cond(">=", d, ZERO)) is not True:
                    tested = False
    n = 0
    for ent in reg.entries:
        if not isinstance(ent, FuncInfo):
            raise AnalysisError(f"unresolved variable heuristic registration {ent}")
        n += 1
        ctx.fn(ent.fq)
        # (a) what a variable heuristic answers is used as a shared-domain index: it is the sentinel or an ELEMENT of decision_domains
        bad_ret = _returns_non_decision_domain(prog, ent)
        if bad_ret:
            ctx.violation("R-SENTINEL", ent.path, ent.name, "returns-non-decision-domain", ent.loc(),
                          f"{ent.name} returns {bad_ret}: the answer is used as a shared-domain index and must be an element of the decision_domains "
                          "array (or -1); a position in that array is a different thing as soon as decision_domains is not 0..n-1 in order")
            continue
        ctx.ok("R-SENTINEL", f"{ent.name}: answers an element of decision_domains or the sentinel")
        okk, why = _never_sentinel_when_open(prog, ent, MIN, MAX)
        if not okk and why.startswith("expected one scan"):
            # not the scan idiom (e.g. vectorised): nothing can be said about when the sentinel is answered
            ctx.undecided_site("R-SENTINEL", f"{ent.name}:sentinel-only-when-closed", f"no element-by-element scan of the decision domains to analyse ({why})")
            continue
        if okk:
            ctx.ok("R-SENTINEL", f"{ent.name}: answers the 'nothing to branch on' value only when no decision domain is open", sample={"proof": why})
        elif tested:
            ctx.ok("R-SENTINEL", f"{ent.name}: answer tested by the caller before use")
        else:
            ctx.violation("R-SENTINEL", ent.path, ent.name, "sentinel-with-open-domain", ent.loc(),
                          f"{ent.name} can answer -1 although a decision domain is still open ({why}); solve_one uses the answer as a domain index "
                          "without testing it")
    ctx.floor("R-SENTINEL:registered-variable-heuristics", n, 4)
    ctx.assume("decision domains determine all other domains: 'all decision domains instantiated but problem unbound' is outside the contract")


def _returns_non_decision_domain(prog: Program, fn: FuncInfo) -> Optional[str]:
    """None when every returned value is -1 or an element of the decision_domains parameter; otherwise a description of the offender."""
    if len(fn.params) != 4:
        raise AnalysisError(f"{fn.fq}: a variable heuristic takes 4 parameters")
    dd = fn.params[1]
    it = Interp(prog)
    res = [r for r in it.run(fn) if r.outcome == "return"]

    def is_elem(v: Aff, st: State, loops: List[LoopSummary], depth: int = 0) -> bool:
        if v.is_const():
            return v.c == -1
        at = v.single_atom()
        if at is None or v.c != 0 or v.t[0][1] != 1:
            return False
        if at[0] in ("init", "hav"):
            root = at[1] if at[0] == "init" else at[2]
            return root == dd
        if at[0] == "lv" and depth < 3:
            # a loop-carried selection: every assignment in the loop gives it an element (or keeps it), and it starts as an element / the sentinel
            for l in loops:
                if l.loop_id != at[2]:
                    continue
                pre = l.pre_env.get(at[1])
                if not (isinstance(pre, (Aff, Dual, View)) and is_elem(it.scalar(State(), pre), st, loops, depth + 1)):
                    return False
                for bp in l.paths:
                    nv = bp.state.env.get(at[1])
                    if nv is None:
                        continue
                    sv = it.scalar(bp.state, nv)
                    if not (sv == Aff.atom(at) or is_elem(sv, bp.state, loops, depth + 1)):
                        return False
                return True
        return False

    for r in res:
        loops = loops_of(r.state.trace)
        v = it.scalar(r.state, r.value)
        if not is_elem(v, r.state, loops):
            return show_val(v)
    return None


def _never_sentinel_when_open(prog: Program, fn: FuncInfo, MIN: int, MAX: int) -> Tuple[bool, str]:
    if len(fn.params) != 4:
        raise AnalysisError(f"{fn.fq}: a variable heuristic takes 4 parameters")
    prm, dd, stack, top = fn.params
    it = Interp(prog)
    it.invariants = True
    res = [r for r in it.run(fn) if r.outcome == "return"]
    T = init(top, K(0))
    loops = []
    for r in res:
        for l in loops_of(r.state.trace):
            v = as_view(l.iter_value)
            if isinstance(v, View) and v.root == dd and l not in loops:
                loops.append(l)
    if len(loops) != 1:
        return False, f"expected one scan over the decision domains, found {len(loops)}"
    loop = loops[0]
    # which post-loop returns may be the sentinel?
    sel_names = set()
    for r in res:
        in_loop = any(e.kind == "iter" and e.loop is loop for e in r.events) and not any(e.kind == "loop" and e.loop is loop for e in r.events)
        if in_loop:
            continue  # returned from inside the scan: checked below
        v = it.scalar(r.state, r.value)
        at = v.single_atom()
        if v.is_const():
            if v.c >= 0:
                continue
            sel_names.add(None)
        elif at is not None and at[0] == "lv" and at[2] == loop.loop_id:
            sel_names.add(at[1])
        elif at is not None and at[0] == "init" and at[1] == dd and v == Aff.atom(at):
            continue  # the scan was left (break) with an element of the decision domains selected: not the sentinel
        else:
            return False, f"returns {show_val(v)}"
    # first-iteration-state analysis: body run from the pre-loop values with 'this domain is open'
    fi = Interp(prog)
    fi.invariants = True
    st = State()
    st.env = dict(loop.pre_env)
    idx = Aff.atom(("it", "first-open"))
    elem = Aff.atom(("init", dd, (idx,)))
    lo = Aff.atom(("init", stack, (T, elem, K(MIN))))
    hi = Aff.atom(("init", stack, (T, elem, K(MAX))))
    st.facts.add(cmp_cond("<", lo, hi))
    st.facts.add(cmp_cond(">=", lo, K(-2**31)))
    st.facts.add(cmp_cond("<=", hi, K(2**31 - 1)))
    mx = Aff.atom(("obj", "ModVal(name='sys.maxsize')"))
    st.facts.add(cmp_cond(">=", mx, K(2**62)))
    fi.cur_fn.append(fn)
    try:
        fi.assign(loop.node.target, View(dd, (idx,)), st, loop.node)
        body = fi.exec_block(loop.node.body, st)
    finally:
        fi.cur_fn.pop()
    for bp in body:
        if bp.outcome == "return":
            v = fi.scalar(bp.state, bp.value)
            if not (v == elem):
                return False, f"an iteration on an open domain returns {show_val(v)}"
            continue
        if bp.outcome in ("break",):
            continue
        if None in sel_names:
            return False, "an iteration on an open domain falls through to the sentinel return"
        for nm in sel_names:
            v = bp.state.env.get(nm)
            sv = fi.scalar(bp.state, v) if v is not None else None
            if sv is None or not (sv == elem):
                conds = [show_cond(e.cond) for e in bp.events if e.kind == "branch" and e.value != "decided" and e.depth == 1][-1:]
                return False, f"starting from its initial state, the scan can leave '{nm}' at the sentinel on an open domain (undecided test: {conds})"
    # once selected never reset to a negative value
    for bp in loop.paths:
        for nm in sel_names:
            if nm is None:
                continue
            v = bp.state.env.get(nm)
            sv = it.scalar(bp.state, v)
            lvn = Aff.atom(("lv", nm, loop.loop_id))
            el = it.scalar(bp.state, View(dd, (loop.index,)))
            if not (sv == lvn or sv == el):
                return False, f"'{nm}' is assigned {show_val(sv)} inside the scan"
    return True, "first open domain met in the initial state is selected; a selection is never reset"


# -------------------------------------------------------------------------- R-RESUME
def rule_resume(ctx: Ctx, prog: Program) -> None:
    """Enumeration generators: SEARCH -> DELIVERED -> exactly one backtrack -> SEARCH; stop iff no solution / no alternative."""
    ctx.rule("R-RESUME")
    mod = f"{prog.package}.{BT_MOD}"
    for name, deliver in (("BacktrackSolver.solve", "yield"), ("BacktrackSolver.solve_and_queue", "put")):
        fn = prog.func(mod, name)
        ctx.fn(fn.fq)
        it = Interp(prog, no_inline={"solve_one": None, "backtrack": None, "get_function_addresses": [], "reset": None})
        res = it.run(fn)
        loops: List[LoopSummary] = []
        for r in res:
            for l in loops_of(r.state.trace):
                if l not in loops and any(calls_named(bp.events, "solve_one") for bp in l.paths):
                    loops.append(l)
        if len(loops) != 1:
            raise AnalysisError(f"{fn.fq}: expected one enumeration loop, found {len(loops)}")
        loop = loops[0]
        n = 0
        for bp in loop.paths:
            evs = bp.events
            so = calls_named(evs, "solve_one")
            bt = calls_named(evs, "backtrack")
            if len(so) != 1:
                ctx.violation("R-RESUME", fn.path, name, "one-search-per-iteration", fn.loc(), f"{name}: {len(so)} searches in one iteration")
                continue
            sol = as_view(so[0].ret)
            sol_atom = Aff.atom(("init", sol.root, ()))
            none = bp.state.facts.decide(("is", sol_atom, NONE))
            if deliver == "yield":
                delivered = [e for e in evs if e.kind == "yield" and as_view(e.value) == sol]
                other = [e for e in evs if e.kind == "yield" and as_view(e.value) != sol]
            else:
                delivered = [e for e in evs if e.kind == "mcall" and e.name == "put" and e.args and isinstance(e.args[0], Tup)
                             and len(e.args[0].items) == 3 and as_view(e.args[0].items[1]) == sol]
                other = []
            n += 1
            if none is True:
                okk = not delivered and not bt and bp.outcome in ("break", "return", "raise")  # (leaving by an error is leaving)
                _rv(ctx, fn, name, okk, "exhausted: leave the loop without delivering or backtracking", "stop-when-exhausted",
                    f"{name}: when the search reports no solution the loop must end (no delivery, no backtrack)")
            elif none is False:
                okk = len(delivered) == 1 and not other and len(bt) == 1 and evs.index(delivered[0]) < evs.index(bt[0])
                _rv(ctx, fn, name, okk, "solution: delivered exactly once, then exactly one backtrack", "deliver-then-backtrack",
                    f"{name}: every solution found must be delivered exactly once and followed by exactly one backtrack before the next search "
                    f"(found {len(delivered)} deliveries, {len(bt)} backtracks)")
                if len(bt) == 1:
                    ba = [as_view(x) for x in bt[0].args]
                    exp = ["self.statistics", "self.not_entailed_propagators_stack", "self.dom_update_stack", "self.stacks_top", "self.triggered_propagators", "self.problem.triggers"]
                    _rv(ctx, fn, name, ba == [View(x, ()) for x in exp], "backtrack on this solver's arrays", "backtrack-args",
                        f"{name}: backtrack called with {[repr(x) for x in ba]}")
                    r = _call_result(evs, bt[0])
                    failed = bp.state.facts.decide(cmp_cond("==", r, ZERO))
                    if failed is True:
                        _rv(ctx, fn, name, bp.outcome in ("break", "return"), "no alternative left: leave the loop", "stop-when-no-alternative",
                            f"{name}: when backtrack reports no alternative the enumeration must stop")
                    elif failed is False:
                        _rv(ctx, fn, name, bp.outcome in ("fall", "continue"), "alternative available: search again", "continue-when-alternative",
                            f"{name}: the enumeration stops although backtrack found an alternative (solutions are lost)")
                    else:
                        _rv(ctx, fn, name, False, "", "backtrack-result-untested", f"{name}: the result of backtrack is not tested")
                stores = [e for e in evs if e.kind == "store" and e.root and e.root.startswith("self.")]
                _rv(ctx, fn, name, not stores, "nothing else touches the solver state between delivery and backtrack", "no-other-store",
                    f"{name}: stores into {[e.root for e in stores]} between two searches")
            else:
                _rv(ctx, fn, name, False, "", "solution-untested", f"{name}: the result of the search is not tested against None")
            if deliver == "put":
                pass
        ctx.floor(f"R-RESUME:{name}:iteration-paths", n, 3)
        args_ok = _solve_one_args_ok(prog, fn.qualname)
        _rv(ctx, fn, name, args_ok, "solve_one receives this solver's arrays by role", "solve-one-args", f"{name}: an argument of solve_one is bound to a parameter of another role")


def _solve_one_arg_lists(prog: Program) -> Dict[str, List[str]]:
    """caller qualname -> the source text of the arguments it passes to solve_one (first call site)."""
    c = getattr(prog, "_so_args", None)
    if c is None:
        c = {}
        for g in prog.all_functions():
            if g.njit:
                continue
            for x in ast.walk(g.node):
                if isinstance(x, ast.Call) and isinstance(x.func, ast.Name) and x.func.id == "solve_one" and g.qualname not in c:
                    c[g.qualname] = [ast.unparse(a_) for a_ in x.args]
        prog._so_args = c  # type: ignore[attr-defined]
    return c


def _solve_one_args_ok(prog: Program, caller: str) -> bool:
    """The callers of solve_one are siblings: each hands over this solver's arrays in the same order.  A caller whose argument list differs
    from the one most callers use has bound an array to a parameter of another role (compared among callers, so that neither a renamed
    nor an added parameter of solve_one is an alarm)."""
    lists = _solve_one_arg_lists(prog)
    mine = lists.get(caller)
    if mine is None or len(lists) < 2:
        return False
    counts: Dict[Tuple[str, ...], int] = {}
    for v in lists.values():
        counts[tuple(v)] = counts.get(tuple(v), 0) + 1
    best = max(counts.items(), key=lambda kv: kv[1])
    if best[1] * 2 <= len(lists):
        raise AnalysisError("solve_one: its callers do not agree on an argument list (no majority to compare with)")
    return tuple(mine) == best[0]


def _rv(ctx: Ctx, fn: FuncInfo, name: str, okk: bool, inst: str, key: str, msg: str) -> None:
    if okk:
        ctx.ok("R-RESUME", f"{name}: {inst}")
    else:
        ctx.violation("R-RESUME", fn.path, name, key, fn.loc(), msg)


# ------------------------------------------------------------------------ R-COST-TABLE
def rule_cost_table(ctx: Ctx, prog: Program) -> None:
    """The heuristic parameter tables are indexed [shared domain][value] (one row of costs per domain).  Every registered heuristic that
    reads its table must use a domain index (its dom_idx argument, or an element of decision_domains) for the first axis and a value of that
    domain (a bound of it, or the index of a scan between its bounds) for the second.  A transposed access reads another domain's costs for
    square tables and runs outside the table otherwise.  Siblings (min-cost, max-regret) are thereby held to the same orientation."""
    ctx.rule("R-COST-TABLE")
    n = 0
    for regname in ("VAR_HEURISTIC_FCTS", "DOM_HEURISTIC_FCTS"):
        for ent in prog.registry(regname).entries:
            if not isinstance(ent, FuncInfo):
                continue
            prm = ent.params[0]
            is_var = regname.startswith("VAR")
            dd = ent.params[1] if is_var else None
            dom_param = None if is_var else ent.params[-1]
            stack = ent.params[2] if is_var else ent.params[1]
            it = Interp(prog)
            it.track_index = True
            res = it.run(ent)
            paths: List[PathResult] = list(res)
            for r in res:
                for l in _all_loops_local(r.state.trace):
                    paths.extend(l.paths)
            seen = set()
            for pr in paths:
                for e in pr.state.trace:
                    if e.kind != "index" or e.root != prm or id(e.node) in seen:
                        continue
                    base, new = e.value
                    # effective position in the table: an index applied to a slice taken earlier (costs = table[d, lo:hi + 1]; costs[v]) addresses
                    # column lo + v of the table
                    eff: List[Any] = []
                    for c in base:
                        eff.append(c if isinstance(c, Aff) else ("slice", c[1] if isinstance(c, tuple) and len(c) > 1 and isinstance(c[1], Aff) else ZERO))
                    for c in new:
                        k_ = next((i for i, x in enumerate(eff) if isinstance(x, tuple)), None)
                        if k_ is not None and isinstance(c, Aff):
                            eff[k_] = eff[k_][1] + c
                        elif k_ is not None:
                            eff[k_] = ("slice", (eff[k_][1] + c[1]) if isinstance(c, tuple) and len(c) > 1 and isinstance(c[1], Aff) else eff[k_][1])
                        else:
                            eff.append(c if isinstance(c, Aff) else ("slice", c[1] if isinstance(c, tuple) and len(c) > 1 and isinstance(c[1], Aff) else ZERO))
                    comps = [c for c in eff if isinstance(c, Aff)]
                    if len(comps) < 2:
                        continue
                    seen.add(id(e.node))
                    n += 1
                    a, b = comps[0], comps[1]
                    # a column computed from the index of a scan over the domain's values stays inside the scanned range
                    scan = next((l for l in _all_loops_local(pr.state.trace) + [l2 for r2 in res for l2 in _all_loops_local(r2.state.trace)]
                                 if l.index is not None and l.index.single_atom() is not None and l.index.single_atom() in atoms_in(b)
                                 and isinstance(l.iter_value, RangeVal)), None)
                    if scan is not None and b != scan.index:
                        rv = scan.iter_value
                        inside = pr.state.facts.entails(cmp_cond(">=", b, rv.start)) and pr.state.facts.entails(cmp_cond("<", b, rv.stop))
                        src0 = ast.unparse(e.node) if e.node is not None else "?"
                        if not inside:
                            ctx.violation("R-COST-TABLE", ent.path, ent.name, f"column-outside-scan:{''.join(src0.split())}", f"{ent.path}:{getattr(e.node, 'lineno', 0)}",
                                          f"{ent.name} scans the values {show_val(rv.start)} .. {show_val(rv.stop)} - 1 of the domain but reads column {show_val(b)} of its "
                                          f"table in {src0} (an index applied to a slice is relative to the slice): the cost read is that of another value, and the "
                                          "access runs past the row when the domain does not start at 0")
                            continue

                    def is_domain(x: Aff) -> bool:
                        at = x.single_atom()
                        if at is None:
                            return False
                        if at[0] == "init" and dom_param is not None and at[1] == dom_param:
                            return True
                        if at[0] in ("init", "hav") and dd is not None and (at[1] if at[0] == "init" else at[2]) == dd:
                            return True
                        return False

                    def is_value(x: Aff) -> bool:
                        for at in atoms_in(x):
                            if isinstance(at, tuple) and at[0] in ("init", "hav") and (at[1] if at[0] == "init" else at[2]) == stack:
                                return True  # a bound read from the domain stack
                            if isinstance(at, tuple) and at[0] == "it":
                                return True  # the index of a scan (its range is checked to be the domain by R-PARTITION selection-range)
                        return False

                    src = ast.unparse(e.node) if e.node is not None else "?"
                    if is_domain(a) and is_value(b) and not is_domain(b):
                        ctx.ok("R-COST-TABLE", f"{ent.name}: {src} is [domain][value]", sample={"row": show_val(a), "column": show_val(b)})
                    elif is_domain(b) and is_value(a):
                        ctx.violation("R-COST-TABLE", ent.path, ent.name, f"transposed:{''.join(src.split())}", f"{ent.path}:{getattr(e.node, 'lineno', 0)}",
                                      f"{ent.name} reads its parameter table as {src}: [value][domain] instead of [domain][value] (row {show_val(a)}, column {show_val(b)}): "
                                      "another domain's costs are used when the table is square, and the access leaves the table when it is not")
                    else:
                        ctx.undecided_site("R-COST-TABLE", f"{ent.name}:{src}", "orientation of the table access not recognised")
    ctx.floor("R-COST-TABLE:table-accesses", n, 1)


def _all_loops_local(events: List[Event], acc: Optional[List[LoopSummary]] = None) -> List[LoopSummary]:
    acc = [] if acc is None else acc
    for l in loops_of(events):
        if l not in acc:
            acc.append(l)
            for bp in l.paths:
                _all_loops_local(bp.events, acc)
    return acc
