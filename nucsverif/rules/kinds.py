"""R-INDEX-KIND: a number is a variable index or a shared-domain index, not both.

The engine has two index spaces that coincide only for models without shared domains: *variables* (positions in dom_indices / dom_offsets,
in a solution vector) and *shared domains* (axis 1 of the domain stack, rows of the wake-up table, elements of decision_domains, the values
stored in dom_indices).  Nothing in the types tells them apart and every test model uses the identity mapping, so a confusion is invisible to
the tests.  The rule infers, for every scalar parameter and every local bound once, the kinds its uses demand (an index into a role array at
an axis of known kind) and the kind its value has (read from dom_indices: a shared-domain index), propagates the demands of a callee's
parameter to the arguments bound to it, and reports a contradiction: one value used as both kinds, or a value of one kind used where the
other is demanded.  No specification is consulted: the two uses contradict each other, one of them is wrong (Engler et al.)."""
from __future__ import annotations

import ast
from typing import Dict, List, Optional, Set, Tuple

from ..core import Ctx
from ..program import AnalysisError, FuncInfo, Program
from ..roles import get_roles

VAR, DOM = "variable index", "shared-domain index"
# role of the array -> kind demanded at each axis (None = not an index space of interest)
AXES: Dict[str, Tuple[Optional[str], ...]] = {
    "dom_indices_arr": (VAR,), "dom_offsets_arr": (VAR,), "dom_indices_lst": (VAR,), "dom_offsets_lst": (VAR,),
    "shr_domains_stack": (None, DOM, None), "shr_domains_arr": (DOM, None), "shr_domains_lst": (DOM, None), "triggers": (DOM, None),
}
# role of the array -> kind of the values it holds
VALUES: Dict[str, str] = {"dom_indices_arr": DOM, "dom_indices_lst": DOM, "decision_domains": DOM, "props_dom_indices": DOM}


def _base_roles(roles, fn: FuncInfo, e: ast.expr, env: Dict[str, Set[str]]) -> Set[str]:
    if isinstance(e, ast.Name):
        if e.id in fn.params:
            return set(roles.of(fn, e.id))
        return set(env.get(e.id, set()))
    if isinstance(e, ast.Attribute):
        cur: ast.expr = e
        chain = []
        while isinstance(cur, ast.Attribute):
            chain.append(cur.attr)
            cur = cur.value
        if isinstance(cur, ast.Name) and cur.id in ("self", "problem", "solver"):
            return {chain[0]}
    return set()


def rule_index_kind(ctx: Ctx, prog: Program) -> None:
    ctx.rule("R-INDEX-KIND")
    roles = get_roles(prog)
    fns = [f for f in prog.all_functions() if ".examples." not in f.module]
    demands: Dict[Tuple[str, str], Dict[str, Tuple[str, int]]] = {}  # (fq, name) -> kind -> (where, line)
    value_kind: Dict[Tuple[str, str], Tuple[str, int]] = {}  # (fq, local) -> (kind, line)
    alias: Dict[Tuple[str, str], str] = {}  # (fq, local) -> parameter / local it copies

    def note(fq: str, name: str, kind: str, where: str, line: int) -> None:
        demands.setdefault((fq, name), {}).setdefault(kind, (where, line))

    n_sites = 0
    for f in fns:
        # locals bound exactly once by a plain assignment
        counts: Dict[str, int] = {}
        for n in ast.walk(f.node):
            tg: List[ast.expr] = []
            if isinstance(n, ast.Assign):
                tg = list(n.targets)
            elif isinstance(n, (ast.AugAssign, ast.AnnAssign, ast.For)):
                tg = [n.target]
            elif isinstance(n, ast.NamedExpr):
                tg = [n.target]
            for t in tg:
                for x in (t.elts if isinstance(t, (ast.Tuple, ast.List)) else [t]):
                    if isinstance(x, ast.Name):
                        counts[x.id] = counts.get(x.id, 0) + 1
        env: Dict[str, Set[str]] = {}
        for n in ast.walk(f.node):
            if isinstance(n, ast.Assign) and len(n.targets) == 1 and isinstance(n.targets[0], ast.Name) and counts.get(n.targets[0].id) == 1 \
                    and n.targets[0].id not in f.params:
                nm = n.targets[0].id
                v = n.value
                if isinstance(v, ast.Call) and isinstance(v.func, ast.Name) and v.func.id == "int" and len(v.args) == 1:
                    v = v.args[0]
                if isinstance(v, ast.Name):
                    alias[(f.fq, nm)] = v.id
                elif isinstance(v, ast.Subscript):
                    br = _base_roles(roles, f, v.value, env)
                    idx = v.slice.elts if isinstance(v.slice, ast.Tuple) else [v.slice]
                    if len(br) == 1 and next(iter(br)) in VALUES and not any(isinstance(i, ast.Slice) for i in idx) \
                            and len(idx) == len(AXES.get(next(iter(br)), (None,))):
                        value_kind[(f.fq, nm)] = (VALUES[next(iter(br))], n.lineno)
        # demands: index positions of role arrays
        for n in ast.walk(f.node):
            if not isinstance(n, ast.Subscript):
                continue
            br = _base_roles(roles, f, n.value, env)
            if len(br) != 1:
                continue
            role = next(iter(br))
            if role not in AXES:
                continue
            idx = n.slice.elts if isinstance(n.slice, ast.Tuple) else [n.slice]
            for k, ix in enumerate(idx):
                if k < len(AXES[role]) and AXES[role][k] and isinstance(ix, ast.Name):
                    n_sites += 1
                    note(f.fq, ix.id, AXES[role][k], f"{ast.unparse(n)} in {f.qualname}", n.lineno)
    # propagate: an argument that is a plain name inherits the demands on the callee's parameter; aliases inherit from / give to their source
    by_fq = {f.fq: f for f in fns}
    for _ in range(8):
        changed = False
        for e in roles.edges:
            if e.caller.fq not in by_fq or e.callee.fq not in by_fq:
                continue
            for j, src in enumerate(e.arg_src):
                if j >= len(e.callee.params) or not src.isidentifier():
                    continue
                for kind, (where, line) in list(demands.get((e.callee.fq, e.callee.params[j]), {}).items()):
                    cur = demands.setdefault((e.caller.fq, src), {})
                    if kind not in cur:
                        cur[kind] = (f"{where} (through {e.callee.qualname}({e.callee.params[j]}=))", e.node.lineno)
                        changed = True
        for (fq, nm), srcname in alias.items():
            for kind, w in list(demands.get((fq, nm), {}).items()):
                cur = demands.setdefault((fq, srcname), {})
                if kind not in cur:
                    cur[kind] = w
                    changed = True
        if not changed:
            break
    # a conflict is reported where the two kinds meet, not again in every caller that merely passes the value on
    inherited: Set[Tuple[str, str]] = set()
    for e in roles.edges:
        if e.caller.fq not in by_fq or e.callee.fq not in by_fq:
            continue
        for j, src in enumerate(e.arg_src):
            if j < len(e.callee.params) and src.isidentifier():
                ck = demands.get((e.callee.fq, e.callee.params[j]), {})
                if VAR in ck and DOM in ck:
                    inherited.add((e.caller.fq, src))
    n_bad = 0
    for (fq, nm), kinds in sorted(demands.items()):
        f = by_fq[fq]
        if (fq, nm) in alias or (fq, nm) in inherited:
            continue  # reported at its source
        vk = value_kind.get((fq, nm))
        if VAR in kinds and DOM in kinds:
            n_bad += 1
            (w1, l1), (w2, l2) = kinds[VAR], kinds[DOM]
            ctx.violation("R-INDEX-KIND", f.path, f.qualname, f"two-kinds:{nm}", f"{f.path}:{max(l1, l2)}",
                          f"in {f.qualname}, `{nm}` is used as a variable index ({w1}) and as a shared-domain index ({w2}): the two index spaces coincide "
                          "only for models without shared domains (all the tests), otherwise one of the two uses reads the wrong cell or runs past the array")
        elif vk and any(k != vk[0] for k in kinds):
            n_bad += 1
            k, (w, l) = next((k, v) for k, v in kinds.items() if k != vk[0])
            ctx.violation("R-INDEX-KIND", f.path, f.qualname, f"value-kind:{nm}", f"{f.path}:{l}",
                          f"in {f.qualname}, `{nm}` holds a {vk[0]} (read at line {vk[1]}) but is used as a {k} ({w}): the two index spaces coincide only for "
                          "models without shared domains (all the tests)")
    if not n_bad:
        ctx.ok("R-INDEX-KIND", "no value is used both as a variable index and as a shared-domain index", sample={"index_sites": n_sites, "names_with_a_kind": len(demands)})
    ctx.floor("R-INDEX-KIND:index-sites", n_sites, 10)
