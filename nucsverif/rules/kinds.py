"""R-INDEX-KIND: a number is a variable index or a shared-domain index, not both.

The engine has two index spaces that coincide only for models without shared domains: *variables* (positions in dom_indices / dom_offsets,
in a solution vector) and *shared domains* (axis 1 of the domain stack, rows of the wake-up table, elements of decision_domains, the values
stored in dom_indices).  Nothing in the types tells them apart and every test model uses the identity mapping, so a confusion is invisible to
the tests.  The rule infers, for every scalar parameter and every local bound once, the kinds its uses demand (an index into a role array at
an axis of known kind) and the kind its value has (read from dom_indices: a shared-domain index), propagates the demands of a callee's
parameter to the arguments bound to it, and reports a contradiction: one value used as both kinds, or a value of one kind used where the
other is demanded.  No specification is consulted: the two uses contradict each other, one of them is wrong (Engler et al.)."""
from __future__ import annotations

import ast
from typing import Dict, List, Optional, Set, Tuple

from ..core import Ctx
from ..program import AnalysisError, FuncInfo, Program
from ..roles import get_roles

VAR, DOM = "variable index", "shared-domain index"
# role of the array -> kind demanded at each axis (None = not an index space of interest)
AXES: Dict[str, Tuple[Optional[str], ...]] = {
    "dom_indices_arr": (VAR,), "dom_offsets_arr": (VAR,), "dom_indices_lst": (VAR,), "dom_offsets_lst": (VAR,),
    "shr_domains_stack": (None, DOM, None), "shr_domains_arr": (DOM, None), "shr_domains_lst": (DOM, None), "triggers": (DOM, None),
}
# role of the array -> kind of the values it holds
VALUES: Dict[str, str] = {"dom_indices_arr": DOM, "dom_indices_lst": DOM, "decision_domains": DOM, "props_dom_indices": DOM}


def _base_roles(roles, fn: FuncInfo, e: ast.expr, env: Dict[str, Set[str]]) -> Set[str]:
    if isinstance(e, ast.Name):
        if e.id in fn.params:
            return set(roles.of(fn, e.id))
        return set(env.get(e.id, set()))
    if isinstance(e, ast.Attribute):
        cur: ast.expr = e
        chain = []
        while isinstance(cur, ast.Attribute):
            chain.append(cur.attr)
            cur = cur.value
        if isinstance(cur, ast.Name) and cur.id in ("self", "problem", "solver"):
            return {chain[0]}
    return set()


def _kind_demands(prog: Program):
    c = getattr(prog, "_kind_demands", None)
    if c is not None:
        return c
    roles = get_roles(prog)
    fns = [f for f in prog.all_functions() if ".examples." not in f.module]
    demands: Dict[Tuple[str, str], Dict[str, Tuple[str, int]]] = {}  # (fq, name) -> kind -> (where, line)
    value_kind: Dict[Tuple[str, str], Tuple[str, int]] = {}  # (fq, local) -> (kind, line)
    alias: Dict[Tuple[str, str], str] = {}  # (fq, local) -> parameter / local it copies

    def note(fq: str, name: str, kind: str, where: str, line: int) -> None:
        demands.setdefault((fq, name), {}).setdefault(kind, (where, line))

    n_sites = 0
    for f in fns:
        # locals bound exactly once by a plain assignment
        counts: Dict[str, int] = {}
        for n in ast.walk(f.node):
            tg: List[ast.expr] = []
            if isinstance(n, ast.Assign):
                tg = list(n.targets)
            elif isinstance(n, (ast.AugAssign, ast.AnnAssign, ast.For)):
                tg = [n.target]
            elif isinstance(n, ast.NamedExpr):
                tg = [n.target]
            for t in tg:
                for x in (t.elts if isinstance(t, (ast.Tuple, ast.List)) else [t]):
                    if isinstance(x, ast.Name):
                        counts[x.id] = counts.get(x.id, 0) + 1
        env: Dict[str, Set[str]] = {}
        for n in ast.walk(f.node):
            if isinstance(n, ast.Assign) and len(n.targets) == 1 and isinstance(n.targets[0], ast.Name) and counts.get(n.targets[0].id) == 1 \
                    and n.targets[0].id not in f.params:
                nm = n.targets[0].id
                v = n.value
                if isinstance(v, ast.Call) and isinstance(v.func, ast.Name) and v.func.id == "int" and len(v.args) == 1:
                    v = v.args[0]
                if isinstance(v, ast.Name):
                    alias[(f.fq, nm)] = v.id
                elif isinstance(v, ast.Subscript):
                    br = _base_roles(roles, f, v.value, env)
                    idx = v.slice.elts if isinstance(v.slice, ast.Tuple) else [v.slice]
                    if len(br) == 1 and next(iter(br)) in VALUES and not any(isinstance(i, ast.Slice) for i in idx) \
                            and len(idx) == len(AXES.get(next(iter(br)), (None,))):
                        value_kind[(f.fq, nm)] = (VALUES[next(iter(br))], n.lineno)
        # demands: index positions of role arrays
        for n in ast.walk(f.node):
            if not isinstance(n, ast.Subscript):
                continue
            br = _base_roles(roles, f, n.value, env)
            if len(br) != 1:
                continue
            role = next(iter(br))
            if role not in AXES:
                continue
            idx = n.slice.elts if isinstance(n.slice, ast.Tuple) else [n.slice]
            for k, ix in enumerate(idx):
                if k < len(AXES[role]) and AXES[role][k] and isinstance(ix, ast.Name):
                    n_sites += 1
                    note(f.fq, ix.id, AXES[role][k], f"{ast.unparse(n)} in {f.qualname}", n.lineno)
    # propagate: an argument that is a plain name inherits the demands on the callee's parameter; aliases inherit from / give to their source
    by_fq = {f.fq: f for f in fns}
    for _ in range(8):
        changed = False
        for e in roles.edges:
            if e.caller.fq not in by_fq or e.callee.fq not in by_fq:
                continue
            for j, src in enumerate(e.arg_src):
                if j >= len(e.callee.params) or not src.isidentifier():
                    continue
                for kind, (where, line) in list(demands.get((e.callee.fq, e.callee.params[j]), {}).items()):
                    cur = demands.setdefault((e.caller.fq, src), {})
                    if kind not in cur:
                        cur[kind] = (f"{where} (through {e.callee.qualname}({e.callee.params[j]}=))", e.node.lineno)
                        changed = True
        for (fq, nm), srcname in alias.items():
            for kind, w in list(demands.get((fq, nm), {}).items()):
                cur = demands.setdefault((fq, srcname), {})
                if kind not in cur:
                    cur[kind] = w
                    changed = True
        if not changed:
            break
    prog._kind_demands = (demands, value_kind, alias, by_fq, n_sites, roles)  # type: ignore[attr-defined]
    return prog._kind_demands


def rule_index_kind(ctx: Ctx, prog: Program) -> None:
    ctx.rule("R-INDEX-KIND")
    demands, value_kind, alias, by_fq, n_sites, roles = _kind_demands(prog)
    # a conflict is reported where the two kinds meet, not again in every caller that merely passes the value on
    inherited: Set[Tuple[str, str]] = set()
    for e in roles.edges:
        if e.caller.fq not in by_fq or e.callee.fq not in by_fq:
            continue
        for j, src in enumerate(e.arg_src):
            if j < len(e.callee.params) and src.isidentifier():
                ck = demands.get((e.callee.fq, e.callee.params[j]), {})
                if VAR in ck and DOM in ck:
                    inherited.add((e.caller.fq, src))
    n_bad = 0
    for (fq, nm), kinds in sorted(demands.items()):
        f = by_fq[fq]
        if (fq, nm) in alias or (fq, nm) in inherited:
            continue  # reported at its source
        vk = value_kind.get((fq, nm))
        if VAR in kinds and DOM in kinds:
            n_bad += 1
            (w1, l1), (w2, l2) = kinds[VAR], kinds[DOM]
            ctx.violation("R-INDEX-KIND", f.path, f.qualname, f"two-kinds:{nm}", f"{f.path}:{max(l1, l2)}",
                          f"in {f.qualname}, `{nm}` is used as a variable index ({w1}) and as a shared-domain index ({w2}): the two index spaces coincide "
                          "only for models without shared domains (all the tests), otherwise one of the two uses reads the wrong cell or runs past the array")
        elif vk and any(k != vk[0] for k in kinds):
            n_bad += 1
            k, (w, l) = next((k, v) for k, v in kinds.items() if k != vk[0])
            ctx.violation("R-INDEX-KIND", f.path, f.qualname, f"value-kind:{nm}", f"{f.path}:{l}",
                          f"in {f.qualname}, `{nm}` holds a {vk[0]} (read at line {vk[1]}) but is used as a {k} ({w}): the two index spaces coincide only for "
                          "models without shared domains (all the tests)")
    if not n_bad:
        ctx.ok("R-INDEX-KIND", "no value is used both as a variable index and as a shared-domain index", sample={"index_sites": n_sites, "names_with_a_kind": len(demands)})
    ctx.floor("R-INDEX-KIND:index-sites", n_sites, 10)


# ------------------------------------------------------------------------------------------ counts and positions
def _len_kind(e: ast.expr, params: List[str]) -> Optional[Tuple[str, str]]:
    """(kind, list) when e is len(<a list whose first axis has a known kind>)"""
    if isinstance(e, ast.Call) and isinstance(e.func, ast.Name) and e.func.id == "len" and len(e.args) == 1:
        a = e.args[0]
        nm = a.attr if isinstance(a, ast.Attribute) else a.id if isinstance(a, ast.Name) else None
        if nm in AXES and AXES[nm][0]:
            return AXES[nm][0], nm
    return None


def rule_count_kind(ctx: Ctx, prog: Program) -> None:
    """The same two index spaces, seen through counts and positions.  (a) An attribute that sizes the shared-domain axis of an engine array
    (the domain stack, the wake-up table) is a number of shared domains: it may be set from the length of the list of shared domains, not
    from the length of the variable -> domain table (they differ as soon as two variables share a domain).  (b) A method of the model that
    returns `len(<list>)` taken before it appends returns a position in that list: if the package uses the result where a variable index is
    demanded (the variable list of a constraint), the list must be the per-variable one."""
    ctx.rule("R-INDEX-KIND")
    # (a) which attributes size a shared-domain axis
    dom_extents: Dict[str, Tuple[str, int]] = {}
    for f in prog.all_functions():
        for n in ast.walk(f.node):
            if isinstance(n, ast.Assign) and len(n.targets) == 1 and isinstance(n.targets[0], ast.Attribute) and n.targets[0].attr in AXES \
                    and isinstance(n.value, ast.Call) and n.value.args and isinstance(n.value.args[0], ast.Tuple):
                shape = n.value.args[0].elts
                for k, kind in enumerate(AXES[n.targets[0].attr]):
                    if kind == DOM and k < len(shape) and isinstance(shape[k], ast.Attribute):
                        dom_extents.setdefault(shape[k].attr, (f"{n.targets[0].attr} in {f.qualname}", n.lineno))
    n_bad = n_ok = 0
    for f in prog.all_functions():
        for n in ast.walk(f.node):
            if isinstance(n, ast.Assign) and len(n.targets) == 1 and isinstance(n.targets[0], ast.Attribute) and n.targets[0].attr in dom_extents:
                lk = _len_kind(n.value, f.params)
                if lk is None:
                    continue
                if lk[0] == DOM:
                    n_ok += 1
                else:
                    n_bad += 1
                    ctx.violation("R-INDEX-KIND", f.path, f.qualname, f"count-kind:{n.targets[0].attr}", f"{f.path}:{n.lineno}",
                                  f"{f.qualname} sets `{ast.unparse(n.targets[0])}` to the length of `{lk[1]}` (one entry per variable), but that attribute sizes the "
                                  f"shared-domain axis of {dom_extents[n.targets[0].attr][0]}: as soon as two variables share a domain the engine arrays are "
                                  "allocated with more domain rows than there are shared domains and the solver cannot be built (ValueError), e.g. "
                                  "Problem([(0,2),(0,2)], [0,1,0], [0,0,1]) followed by add_variable((0,1))")
    ctx.floor("R-INDEX-KIND:domain-extent-attributes", len(dom_extents), 1)
    ctx.floor("R-INDEX-KIND:domain-count-assignments", n_ok + n_bad, 1)
    if not n_bad:
        ctx.ok("R-INDEX-KIND", "the attribute sizing the shared-domain axes is only ever set to a number of shared domains", sample={"attributes": sorted(dom_extents), "assignments": n_ok})
    # (b) positions returned by model methods vs. how the package uses them
    ret_kind: Dict[str, Tuple[str, str, FuncInfo, int]] = {}
    for f in prog.all_functions():
        if not f.cls:
            continue
        bound: Dict[str, Tuple[str, str, int]] = {}
        for n in ast.walk(f.node):
            if isinstance(n, ast.Assign) and len(n.targets) == 1 and isinstance(n.targets[0], ast.Name):
                lk = _len_kind(n.value, f.params)
                if lk:
                    bound[n.targets[0].id] = (lk[0], lk[1], n.lineno)
        for n in ast.walk(f.node):
            if isinstance(n, ast.Return) and isinstance(n.value, ast.Name) and n.value.id in bound:
                ret_kind[f.name] = (bound[n.value.id][0], bound[n.value.id][1], f, n.lineno)
    n_uses = 0
    for f in prog.all_functions():
        # names bound to the result of such a method, then used inside the variable list of a posted constraint
        res: Dict[str, str] = {}
        for n in ast.walk(f.node):
            if isinstance(n, ast.Assign) and len(n.targets) == 1 and isinstance(n.targets[0], ast.Name) and isinstance(n.value, ast.Call) \
                    and isinstance(n.value.func, ast.Attribute) and n.value.func.attr in ret_kind:
                res[n.targets[0].id] = n.value.func.attr
        if not res:
            continue
        for n in ast.walk(f.node):
            if isinstance(n, ast.Call) and isinstance(n.func, ast.Attribute) and n.func.attr in ("add_propagator", "add_propagators") and n.args:
                tuples = [t for t in ast.walk(n.args[0]) if isinstance(t, ast.Tuple) and len(t.elts) == 3]
                for t in tuples:
                    for x in ast.walk(t.elts[0]):
                        if isinstance(x, ast.Name) and x.id in res:
                            n_uses += 1
                            kind, lst, g, line = ret_kind[res[x.id]]
                            if kind != VAR:
                                ctx.violation("R-INDEX-KIND", g.path, g.qualname, f"returned-position:{g.name}", f"{g.path}:{line}",
                                              f"{g.qualname} returns a position in `{lst}` (a {kind}) and {f.qualname} uses the result in the variable list of a "
                                              f"constraint (`{ast.unparse(t.elts[0])[:60]}`), where a {VAR} is demanded: for a model with shared domains the returned "
                                              "number designates another variable and the constraint is silently posted on it")
                            else:
                                ctx.ok("R-INDEX-KIND", f"{g.qualname}: the returned position is a variable index, as its users demand", nontrivial=False)
    ctx.extra["returned_position_uses"] = n_uses
    # (b') what a model method appends to a list whose ELEMENTS have a known kind (the variable -> domain table holds shared-domain indices): a value
    # computed from the length of a list of the other kind is a position in the wrong space (they differ as soon as two variables share a domain)
    n_app = 0
    for f in prog.all_functions():
        if not f.cls:
            continue
        counts: Dict[str, Tuple[str, str]] = {}
        assigns: Dict[str, List[ast.expr]] = {}
        for n in ast.walk(f.node):
            if isinstance(n, ast.Assign) and len(n.targets) == 1 and isinstance(n.targets[0], ast.Name):
                lk = _len_kind(n.value, f.params)
                if lk:
                    counts[n.targets[0].id] = lk
                assigns.setdefault(n.targets[0].id, []).append(n.value)
        for n in ast.walk(f.node):
            tgt = arg = None
            if isinstance(n, ast.Call) and isinstance(n.func, ast.Attribute) and n.func.attr in ("extend", "append") and len(n.args) == 1 and isinstance(n.func.value, ast.Attribute):
                tgt, arg = n.func.value.attr, n.args[0]
            elif isinstance(n, ast.AugAssign) and isinstance(n.op, ast.Add) and isinstance(n.target, ast.Attribute):
                tgt, arg = n.target.attr, n.value
            if tgt not in VALUES or arg is None:
                continue
            want = VALUES[tgt]
            srcs: List[ast.expr] = [arg]
            seen_names: Set[str] = set()
            k = 0
            while k < len(srcs) and k < 20:  # follow locals back to where they were computed
                for x in ast.walk(srcs[k]):
                    if isinstance(x, ast.Name) and x.id not in seen_names and x.id not in counts:
                        seen_names.add(x.id)
                        srcs.extend(assigns.get(x.id, []))
                k += 1
            used = {x.id for e in srcs for x in ast.walk(e) if isinstance(x, ast.Name) and x.id in counts}
            direct = [lk for e in srcs for lk in [_len_kind(c, f.params) for c in ast.walk(e) if isinstance(c, ast.Call)] if lk]
            kinds_in = {counts[u] for u in used} | set(direct)
            if not kinds_in:
                continue
            n_app += 1
            wrong = sorted(lst for kind, lst in kinds_in if kind != want)
            if wrong and not any(kind == want for kind, _ in kinds_in):
                ctx.violation("R-INDEX-KIND", f.path, f.qualname, f"appended-position:{tgt}", f"{f.path}:{n.lineno}",
                              f"{f.qualname} appends to `{tgt}` (whose elements are {want}es) values computed from the length of `{wrong[0]}` (a number of "
                              f"{'variables' if want == DOM else 'shared domains'}): for a model in which two variables share a domain the new entries designate the wrong "
                              "(or a non-existent) shared domain")
            else:
                ctx.ok("R-INDEX-KIND", f"{f.qualname}: positions appended to {tgt} are counted in the list of the matching kind", nontrivial=False)
    ctx.floor("R-INDEX-KIND:appended-positions", n_app, 1)
    # (c) a value that the code uses as a variable index, validated against the number of shared domains
    demands, _, alias, _, _, roles_ = _kind_demands(prog)
    # a parameter is (also) what its callers pass: an argument that its caller uses as a variable index
    passed: Dict[Tuple[str, str], Dict[str, Tuple[str, int]]] = {}
    for e in roles_.edges:
        for j, src in enumerate(e.arg_src):
            if j < len(e.callee.params) and src.isidentifier():
                ks_ = demands.get((e.caller.fq, alias.get((e.caller.fq, src), src)), {})
                for k_, w_ in ks_.items():
                    passed.setdefault((e.callee.fq, e.callee.params[j]), {}).setdefault(k_, (f"{w_[0]} (argument `{src}` of {e.caller.qualname})", w_[1]))
    n_cmp = 0
    for f in prog.all_functions():
        if ".examples." in f.module:
            continue
        for n in ast.walk(f.node):
            if not (isinstance(n, ast.Compare) and all(isinstance(o, (ast.Lt, ast.LtE, ast.Gt, ast.GtE)) for o in n.ops)):
                continue
            operands = [n.left] + list(n.comparators)
            pairs = [(operands[i], operands[i + 1]) for i in range(len(operands) - 1)]
            for a0, b0 in pairs:
              for a_, b_ in ((a0, b0), (b0, a0)):
                if isinstance(a_, ast.Name) and isinstance(b_, ast.Attribute) and b_.attr in dom_extents:
                    nm = alias.get((f.fq, a_.id), a_.id)
                    ks = dict(passed.get((f.fq, nm), {}))
                    ks.update(demands.get((f.fq, nm), {}))
                    if VAR in ks and DOM not in ks:
                        n_cmp += 1
                        ctx.violation("R-INDEX-KIND", f.path, f.qualname, f"bounded-by-other-count:{a_.id}", f"{f.path}:{n.lineno}",
                                      f"{f.qualname} compares `{a_.id}`, which it uses as a variable index ({ks[VAR][0]}), with `{ast.unparse(b_)}`, the number of "
                                      "shared domains: a variable that is a view of a shared domain has an index beyond that number and is refused (or let "
                                      "through) wrongly, although the same model written with separate variables is accepted")
