"""C15 rules: R-DISPATCH (both execution modes reach the same function with the same arguments),
R-ARG-ROLES (positional arguments bound to parameters of the same role), R-GLOBAL-STATE."""
from __future__ import annotations

import ast
import re
from typing import Any, Dict, List, Optional, Set, Tuple

from ..core import Ctx
from ..interp import ALL, Dual, Event, Interp, LoopSummary, PathResult, State, Tup, View, as_view, NONE
from ..program import AnalysisError, FuncInfo, Program, NO
from ..roles import get_roles
from ..effects import aliases_of, MUTATORS, _base_name
from ..terms import Aff, K, ONE, S, ZERO, atoms_in, cmp_cond, show_val
from .engine import bc_analyses, calls_named, loops_of, init
from .search import solve_one_analyses

ALIASES = {"shr_domains_propagators": "triggers", "decision_variables": "decision_domains", "shr_domains_arr": "shr_domains_lst",
           "not_entailed_propagators": "not_entailed_propagators_stack[]"}
ENGINE_ROLES = {"statistics", "algorithms", "var_bounds", "param_bounds", "dom_indices_arr", "dom_offsets_arr", "props_dom_indices", "props_dom_offsets",
                "props_parameters", "triggers", "shr_domains_stack", "not_entailed_propagators_stack", "dom_update_stack", "stacks_top",
                "triggered_propagators", "decision_domains", "var_heuristic_params", "dom_heuristic_params", "consistency_alg_idx", "var_heuristic_idx",
                "dom_heuristic_idx"}


def _sig_arity(prog: Program, sig_name: str) -> Optional[int]:
    m = prog.modules[f"{prog.package}.constants"]
    for st in m.tree.body:
        if isinstance(st, ast.Assign) and len(st.targets) == 1 and isinstance(st.targets[0], ast.Name) and st.targets[0].id == sig_name and isinstance(st.value, ast.Call):
            return len(st.value.args)
    return None


def rule_dispatch(ctx: Ctx, prog: Program) -> None:
    ctx.rule("R-DISPATCH")
    types = prog.dispatch_types()  # TYPE_X -> registry
    if len(types) < 4:
        raise AnalysisError(f"dispatch tables: only {sorted(types)} resolved")
    # 1. address tuple: position -> registry
    gfa = prog.func(f"{prog.package}.solvers.backtrack_solver", "get_function_addresses")
    ctx.fn(gfa.fq)
    it = Interp(prog, assume_globals={"NUMBA_DISABLE_JIT": False})
    pos_reg: Dict[int, str] = {}
    for r in it.run(gfa):
        if r.outcome == "return" and isinstance(r.value, Tup):
            for i, v in enumerate(r.value.items):
                org = it.allocs.get(as_view(v).root) if isinstance(as_view(v), View) else None
                if org and org[0] == "alloc" and org[2]:
                    inner = it.allocs.get(as_view(org[2][0]).root) if isinstance(as_view(org[2][0]), View) else None
                    if inner and inner[0] == "call" and str(inner[1]).endswith("build_function_address_list"):
                        reg, sig = as_view(inner[2][0]), as_view(inner[2][1])
                        if isinstance(reg, View) and reg.root.startswith("G:") and isinstance(sig, View) and sig.root.startswith("G:SIGNATURE_"):
                            pos_reg[i] = reg.root[2:]
                            # the signature used to take the addresses is the one the TYPE is built from
                            ty = [t for t, rg in types.items() if rg == reg.root[2:]]
                            if not ty:
                                ctx.violation("R-DISPATCH", gfa.path, gfa.name, f"type-of:{reg.root[2:]}", gfa.loc(), f"no TYPE_* is built from the signature used for {reg.root[2:]}")
    if len(pos_reg) != 4:
        ctx.violation("R-DISPATCH", gfa.path, gfa.name, "address-tuple", gfa.loc(), f"get_function_addresses does not return one address array per registry (resolved {pos_reg})")
        return
    ctx.ok("R-DISPATCH", "get_function_addresses: one address array per registry, each taken with that registry's signature", sample={"tuple": pos_reg})
    # 2. solve_one parameters carrying each address array
    so = prog.func(f"{prog.package}.solvers.backtrack_solver", "solve_one")
    sites = 0
    param_reg: Dict[str, str] = {}
    for f in prog.all_functions():
        src_calls = [n for n in ast.walk(f.node) if isinstance(n, ast.Call) and isinstance(n.func, ast.Name) and n.func.id == "solve_one"]
        if not src_calls:
            continue
        ctx.fn(f.fq)
        it2 = Interp(prog, no_inline={"solve_one": [], "get_function_addresses": [], "reset": [], "backtrack": []})
        seen_nodes = set()
        evs: List[Event] = []
        for r in it2.run(f):
            evs.extend(r.state.trace)
            for l in loops_of(r.state.trace):
                for bp in l.paths:
                    evs.extend(bp.events)
        for e in evs:
            if e.kind == "call" and e.name and e.name.endswith(":solve_one") and id(e.node) not in seen_nodes:
                seen_nodes.add(id(e.node))
                sites += 1
                for j, a in enumerate(e.args):
                    v = as_view(a)
                    if isinstance(v, View) and v.root.startswith("ret#") and len(v.idx) == 1 and isinstance(v.idx[0], Aff) and v.idx[0].is_const():
                        org = it2.allocs.get(v.root)
                        if org and str(org[1]).endswith("get_function_addresses"):
                            reg = pos_reg.get(v.idx[0].c)
                            pn = so.params[j] if j < len(so.params) else None
                            if pn is None or reg is None:
                                continue
                            if param_reg.setdefault(pn, reg) != reg:
                                ctx.violation("R-DISPATCH", f.path, f.qualname, f"addr-arg:{pn}", f"{f.path}:{e.line}",
                                              f"{f.qualname} passes the addresses of {reg} to solve_one's '{pn}', which elsewhere receives those of {param_reg[pn]}")
    ctx.floor("R-DISPATCH:solve_one-call-sites", sites, 2)
    if len(param_reg) != 4:
        ctx.violation("R-DISPATCH", so.path, "solve_one", "address-params", so.loc(),
                      f"the four address arrays solve_one receives are not, at every call site, the result of get_function_addresses() taken in the calling "
                      f"function itself (resolved {param_reg}): function addresses are those of the process that took them; kept on the solver "
                      "object they travel with it (a worker started with the spawn / forkserver method receives the solver by pickling and calls "
                      "through dangling pointers) and they go stale when a registry grows")
        return
    # 3. per dispatch site: compiled and interpreted branch agree on registry and index
    def check_site(fn: FuncInfo, mode_events: Dict[str, List[Tuple[Event, Interp, State]]], addr_param_reg: Dict[str, str]) -> None:
        comp = mode_events.get("compiled", [])
        interp_ = mode_events.get("interpreted", [])
        by_node_i = {id(e.node): (e, it_, s_) for e, it_, s_ in interp_}
        for e, itc, sc in comp:
            rv = as_view(e.recv)
            org = itc.allocs.get(rv.root) if isinstance(rv, View) else None
            if not (org and str(org[1]).endswith("function_from_address")):
                ctx.violation("R-DISPATCH", fn.path, fn.name, "compiled-callee", f"{fn.path}:{e.line}", f"compiled branch calls {rv!r}, not a function_from_address(...) value")
                continue
            ty, addr = as_view(org[2][0]), as_view(org[2][1])
            reg_c = types.get(ty.root[2:]) if isinstance(ty, View) else None
            ok_addr = isinstance(addr, View) and len(addr.idx) == 1 and addr_param_reg.get(addr.root) == reg_c
            other = by_node_i.get(id(e.node))
            if other is None:
                ctx.violation("R-DISPATCH", fn.path, fn.name, "interpreted-callee", f"{fn.path}:{e.line}", "no interpreted counterpart of this indirect call")
                continue
            ei, iti, si = other
            rvi = as_view(ei.recv)
            reg_i = rvi.root[2:] if isinstance(rvi, View) and rvi.root.startswith("G:") else None
            canon = lambda x: re.sub(r"#\d+", "#", repr(x))
            same_idx = isinstance(rvi, View) and isinstance(addr, View) and len(rvi.idx) == 1 and len(addr.idx) == 1 and canon(rvi.idx[0]) == canon(addr.idx[0])
            same_args = e.node is ei.node and len(e.args) == len(ei.args)  # one call expression serves both modes
            arity = _sig_arity(prog, "SIGNATURE_" + ty.root[7:]) if isinstance(ty, View) else None
            if reg_c and reg_c == reg_i and ok_addr and same_idx and same_args and arity == len(e.args):
                ctx.ok("R-DISPATCH", f"{fn.name}: {reg_c}[{show_val(rvi.idx[0])}] in both modes, {arity} arguments, identical argument lists",
                       sample={"compiled": repr(org[2][1]), "interpreted": repr(rvi)})
            else:
                ctx.violation("R-DISPATCH", fn.path, fn.name, f"mode-agreement:{reg_i or reg_c}", f"{fn.path}:{e.line}",
                              f"{fn.name}: the two execution modes do not reach the same function with the same arguments: interpreted {rvi!r}, compiled "
                              f"function_from_address({ty!r}, {addr!r}) [registry {reg_c}, address array of {addr_param_reg.get(addr.root) if isinstance(addr, View) else '?'}], "
                              f"same index: {same_idx}, same arguments: {same_args}, signature arity {arity} vs {len(e.args)} arguments")

    so_modes: Dict[str, List[Tuple[Event, Interp, State]]] = {}
    for a in solve_one_analyses(prog):
        lst = so_modes.setdefault(a.mode, [])
        seen = set()
        for bp in a.loop.paths:
            for e in bp.events:
                if e.kind == "icall" and id(e.node) not in seen:
                    seen.add(id(e.node))
                    lst.append((e, a.it, bp.state))
    check_site(so, so_modes, param_reg)
    ctx.floor("R-DISPATCH:solve_one-indirect-calls", len(so_modes.get("compiled", [])), 3)
    # the address array handed to the consistency algorithm is the compute_domains one
    bc_fn = bc_analyses(prog)[0].fn
    cd_param_bc = None
    for a in solve_one_analyses(prog):
        if a.mode != "compiled":
            continue
        for bp in a.loop.paths:
            for e in bp.events:
                if e.kind == "icall" and prog.dispatch_types().get("TYPE_CONSISTENCY_ALG") == a.it.registry_of(as_view(e.recv)):
                    for j, x in enumerate(e.args):
                        v = as_view(x)
                        if isinstance(v, View) and param_reg.get(v.root) == "COMPUTE_DOMAINS_FCTS" and j < len(bc_fn.params):
                            cd_param_bc = bc_fn.params[j]
    bc_modes: Dict[str, List[Tuple[Event, Interp, State]]] = {}
    for a in bc_analyses(prog):
        lst = bc_modes.setdefault(a.mode, [])
        seen = set()
        for bp in a.outer.paths:
            for e in bp.events:
                if e.kind == "icall" and id(e.node) not in seen:
                    seen.add(id(e.node))
                    lst.append((e, a.it, bp.state))
    check_site(bc_fn, bc_modes, {cd_param_bc: "COMPUTE_DOMAINS_FCTS"} if cd_param_bc else {})
    ctx.floor("R-DISPATCH:bc-indirect-calls", len(bc_modes.get("compiled", [])), 1)
    # 4. registered functions have the arity of their signature
    for ty, reg in types.items():
        arity = _sig_arity(prog, "SIGNATURE_" + ty[5:])
        r = prog.registry(reg)
        for ent in list(r.entries) + (list(r.extra) if ctx.tier == "thorough" else []):
            if isinstance(ent, FuncInfo):
                if len(ent.params) == arity:
                    ctx.ok("R-DISPATCH", f"{reg}: {ent.name} has the arity of SIGNATURE_{ty[5:]}", nontrivial=False)
                else:
                    ctx.violation("R-DISPATCH", ent.path, ent.name, "arity", ent.loc(), f"{ent.name} is registered in {reg} but takes {len(ent.params)} parameters (signature: {arity})")
            else:
                ctx.violation("R-DISPATCH", "nucs", reg, f"unresolved:{ent}", "?", f"registration in {reg} of something that is not a top-level function: {ent}")


def rule_arg_roles(ctx: Ctx, prog: Program) -> None:
    """Every argument that carries an engine array is bound to the parameter that names that array."""
    ctx.rule("R-ARG-ROLES")
    roles = get_roles(prog)
    n = 0
    for edge in roles.edges:
        if ".examples." in edge.caller.module and ctx.tier != "thorough":
            continue
        ps = edge.callee.params
        for j, rr in enumerate(edge.arg_roles):
            base = {r for r in rr if not r.startswith("fn:")}
            if not base or j >= len(ps):
                continue
            pn = ALIASES.get(ps[j], ps[j])
            if pn not in ENGINE_ROLES and not pn.endswith("[]"):
                continue
            n += 1
            # parameter named after an engine array: the argument must carry exactly that array
            want = pn
            got = {ALIASES.get(r, r) for r in base}
            if want in got or (want + "[]") in got:
                ctx.ok("R-ARG-ROLES", f"{edge.caller.qualname} -> {edge.callee.name}.{ps[j]}", nontrivial=False)
            else:
                ctx.violation("R-ARG-ROLES", edge.caller.path, edge.caller.qualname, f"{edge.callee.name}.{ps[j]}<-{edge.arg_src[j]}",
                              f"{edge.caller.path}:{edge.node.lineno}",
                              f"{edge.caller.qualname} passes '{edge.arg_src[j]}' (carrying {sorted(got)}) as parameter '{ps[j]}' of {edge.callee.name}")
    # parameters not named after an array: all call sites must agree
    n_agree = 0
    for f in prog.all_functions():
        for p in f.params:
            if ALIASES.get(p, p) in ENGINE_ROLES:
                continue
            base = {r for r in roles.of(f, p) if not r.startswith("fn:") and not r.endswith("[]")}
            base = {ALIASES.get(b, b) for b in base}
            engine = base & ENGINE_ROLES
            if engine:
                n_agree += sum(1 for e_ in roles.edges if e_.callee is f)
                if len(engine) == 1:
                    ctx.ok("R-ARG-ROLES", f"{f.qualname}.{p}: every call site passes the same engine array ({sorted(engine)[0]})", nontrivial=False)
            if len(engine) > 1 and not (p == "params" and engine <= {"var_heuristic_params", "dom_heuristic_params"}):
                ctx.violation("R-ARG-ROLES", f.path, f.qualname, f"param:{p}", f.loc(), f"parameter '{p}' of {f.qualname} receives different engine arrays from different call sites: {sorted(engine)}")
    # parameters are either named after the array they carry (checked by name) or not (checked by agreement of all call sites)
    ctx.floor("R-ARG-ROLES:bindings(named + agreeing)", n + n_agree, 300)


# ---------------------------------------------------------------------- R-GLOBAL-STATE
NONDET_MODULES = {"random", "time", "datetime", "uuid", "secrets"}


def rule_global_state(ctx: Ctx, prog: Program, extra_dir_positive_control: Optional[str] = None) -> None:
    ctx.rule("R-GLOBAL-STATE")
    regs = {(m, n) for (m, n) in prog.registries}
    n_globals = 0
    mutable_globals: Dict[Tuple[str, str], str] = {}
    for m in prog.modules.values():
        if not m.name.startswith(prog.package + ".") and m.name != prog.package:
            continue
        is_main = m.name.endswith("__main__")
        for st in m.tree.body:
            if (isinstance(st, ast.Assign) and len(st.targets) == 1 and isinstance(st.targets[0], ast.Name)) or \
                    (isinstance(st, ast.AnnAssign) and isinstance(st.target, ast.Name) and st.value is not None):
                v = st.value
                tname = st.targets[0].id if isinstance(st, ast.Assign) else st.target.id
                kind = None
                if isinstance(v, (ast.List, ast.Dict, ast.Set, ast.ListComp, ast.DictComp, ast.SetComp)):
                    kind = type(v).__name__
                elif isinstance(v, ast.Call) and ast.unparse(v.func) in ("np.array", "numpy.array", "list", "dict", "set", "np.zeros", "np.empty", "defaultdict", "collections.defaultdict"):
                    kind = ast.unparse(v.func)
                if kind:
                    mutable_globals[(m.name, tname)] = kind
                    n_globals += 1
        key_uses = set()
        for n_ in ast.walk(m.tree):
            if isinstance(n_, ast.Subscript) and isinstance(n_.slice, ast.Call):
                key_uses.add(id(n_.slice))
            if isinstance(n_, ast.Compare) and any(isinstance(o_, (ast.In, ast.NotIn)) for o_ in n_.ops) and isinstance(n_.left, ast.Call):
                key_uses.add(id(n_.left))
            if isinstance(n_, ast.Call) and isinstance(n_.func, ast.Attribute) and n_.func.attr in ('get', 'add', 'discard', 'pop', 'setdefault') and n_.args and isinstance(n_.args[0], ast.Call):
                key_uses.add(id(n_.args[0]))
        for n in ast.walk(m.tree):
            if isinstance(n, ast.Global) and not is_main:
                ctx.violation("R-GLOBAL-STATE", m.relpath, "<module>", f"global:{','.join(n.names)}", f"{m.relpath}:{n.lineno}",
                              f"'global {', '.join(n.names)}': module-level state rebound from a function is shared by every solver of the process")
            if isinstance(n, (ast.Import, ast.ImportFrom)) and not is_main:
                names = [a.name.split(".")[0] for a in n.names] if isinstance(n, ast.Import) else [(n.module or "").split(".")[0]]
                for nm in names:
                    if nm in NONDET_MODULES:
                        ctx.violation("R-GLOBAL-STATE", m.relpath, "<module>", f"import:{nm}", f"{m.relpath}:{n.lineno}",
                                      f"module '{nm}' (a source of run-to-run variation) is imported by library code")
            if isinstance(n, ast.Call) and not is_main:
                fsrc = ast.unparse(n.func)
                if fsrc in ("id", "hash") and id(n) in key_uses:
                    continue  # an identity used as a dictionary key / membership probe (a deepcopy memo, a visited set): its value never shows
                if fsrc in ("os.urandom", "id", "hash", "os.getpid", "time.time") or fsrc.startswith("random.") or fsrc.startswith("np.random") or fsrc.startswith("numpy.random"):
                    ctx.violation("R-GLOBAL-STATE", m.relpath, "<module>", f"call:{fsrc}", f"{m.relpath}:{n.lineno}", f"{fsrc}(...) makes results depend on the run")
                if fsrc in ("os.getenv", "os.environ.get"):
                    arg = n.args[0].value if n.args and isinstance(n.args[0], ast.Constant) else None
                    if arg != "NUMBA_DISABLE_JIT":
                        ctx.violation("R-GLOBAL-STATE", m.relpath, "<module>", f"env:{arg}", f"{m.relpath}:{n.lineno}", f"library behaviour depends on environment variable {arg!r}")
            if isinstance(n, (ast.For, ast.comprehension)) and not is_main:
                itx = n.iter
                if isinstance(itx, (ast.Set, ast.SetComp)) or (isinstance(itx, ast.Call) and ast.unparse(itx.func) in ("set", "frozenset")):
                    ctx.violation("R-GLOBAL-STATE", m.relpath, "<module>", "set-iteration", f"{m.relpath}:{getattr(itx, 'lineno', 0)}", "iteration over a set: order is not reproducible across runs")
    ctx.floor("R-GLOBAL-STATE:module-level-mutable-objects", n_globals, 6)
    # memoising decorators keep results across solver constructions / registrations
    for f in prog.all_functions():
        if f.module.endswith("__main__"):
            continue
        for d in f.node.decorator_list:
            tgt = d.func if isinstance(d, ast.Call) else d
            nm = tgt.id if isinstance(tgt, ast.Name) else getattr(tgt, "attr", "")
            if nm in ("lru_cache", "cache", "cached_property", "memoize"):
                ctx.violation("R-GLOBAL-STATE", f.path, f.qualname, f"memoised:{nm}", f.loc(),
                              f"{f.qualname} is memoised (@{nm}): its first result is replayed to every later caller in the process, "
                              "whatever was registered or constructed in between")
    # writers of module-level mutable objects
    for f in prog.all_functions():
        if f.module.endswith("__main__"):
            continue
        local_names = set(f.params) | {n.id for n in ast.walk(f.node) if isinstance(n, ast.Name) and isinstance(n.ctx, ast.Store)}
        for n in ast.walk(f.node):
            target_names: List[Tuple[str, str, int]] = []
            if isinstance(n, (ast.Assign, ast.AugAssign, ast.AnnAssign)):
                tg = n.targets if isinstance(n, ast.Assign) else [n.target]
                for t in tg:
                    for el in (t.elts if isinstance(t, ast.Tuple) else [t]):
                        if isinstance(el, ast.Subscript) or (isinstance(n, ast.AugAssign) and isinstance(el, ast.Name)):
                            b = _base_name(el) if isinstance(el, ast.Subscript) else el.id
                            if b and b not in local_names:
                                target_names.append((b, "store", n.lineno))
            if isinstance(n, ast.Call) and isinstance(n.func, ast.Attribute) and n.func.attr in MUTATORS:
                b = _base_name(n.func.value) if isinstance(n.func.value, (ast.Name, ast.Subscript)) else None
                if b and b not in local_names:
                    target_names.append((b, n.func.attr, n.lineno))
            for b, how, line in target_names:
                r = prog.resolve(f.module, b)
                if r and r[0] == "global":
                    key = (r[1], r[2])
                    if key in regs and how == "append" and (f.module, f.name) in prog.register_fns:
                        continue
                    if key in regs or key in mutable_globals:
                        ctx.violation("R-GLOBAL-STATE", f.path, f.qualname, f"writes:{r[2]}", f"{f.path}:{line}",
                                      f"{f.qualname} modifies the module-level object {r[2]} ({how}): state shared by every problem and solver of the process"
                                      + (" (registries may only be appended to by their register_* function)" if key in regs else ""))
    for a in prog.anomalies:
        ctx.violation("R-GLOBAL-STATE", "nucs", "registries", f"anomaly:{a.split(':')[1] if ':' in a else a}", "?", a)
    for (m, n), reg in prog.registries.items():
        ctx.ok("R-GLOBAL-STATE", f"registry {n}: append-only through {reg.register_fn}, index handed out = len - 1", sample={"entries": len(reg.entries)})
    # mutable default arguments
    n_def = 0
    for f in prog.all_functions():
        a = f.node.args
        ps = a.posonlyargs + a.args
        for i, dflt in enumerate(a.defaults):
            if isinstance(dflt, (ast.List, ast.Dict, ast.Set)):
                pn = ps[len(ps) - len(a.defaults) + i].arg
                n_def += 1
                al = aliases_of(f)
                names = {nm for nm, src in al.items() if pn in src}
                bad = None
                for n in ast.walk(f.node):
                    if isinstance(n, (ast.Assign, ast.AugAssign)):
                        tg = n.targets if isinstance(n, ast.Assign) else [n.target]
                        for t in tg:
                            if isinstance(t, ast.Subscript) and _base_name(t) in names:
                                bad = (n.lineno, "is stored into")
                            if isinstance(t, ast.Attribute) and isinstance(n, ast.Assign) and isinstance(n.value, ast.Name) and n.value.id in names:
                                bad = (n.lineno, "is retained on the object (the same list object is then shared by every instance built with the default)")
                    if isinstance(n, ast.Call) and isinstance(n.func, ast.Attribute) and n.func.attr in MUTATORS and _base_name(n.func.value) in names:
                        bad = (n.lineno, f"is mutated ({n.func.attr})")
                    if isinstance(n, ast.Return) and isinstance(n.value, ast.Name) and n.value.id in names:
                        bad = (n.lineno, "is returned")
                if bad:
                    ctx.violation("R-GLOBAL-STATE", f.path, f.qualname, f"mutable-default:{pn}", f"{f.path}:{bad[0]}",
                                  f"the mutable default argument '{pn}' of {f.qualname} {bad[1]}: later calls see the effects of earlier ones")
                else:
                    ctx.ok("R-GLOBAL-STATE", f"{f.qualname}: mutable default '{pn}' is only read / copied")
    ctx.floor("R-GLOBAL-STATE:mutable-defaults", n_def, 2)
    # configuration arrays of a solver are private copies: np.asarray / np.array(copy=False) return the caller's own array when the type
    # already matches, so whatever the engine (a registered heuristic keeping counters in its parameter table) writes lands in the caller's
    # table and in every later solver built from it
    n_conv = 0
    for f in prog.all_functions():
        if f.name != "__init__" or not f.module.startswith(f"{prog.package}.solvers"):
            continue
        params = set(f.params)
        for n in ast.walk(f.node):
            if not (isinstance(n, ast.Assign) and len(n.targets) == 1 and isinstance(n.targets[0], ast.Attribute) and isinstance(n.value, ast.Call)):
                continue
            fnm = ast.unparse(n.value.func).split(".")[-1]
            srcs = [x.id for a_ in n.value.args[:1] for x in ast.walk(a_) if isinstance(x, ast.Name) and x.id in params]
            if not srcs or fnm not in ("array", "asarray", "asanyarray", "ascontiguousarray", "asfortranarray", "require"):
                continue
            n_conv += 1
            nocopy = fnm != "array" or any(kw.arg == "copy" and isinstance(kw.value, ast.Constant) and kw.value.value in (False, None) for kw in n.value.keywords)
            if nocopy:
                ctx.violation("R-GLOBAL-STATE", f.path, f.qualname, f"argument-aliased:{n.targets[0].attr}", f"{f.path}:{n.lineno}",
                              f"{f.qualname} keeps `{srcs[0]}` through {fnm}(...), which returns the caller's own array when the element type already matches: "
                              "the solver's configuration is then shared with the caller and with every other solver built from the same array, and what a "
                              "registered heuristic writes into its parameter table during one search is seen by the next")
            else:
                ctx.ok("R-GLOBAL-STATE", f"{f.qualname}: self.{n.targets[0].attr} is a private copy of the argument `{srcs[0]}`")
    ctx.floor("R-GLOBAL-STATE:configuration-copies", n_conv, 3)
    # the solver constructor does not write into the problem except through init()
    for mod, cls in ((f"{prog.package}.solvers.backtrack_solver", "BacktrackSolver"), (f"{prog.package}.solvers.solver", "Solver")):
        fn = prog.func(mod, f"{cls}.__init__")
        ctx.fn(fn.fq)
        bad = []
        for n in ast.walk(fn.node):
            if isinstance(n, (ast.Assign, ast.AugAssign)):
                tg = n.targets if isinstance(n, ast.Assign) else [n.target]
                for t in tg:
                    s = ast.unparse(t)
                    if s.startswith("problem.") or s.startswith("self.problem.") or s.startswith("problem[") or s.startswith("self.problem["):
                        bad.append((n.lineno, s))
            if isinstance(n, ast.Call) and isinstance(n.func, ast.Attribute):
                s = ast.unparse(n.func)
                if (s.startswith("problem.") or s.startswith("self.problem.")) and n.func.attr in MUTATORS | {"add_propagator", "add_propagators", "add_variable", "add_variables"}:
                    bad.append((n.lineno, s))
        if bad:
            ctx.violation("R-GLOBAL-STATE", fn.path, fn.qualname, "writes-problem", f"{fn.path}:{bad[0][0]}",
                          f"{fn.qualname} modifies the problem object ({bad[0][1]}): constructing a solver must not change the meaning of the problem")
        else:
            ctx.ok("R-GLOBAL-STATE", f"{fn.qualname}: the problem is only completed through init()")
    # positive control: the rule must fire on the committed control sample
    if extra_dir_positive_control:
        pass


def rule_reinit(ctx: Ctx, prog: Program) -> None:
    """R-REINIT: constructing a solver derives the problem's arrays afresh, unconditionally.  A problem object may be edited between two
    solver constructions (propagators replaced, offsets changed) without any size changing; a constructor that skips init() when the
    derived arrays 'look present' silently solves the old problem."""
    from ..interp import Interp, NONE, View, as_view

    ctx.rule("R-REINIT")
    fn = prog.func(f"{prog.package}.solvers.solver", "Solver.__init__")
    ctx.fn(fn.fq)
    it = Interp(prog, no_inline={"init": None})
    res = it.run(fn)
    n = 0
    pname = fn.params[1] if len(fn.params) > 1 else "problem"
    patom = it.scalar(res[0].state, View(pname, ())) if res else None
    for r in res:
        if r.outcome != "return":
            continue
        isnone = r.state.facts.decide(("is", patom, NONE)) if patom is not None else None
        inits = [e for e in r.events if e.kind in ("mcall", "call") and e.name and e.name.split(".")[-1] == "init" and (e.recv is None or as_view(e.recv) == View(pname, ()))]
        if isnone is True:
            continue
        n += 1
        if len(inits) == 1:
            ctx.ok("R-REINIT", "Solver.__init__: problem.init() is called on every path with a problem", sample={"line": inits[0].line})
        else:
            ctx.violation("R-REINIT", fn.path, "Solver.__init__", "init-skipped", fn.loc(),
                          f"Solver.__init__ has a path with a problem on which problem.init() is called {len(inits)} time(s): the arrays derived from "
                          "the propagator list (wake-up table, per-constraint caches) must be rebuilt for every solver, whatever state an earlier solver left")
    ctx.floor("R-REINIT:paths-with-problem", n, 1)


def unsigned_roles(prog: Program) -> Dict[str, str]:
    """Engine arrays with an unsigned element type, read off their allocation (self.<attr> = np.<ctor>(..., dtype=np.uintN))."""
    out: Dict[str, str] = {}
    for f in prog.all_functions():
        if f.name not in ("__init__", "init"):
            continue
        for n in ast.walk(f.node):
            if isinstance(n, ast.Assign) and len(n.targets) == 1 and isinstance(n.targets[0], ast.Attribute) and isinstance(n.value, ast.Call):
                for kw in n.value.keywords:
                    if kw.arg == "dtype" and ast.unparse(kw.value).split(".")[-1].startswith("uint"):
                        out[n.targets[0].attr] = ast.unparse(kw.value).split(".")[-1]
    return out


def rule_mode_arith(ctx: Ctx, prog: Program) -> None:
    """R-MODE-ARITH.  `u - k` with u read from an unsigned engine array is computed in int64 by Numba (compiled mode) and in the array's own
    unsigned type by NumPy (interpreted mode, NEP 50): where the mathematical result is negative the two modes disagree (-1 vs 255).  A test
    of such a difference against a negative value / `< 0` states the belief that it can be negative -- in interpreted mode it cannot: the
    branch is dead there and alive when compiled.  (In-place updates `a[i] -= k` wrap identically in both modes and are not concerned.)"""
    ctx.rule("R-MODE-ARITH")
    roles = get_roles(prog)
    uns = unsigned_roles(prog)
    if len(uns) < 5:
        raise AnalysisError(f"unsigned engine arrays not found (got {sorted(uns)})")
    n_diff = 0
    for f in prog.all_functions():
        if f.module.endswith("__main__") or ".examples." in f.module:
            continue
        uparams = {p for p in f.params if any(r in uns for r in roles.of(f, p))}
        if not uparams:
            continue

        def is_unsigned_load(e: ast.expr) -> bool:
            return isinstance(e, ast.Subscript) and _base_name(e) in uparams

        derived: Dict[str, int] = {}
        for n in ast.walk(f.node):
            if isinstance(n, ast.Assign) and len(n.targets) == 1 and isinstance(n.targets[0], ast.Name) and isinstance(n.value, ast.BinOp) \
                    and isinstance(n.value.op, ast.Sub) and is_unsigned_load(n.value.left):
                derived[n.targets[0].id] = n.lineno
                n_diff += 1
            if isinstance(n, ast.BinOp) and isinstance(n.op, ast.Sub) and is_unsigned_load(n.left):
                n_diff += 0
        for n in ast.walk(f.node):
            if not (isinstance(n, ast.Compare) and len(n.ops) == 1):
                continue
            l, r = n.left, n.comparators[0]
            op = type(n.ops[0])
            for a, b, o in ((l, r, op), (r, l, {ast.Lt: ast.Gt, ast.LtE: ast.GtE, ast.Gt: ast.Lt, ast.GtE: ast.LtE}.get(op, op))):
                is_diff = (isinstance(a, ast.Name) and a.id in derived) or (isinstance(a, ast.BinOp) and isinstance(a.op, ast.Sub) and is_unsigned_load(a.left))
                cv = prog.fold(f.module, b) if isinstance(b, (ast.Constant, ast.UnaryOp, ast.Name)) else None
                if not is_diff or not isinstance(cv, int) or isinstance(cv, bool):
                    continue
                negative_test = (o is ast.Lt and cv <= 0) or (o is ast.LtE and cv < 0) or (o in (ast.Eq, ast.NotEq) and cv < 0) or \
                                (o is ast.GtE and cv <= 0) or (o is ast.Gt and cv < 0)
                if negative_test:
                    ctx.violation("R-MODE-ARITH", f.path, f.qualname, f"negative-test:{ast.unparse(a)[:40]}", f"{f.path}:{n.lineno}",
                                  f"{f.qualname} tests `{ast.unparse(n)}` where `{ast.unparse(a)}` is a difference whose left operand is read from an unsigned "
                                  f"engine array ({', '.join(sorted(uparams))}): compiled code computes it in int64 (can be negative), interpreted code keeps the "
                                  "unsigned type (wraps to a large positive value) -- the two execution modes take different branches")
    # the answer of a variable heuristic is an element of decision_domains: a 16-bit unsigned NumPy scalar when interpreted, an int64 when
    # compiled.  A difference with it that can be negative wraps in one mode only; it must be computed under a test that orders the two operands
    vh_names = {e.name for e in prog.registry("VAR_HEURISTIC_FCTS").entries if isinstance(e, FuncInfo)}
    n_vh = 0
    for f in prog.all_functions():
        if not f.njit or f.module.endswith("__main__"):
            continue
        us = {n.targets[0].id for n in ast.walk(f.node) if isinstance(n, ast.Assign) and len(n.targets) == 1 and isinstance(n.targets[0], ast.Name)
              and isinstance(n.value, ast.Call) and isinstance(n.value.func, ast.Name) and n.value.func.id in vh_names}
        if not us:
            continue
        parents: Dict[int, ast.AST] = {}
        for x in ast.walk(f.node):
            for c in ast.iter_child_nodes(x):
                parents[id(c)] = x
        for n in ast.walk(f.node):
            if not (isinstance(n, ast.BinOp) and isinstance(n.op, ast.Sub)):
                continue
            lu = isinstance(n.left, ast.Name) and n.left.id in us
            ru = isinstance(n.right, ast.Name) and n.right.id in us
            if lu == ru:
                continue
            u = n.left.id if lu else n.right.id
            other = n.right if lu else n.left
            other_names = {x.id for x in ast.walk(other) if isinstance(x, ast.Name)}
            other_const = isinstance(other, ast.Constant)
            n_vh += 1
            guarded = False
            cur: ast.AST = n
            while id(cur) in parents and not guarded:
                par = parents[id(cur)]
                tests: List[ast.expr] = []
                if isinstance(par, (ast.If, ast.While)) and any(cur is b_ for b_ in par.body):
                    tests.append(par.test)
                if isinstance(par, ast.BoolOp) and isinstance(par.op, ast.And):
                    k_ = next((i for i, v_ in enumerate(par.values) if v_ is cur), 0)
                    tests.extend(par.values[:k_])
                if isinstance(par, ast.IfExp) and cur is par.body:
                    tests.append(par.test)
                for t_ in tests:
                    for cmp_ in [x for x in ast.walk(t_) if isinstance(x, ast.Compare)]:
                        nm = {x.id for x in ast.walk(cmp_) if isinstance(x, ast.Name)}
                        if u in nm and (other_const or (other_names & nm)):
                            guarded = True
                cur = par
            if guarded:
                ctx.ok("R-MODE-ARITH", f"{f.qualname}: `{ast.unparse(n)}` is computed under a test that orders its operands", nontrivial=False)
            else:
                ctx.violation("R-MODE-ARITH", f.path, f.qualname, f"heuristic-answer-difference:{ast.unparse(n)[:40]}", f"{f.path}:{n.lineno}",
                              f"{f.qualname} computes `{ast.unparse(n)}` where `{u}` is the answer of a variable heuristic (an element of decision_domains: a 16-bit "
                              "unsigned NumPy scalar in interpreted mode, an int64 in compiled mode) outside any test that orders the two operands: where the "
                              "difference is negative the interpreted engine wraps to a large positive value and takes another branch than the compiled one")
    # `~b` on a scalar truth value: Numba's boolean type complements logically (True -> False), the Python bool the interpreted engine sees is an
    # int (~True == -2, ~False == -1); used in arithmetic (a counter `+= ~flag`) or as a condition the two modes disagree
    n_inv = 0
    for f in prog.all_functions():
        if not f.njit:
            continue
        bools: Set[str] = set()
        for n in ast.walk(f.node):
            if isinstance(n, ast.Assign) and len(n.targets) == 1 and isinstance(n.targets[0], ast.Name):
                v = n.value
                is_b = isinstance(v, (ast.Compare, ast.BoolOp)) or (isinstance(v, ast.Constant) and isinstance(v.value, bool)) \
                    or (isinstance(v, ast.UnaryOp) and isinstance(v.op, ast.Not))
                if isinstance(v, ast.Call) and isinstance(v.func, ast.Name):
                    r = prog.resolve(f.module, v.func.id)
                    if r and r[0] == "func" and r[1].node.returns is not None and ast.unparse(r[1].node.returns) == "bool":
                        is_b = True
                if is_b:
                    bools.add(n.targets[0].id)
        for n in ast.walk(f.node):
            if isinstance(n, ast.UnaryOp) and isinstance(n.op, ast.Invert):
                n_inv += 1
                o = n.operand
                if (isinstance(o, ast.Name) and o.id in bools) or isinstance(o, (ast.Compare, ast.BoolOp)) or (isinstance(o, ast.Constant) and isinstance(o.value, bool)):
                    ctx.violation("R-MODE-ARITH", f.path, f.qualname, f"invert-on-truth-value:{ast.unparse(o)[:30]}", f"{f.path}:{n.lineno}",
                                  f"{f.qualname} applies `~` to the truth value `{ast.unparse(o)}`: compiled code complements a boolean logically, interpreted code "
                                  "complements the Python int behind it (~True == -2, ~False == -1): a counter fed with it, or a branch on it, differs between "
                                  "the two execution modes")
    if not n_inv:
        ctx.ok("R-MODE-ARITH", "no bitwise complement of a scalar truth value in jitted code", nontrivial=False)
    # sums: `u + k` with u read from an 8-bit engine array (the level pointer) is computed in int64 when compiled and in uint8 when interpreted,
    # where it wraps past 255 -- reachable, since 256 levels are allowed.  A comparison must put the arithmetic on the other (Python int) side.
    u8 = {r for r, t in uns.items() if t == "uint8"}
    for f in prog.all_functions():
        if f.module.endswith("__main__") or ".examples." in f.module:
            continue
        u8params = {p for p in f.params if any(r in u8 for r in roles.of(f, p)) and not any(r == "algorithms" for r in roles.of(f, p))}
        if not u8params:
            continue
        for n in ast.walk(f.node):
            if not isinstance(n, ast.Compare):
                continue
            for side in [n.left] + list(n.comparators):
                if isinstance(side, ast.BinOp) and isinstance(side.op, ast.Add):
                    ops = [side.left, side.right]
                    loads = [o for o in ops if isinstance(o, ast.Subscript) and _base_name(o) in u8params]
                    if loads:
                        ctx.violation("R-MODE-ARITH", f.path, f.qualname, f"narrow-sum-compared:{ast.unparse(side)[:40]}", f"{f.path}:{n.lineno}",
                                      f"{f.qualname} compares `{ast.unparse(side)}`, a sum whose operand is read from an 8-bit engine array: compiled code "
                                      "computes it in int64, interpreted code in uint8, where it wraps past 255 (a level pointer of 254/255 is reachable with a "
                                      "256-level stack) -- the guard holds in one execution mode and silently fails in the other; compare the element with "
                                      "`bound - k` instead")
    ctx.ok("R-MODE-ARITH", f"no test of an unsigned difference against a negative value ({len(uns)} unsigned engine arrays, {n_diff} differences stored)",
           sample={"unsigned_arrays": uns})


# ------------------------------------------------------------------------------------------ R-SWALLOWED-RAISE
def by_address_closure(prog: Program) -> Dict[str, Tuple[FuncInfo, Dict[str, Tuple[str, ...]]]]:
    """fq -> (function, {registry it is reached from: call chain}) for every function that compiled code reaches only through a function
    pointer: the members of the registries whose addresses are taken (build_function_address_list) and everything they call directly."""
    out: Dict[str, Tuple[FuncInfo, Dict[str, Tuple[str, ...]]]] = {}
    for ty, reg in sorted(prog.dispatch_types().items()):
        r = prog.registry(reg)
        work: List[Tuple[FuncInfo, Tuple[str, ...]]] = [(ent, (ent.name,)) for ent in r.entries if isinstance(ent, FuncInfo)]
        seen: Set[str] = set()
        while work:
            f, chain = work.pop(0)
            if f.fq in seen:
                continue
            seen.add(f.fq)
            out.setdefault(f.fq, (f, {}))[1][reg] = chain
            for n in ast.walk(f.node):
                if isinstance(n, ast.Call):
                    rr = None
                    if isinstance(n.func, ast.Name):
                        rr = prog.resolve(f.module, n.func.id)
                    elif isinstance(n.func, ast.Attribute) and isinstance(n.func.value, ast.Name):
                        rm = prog.resolve(f.module, n.func.value.id)
                        if rm and rm[0] == "module":
                            rr = prog.resolve(rm[1], n.func.attr)
                    if rr and rr[0] == "func" and rr[1].fq not in seen:
                        work.append((rr[1], chain + (rr[1].name,)))
    return out


def _dead_stack_full_raise(ctx: Ctx, prog: Program, f: FuncInfo) -> bool:
    """A raise in the push primitive that fires only when level T+1 does not exist is unreachable when every way to the primitive is
    guarded: solve_one ensures top + (largest push) < len before the value-heuristic call, the shaving algorithm ensures top + 1 < len
    before a probe, and nothing else calls the primitive."""
    if f.name != "cp_put" or not f.module.endswith("choice_points"):
        return False
    c = getattr(prog, "_dead_stack_full_raise", None)
    if c is not None:
        return c
    from . import capacity, search
    res = False
    try:
        it = Interp(prog)
        paths = it.run(f)
        T1 = Aff.atom(("init", f.params[2], (K(0),))) + ONE
        ln = Aff.atom(("len", f.params[0], ()))
        raising = [r for r in paths if r.outcome == "raise"]
        only_full = bool(raising) and all(r.state.facts.decide(cmp_cond(">=", T1, ln)) is True for r in raising)
        # who calls the primitive
        dom = {e.fq for e in prog.registry("DOM_HEURISTIC_FCTS").entries if isinstance(e, FuncInfo)}
        callers = set()
        for g in prog.all_functions():
            for n in ast.walk(g.node):
                if isinstance(n, ast.Call) and isinstance(n.func, ast.Name) and n.func.id == f.name:
                    r = prog.resolve(g.module, f.name)
                    if r and r[0] == "func" and r[1].fq == f.fq:
                        callers.add(g.fq)
        clo = by_address_closure(prog)
        known = all(c_ in clo and all(reg == "DOM_HEURISTIC_FCTS" or (reg == "CONSISTENCY_ALG_FCTS" and "shave_bound" in chain)
                                       for reg, chain in clo[c_][1].items()) for c_ in callers)
        if only_full and known:
            sc = Ctx(prog, "C19", ctx.tier, ctx.repo)
            search.rule_solve_one(sc, prog, want=("R-CAPACITY",))
            capacity.rule_probe_guard(sc, prog)
            res = not any(x.rule == "R-CAPACITY" for x in sc.findings) and not any(fo < mi for _, fo, mi in sc.floors) and not sc.analysis_errors
    except AnalysisError:
        res = False
    prog._dead_stack_full_raise = res  # type: ignore[attr-defined]
    return res


SIGNS_ALL = object()


def _len_derived(f: FuncInfo, name: str) -> bool:
    for n in ast.walk(f.node):
        if isinstance(n, ast.Assign) and any(isinstance(t, ast.Name) and t.id == name for t in n.targets):
            if any(isinstance(x, ast.Call) and isinstance(x.func, ast.Name) and x.func.id == "len" for x in ast.walk(n.value)):
                return True
    return False


def rule_swallowed_raise(ctx: Ctx, prog: Program) -> None:
    """Compiled code calls constraints, heuristics and consistency algorithms through function pointers (function_from_address).  Numba
    cannot propagate an exception out of such a call: it prints 'Exception ignored', the callee returns an arbitrary value and the
    caller carries on.  A check that raises behind a pointer therefore reports nothing in compiled mode (and behaves differently when
    interpreted); where it guards the choice-point stack, the push is skipped, nothing changes and the search loop asks for the same
    decision for ever.  Rule: no `raise` statement in a registry member or in anything it calls directly or indirectly, except a check of the push
    primitive that the guards of all its callers make unreachable.  (`assert` statements are listed as undecided.)"""
    ctx.rule("R-SWALLOWED-RAISE")
    clo = by_address_closure(prog)
    ctx.floor("R-SWALLOWED-RAISE:functions-behind-pointers", len(clo), 30)
    n_bad = 0
    for fq, (f, regs) in sorted(clo.items()):
        ctx.fn(fq)
        for n in ast.walk(f.node):
            if isinstance(n, ast.Assert):
                # an assertion states an invariant: it is dead code when the invariant holds, which this rule cannot decide
                ctx.undecided_site("R-SWALLOWED-RAISE", f"{f.qualname}: `{ast.unparse(n)[:60]}`",
                                   "an assert behind a function pointer is discarded by compiled code if it ever fails; whether it can fail is not decided")
                continue
            if isinstance(n, ast.Raise):
                if _dead_stack_full_raise(ctx, prog, f):
                    ctx.ok("R-SWALLOWED-RAISE", f"{f.qualname}: raises only on a full stack, which the guards of solve_one and of the shaving probe exclude "
                           "(unreachable defensive check)")
                    continue
                what = ast.unparse(n).split("\n")[0][:80]
                for reg, chain in sorted(regs.items()):
                    n_bad += 1
                    ctx.violation("R-SWALLOWED-RAISE", f.path, f.qualname, f"raise:{reg}", f"{f.path}:{n.lineno}",
                                  f"`{what}` in {f.qualname} is reached from compiled code only through a function pointer ({reg}: {' -> '.join(chain)}): "
                                  "an exception raised there is discarded ('Exception ignored'), the call returns an arbitrary value and the engine "
                                  "carries on -- the error is not reported, compiled and interpreted mode diverge, and a stack-capacity check placed "
                                  "there leaves the state unchanged so that solve_one asks for the same decision for ever")
    # implicit raises: a division whose divisor can be zero raises ZeroDivisionError in compiled code (Numba keeps Python's error model); behind a
    # pointer it is discarded like any other exception, and interpreted NumPy arithmetic answers inf / nan / 0 with a warning instead
    from .propagators import _sign_of_test
    n_div = 0
    for fq, (f, regs) in sorted(clo.items()):
        parents: Dict[int, ast.AST] = {}
        for x in ast.walk(f.node):
            for c in ast.iter_child_nodes(x):
                parents[id(c)] = x
        for n in ast.walk(f.node):
            if not (isinstance(n, ast.BinOp) and isinstance(n.op, (ast.Div, ast.FloorDiv, ast.Mod))) and not (isinstance(n, ast.AugAssign) and isinstance(n.op, (ast.Div, ast.FloorDiv, ast.Mod))):
                continue
            d = n.right if isinstance(n, ast.BinOp) else n.value
            while isinstance(d, ast.UnaryOp) and isinstance(d.op, (ast.USub, ast.UAdd)):
                d = d.operand
            for _ in range(3):  # a local that is a (negated) copy of another name is zero exactly when that name is:  nc = -c
                if not isinstance(d, ast.Name):
                    break
                defs = [a_ for a_ in ast.walk(f.node) if isinstance(a_, ast.Assign) and len(a_.targets) == 1 and isinstance(a_.targets[0], ast.Name) and a_.targets[0].id == d.id]
                others = [a_ for a_ in ast.walk(f.node) if isinstance(a_, (ast.AugAssign, ast.For, ast.NamedExpr)) and any(isinstance(x_, ast.Name) and x_.id == d.id and isinstance(x_.ctx, ast.Store) for x_ in ast.walk(a_.target))]
                if len(defs) != 1 or others or d.id in f.params:
                    break
                src_ = defs[0].value
                while isinstance(src_, ast.UnaryOp) and isinstance(src_.op, (ast.USub, ast.UAdd)):
                    src_ = src_.operand
                if not isinstance(src_, ast.Name):
                    break
                d = src_
            cv = prog.fold(f.module, d) if isinstance(d, (ast.Constant, ast.Name)) else NO
            if cv is not NO and isinstance(cv, (int, float)) and cv != 0:
                continue  # a non-zero constant
            n_div += 1
            safe = False
            if isinstance(d, ast.Name):
                # dominated by a test that excludes zero: an enclosing `if` whose taken side leaves only pos / neg for the divisor
                cur: ast.AST = n
                while id(cur) in parents and not safe:
                    par = parents[id(cur)]
                    if isinstance(par, ast.If):
                        sg = _sign_of_test(par.test, d.id)
                        # conjunctions: any conjunct that excludes zero on the true side
                        conj = par.test.values if isinstance(par.test, ast.BoolOp) and isinstance(par.test.op, ast.And) else [par.test]
                        sgs = [_sign_of_test(t_, d.id) for t_ in conj]
                        in_body = any(cur is b_ for b_ in par.body)
                        in_else = any(cur is b_ for b_ in par.orelse)
                        if in_body and any(s_ is not None and "zero" not in s_[0] for s_ in sgs):
                            safe = True
                        if in_else and sg is not None and "zero" not in sg[1]:
                            safe = True
                    # an earlier statement of the same block that leaves when the divisor may be zero:  if c == 0: continue
                    for blk_name in ("body", "orelse", "finalbody"):
                        blk = getattr(par, blk_name, None)
                        if isinstance(blk, list) and any(cur is b_ for b_ in blk):
                            for prev in blk[:[i for i, b_ in enumerate(blk) if b_ is cur][0]]:
                                if isinstance(prev, ast.If) and not prev.orelse and prev.body and isinstance(prev.body[-1], (ast.Continue, ast.Break, ast.Return, ast.Raise)):
                                    sg2 = _sign_of_test(prev.test, d.id)
                                    if sg2 is not None and "zero" not in sg2[1]:
                                        safe = True
                    if isinstance(par, ast.BoolOp) and isinstance(par.op, ast.And):
                        k_ = next((i for i, v_ in enumerate(par.values) if v_ is cur), None)
                        if k_ is not None and any((_sign_of_test(v_, d.id) or (SIGNS_ALL,))[0] is not SIGNS_ALL and "zero" not in _sign_of_test(v_, d.id)[0] for v_ in par.values[:k_]):
                            safe = True  # short-circuit: a conjunct to the left excludes zero
                    if isinstance(par, ast.IfExp):
                        sg = _sign_of_test(par.test, d.id)
                        if sg is not None and ((cur is par.body and "zero" not in sg[0]) or (cur is par.orelse and "zero" not in sg[1])):
                            safe = True
                    cur = par
            what = ast.unparse(n).split("\n")[0][:70]
            if safe:
                ctx.ok("R-SWALLOWED-RAISE", f"{f.qualname}: `{what}` divides by a quantity that a dominating test excludes from zero", nontrivial=False)
            elif isinstance(d, ast.Call) and ast.unparse(d.func) == "len" or (isinstance(d, ast.Name) and cv is NO and _len_derived(f, d.id)):
                ctx.undecided_site("R-SWALLOWED-RAISE", f"{f.qualname}: `{what}`", "divisor is a length / count of the constraint's variables (non-zero by the posting contract)")
            else:
                for reg, chain in sorted(regs.items())[:1]:
                    n_bad += 1
                    ctx.violation("R-SWALLOWED-RAISE", f.path, f.qualname, f"division:{reg}", f"{f.path}:{n.lineno}",
                                  f"`{what}` in {f.qualname} is reached from compiled code only through a function pointer ({reg}: {' -> '.join(chain)}) and nothing "
                                  "excludes a zero divisor: compiled code raises ZeroDivisionError there, the exception is discarded ('Exception ignored') and the "
                                  "caller goes on with an arbitrary status (a consistent node is taken for a failure: solutions are lost); interpreted code "
                                  "computes inf / nan instead and carries on differently")
    if not n_bad:
        ctx.ok("R-SWALLOWED-RAISE", "no raise statement in any function reached through a function pointer",
               sample={"functions": len(clo), "registries": sorted(set(prog.dispatch_types().values()))})


# ------------------------------------------------------------------------------------------ R-MODE-SORT
# reviewed sites where the order of equal keys cannot matter (one line of reason each)
UNSTABLE_SORT_OK = {
    ("alldifferent_propagator", "compute_domains_alldifferent"): "ranks of the Hall-interval filtering: the filtered bounds are the bound-consistent ones, which do not depend on the order of equal bounds",
    ("gcc_propagator", "compute_domains_gcc"): "ranks of the Hall-interval filtering of gcc: same argument",
}


def _selective_use(fn: ast.AST, call: ast.Call) -> Optional[str]:
    """How the permutation answered by an unstable argsort is used *selectively* ('the first in this order wins'), or None."""
    parents: Dict[int, ast.AST] = {}
    for x in ast.walk(fn):
        for c in ast.iter_child_nodes(x):
            parents[id(c)] = x
    par = parents.get(id(call))
    names: Set[str] = set()
    if isinstance(par, ast.Subscript) and par.value is call:
        return f"`{ast.unparse(par)[:40]}` (one position of it)"
    if isinstance(par, ast.Assign) and len(par.targets) == 1 and isinstance(par.targets[0], ast.Name):
        names.add(par.targets[0].id)
    loops: List[ast.AST] = []
    if isinstance(par, (ast.For, ast.comprehension)) and par.iter is call:
        loops.append(par)
    for x in ast.walk(fn):
        if isinstance(x, ast.Subscript) and isinstance(x.value, ast.Name) and x.value.id in names:
            sl = x.slice
            if isinstance(sl, ast.Slice) or (isinstance(sl, ast.Constant)) or (isinstance(sl, ast.UnaryOp) and isinstance(sl.operand, ast.Constant)):
                return f"`{ast.unparse(x)[:40]}` (one end of it)"
            cur = parents.get(id(x))
            while cur is not None and not isinstance(cur, (ast.For, ast.While)):
                cur = parents.get(id(cur))
            if cur is not None and cur not in loops:
                loops.append(cur)
        if isinstance(x, (ast.For, ast.comprehension)) and isinstance(x.iter, ast.Name) and x.iter.id in names:
            loops.append(x)
    for l in loops:
        if isinstance(l, ast.comprehension):
            if isinstance(l.iter, ast.Name) and l.iter.id in names or l.iter is call:
                return "a sequence arranged in that order (comprehension over the permutation): equal keys keep whatever order the sort left them in"
            continue
        for y in ast.walk(l):
            if isinstance(y, ast.Break):
                return f"the first element that passes a test (loop at line {l.lineno} leaves with `break`)"
    return None


def rule_mode_sort(ctx: Ctx, prog: Program) -> None:
    """np.argsort / np.sort default to an unstable quicksort whose order of *equal* keys is an implementation detail: Numba's compiled
    version and NumPy's (interpreted mode; also NumPy builds for other CPUs) disagree on it.  Where that order is visible -- which value a
    heuristic picks among equally cheap ones, in which order equally complex constraints are scheduled -- results and statistics differ
    between the two modes and from one arrangement of the input to another.  Rule: every argsort / sort of an array in library code asks
    for a stable kind, except at the reviewed sites where ties cannot matter."""
    ctx.rule("R-MODE-SORT")
    n = n_ok = 0
    for f in prog.all_functions():
        if ".examples." in f.module:
            continue
        for node in ast.walk(f.node):
            if not isinstance(node, ast.Call):
                continue
            fn_txt = ast.unparse(node.func)
            is_sort = fn_txt in ("np.argsort", "numpy.argsort", "np.sort", "numpy.sort") or (isinstance(node.func, ast.Attribute) and node.func.attr == "argsort")
            if not is_sort:
                continue
            n += 1
            kind = next((kw.value for kw in node.keywords if kw.arg == "kind"), None)
            stable = isinstance(kind, ast.Constant) and kind.value in ("stable", "mergesort")
            key = (f.module.split(".")[-1], f.name)
            values_only = fn_txt in ("np.sort", "numpy.sort")  # equal keys are equal values: their order cannot be seen in the sorted values
            selective = None if (stable or values_only) else _selective_use(f.node, node)
            if stable or values_only or key in UNSTABLE_SORT_OK:
                n_ok += 1
                ctx.ok("R-MODE-SORT", f"{f.qualname}: `{ast.unparse(node)[:50]}` " + ("is stable" if stable else "sorts values" if values_only else "-- ties cannot matter: " + UNSTABLE_SORT_OK[key]), nontrivial=False)
            elif selective is None:
                # the whole permutation is traversed (or handed to a helper): whether the order of equal keys can be seen in the result is a
                # statement about what the traversal computes -- listed, not judged
                ctx.undecided_site("R-MODE-SORT", f"{f.qualname}:{ast.unparse(node)[:40]}", "unstable argsort whose permutation is traversed entirely: order of ties not shown to matter or not")
            else:
                ctx.violation("R-MODE-SORT", f.path, f.qualname, f"unstable-sort:{ast.unparse(node.args[0])[:30] if node.args else ''}", f"{f.path}:{node.lineno}",
                              f"{f.qualname} orders by `{ast.unparse(node)[:60]}` without asking for a stable sort and then takes {selective}: the order of equal keys differs between "
                              "compiled mode (Numba's quicksort) and interpreted mode (NumPy's), and depends on how the input happened to be arranged -- "
                              "with ties, the value chosen / the order of scheduling, hence the sequence of solutions or the statistics, is not reproducible")
    ctx.floor("R-MODE-SORT:array-sorts", n, 4)


# ------------------------------------------------------------------------------------------ R-SENTINEL-STORE
def rule_sentinel_store(ctx: Ctx, prog: Program) -> None:
    """A filtering function that scans candidates keeps running extrema in locals initialised to +/- sys.maxsize ('nothing seen yet') and
    later stores them into the (32-bit) domains through min / max.  When the scan saw no candidate the local still holds the 64-bit
    sentinel; the functions therefore test 'no candidate left' and return before they store.  If the store comes first, the sentinel is
    written into an int32 cell: compiled code truncates it silently, interpreted code (NumPy >= 2) raises OverflowError -- the two modes
    diverge on every dead end of that constraint.  Rule: in such a function, every store of a sentinel-initialised local into the domains
    is preceded, after the scan, by a test that returns PROP_INCONSISTENCY."""
    from .propagators import propagator_triples

    ctx.rule("R-SENTINEL-STORE")
    n = 0
    for _, fn, _ in propagator_triples(prog):
        body = fn.node.body
        sent = set()
        for st in body:
            if isinstance(st, ast.Assign) and len(st.targets) == 1 and isinstance(st.targets[0], ast.Name) and "sys.maxsize" in ast.unparse(st.value):
                sent.add(st.targets[0].id)
        if not sent:
            continue
        dom = fn.params[0]
        views = {dom}
        for st in body:
            if isinstance(st, ast.Assign) and len(st.targets) == 1 and isinstance(st.targets[0], ast.Name) and isinstance(st.value, ast.Subscript) \
                    and isinstance(st.value.value, ast.Name) and st.value.value.id in views:
                views.add(st.targets[0].id)
        scan_end = max((k for k, st in enumerate(body) if isinstance(st, (ast.For, ast.While)) and any(
            isinstance(x, ast.Name) and x.id in sent and isinstance(x.ctx, ast.Store) for x in ast.walk(st))), default=None)
        if scan_end is None:
            continue
        n += 1
        ctx.fn(fn.fq)
        guarded = False
        bad = None
        for st in body[scan_end + 1:]:
            if isinstance(st, ast.If) and any(isinstance(x, ast.Return) and isinstance(x.value, ast.Name) and x.value.id == "PROP_INCONSISTENCY" for x in ast.walk(st)):
                guarded = True
            for x in ast.walk(st):
                if isinstance(x, ast.Assign) and len(x.targets) == 1 and isinstance(x.targets[0], ast.Subscript) and isinstance(x.targets[0].value, ast.Name) \
                        and x.targets[0].value.id in views and any(isinstance(y, ast.Name) and y.id in sent for y in ast.walk(x.value)) and not guarded and bad is None:
                    bad = x
        if bad is None:
            ctx.ok("R-SENTINEL-STORE", f"{fn.name}: the running extrema ({', '.join(sorted(sent))}) are stored only after the 'no candidate' exit")
        else:
            ctx.violation("R-SENTINEL-STORE", fn.path, fn.name, f"store-before-exit:{ast.unparse(bad.targets[0])}", f"{fn.path}:{bad.lineno}",
                          f"{fn.name} stores `{ast.unparse(bad)[:60]}` before it has tested that the scan found a candidate: when none is left the local still "
                          "holds +/- sys.maxsize, which compiled code truncates into the 32-bit cell silently while interpreted code raises OverflowError")
    ctx.floor("R-SENTINEL-STORE:scans-with-sentinels", n, 2)


# ------------------------------------------------------------------------------------------ R-STATUS-USED
STATUS_REGISTRIES = ("CONSISTENCY_ALG_FCTS", "COMPUTE_DOMAINS_FCTS")


def rule_status_used(ctx: Ctx, prog: Program) -> None:
    """A consistency algorithm and a filtering function answer with a status (inconsistent / consistent / entailed / solved).  A caller that
    discards the answer carries on with domains the callee has just found empty: the search then reports an assignment that violates the
    constraint that objected (and an optimisation returns it instead of None).  Rule (the 'unused result' check, with the checked functions
    read off the package's own registries): a call whose callee is an entry of CONSISTENCY_ALG_FCTS / COMPUTE_DOMAINS_FCTS -- by name,
    through the registry, or through function_from_address(TYPE_...) -- is never an expression statement, and a name it is assigned to is
    read afterwards."""
    ctx.rule("R-STATUS-USED")
    checked: Set[str] = set()
    for rn in STATUS_REGISTRIES:
        reg = prog.registry(rn)
        for e in list(reg.entries) + list(reg.extra):
            if isinstance(e, FuncInfo):
                checked.add(e.name)
    types = {t for t, r in prog.dispatch_types().items() if r in STATUS_REGISTRIES}
    if len(checked) < 10 or not types:
        raise AnalysisError(f"R-STATUS-USED: only {len(checked)} status-returning functions / {len(types)} dispatch types found")
    n = 0
    for f in prog.all_functions():
        if ".tests" in f.module:
            continue
        parents: Dict[int, ast.AST] = {}
        for x in ast.walk(f.node):
            for c in ast.iter_child_nodes(x):
                parents[id(c)] = x
        # locals holding a status-returning callee
        callee_vars: Set[str] = set()
        for x in ast.walk(f.node):
            if isinstance(x, ast.Assign) and len(x.targets) == 1 and isinstance(x.targets[0], ast.Name):
                src = ast.unparse(x.value)
                if any(f"{r}[" in src for r in STATUS_REGISTRIES) or any(f"function_from_address({t}," in src.replace("\n", "") for t in types):
                    callee_vars.add(x.targets[0].id)
        for x in ast.walk(f.node):
            if not isinstance(x, ast.Call):
                continue
            fsrc = ast.unparse(x.func)
            is_status = (isinstance(x.func, ast.Name) and (x.func.id in checked or x.func.id in callee_vars)) \
                or (isinstance(x.func, ast.Subscript) and isinstance(x.func.value, ast.Name) and x.func.value.id in STATUS_REGISTRIES) \
                or (isinstance(x.func, ast.Call) and ast.unparse(x.func.func).endswith("function_from_address") and x.func.args and ast.unparse(x.func.args[0]) in types)
            if not is_status:
                continue
            n += 1
            par = parents.get(id(x))
            bad = None
            if isinstance(par, ast.Expr):
                bad = "is an expression statement: its answer is dropped"
            elif isinstance(par, ast.Assign) and len(par.targets) == 1 and isinstance(par.targets[0], ast.Name):
                nm = par.targets[0].id
                read = any(isinstance(y, ast.Name) and y.id == nm and isinstance(y.ctx, ast.Load) and (y.lineno, y.col_offset) > (par.lineno, par.col_offset) for y in ast.walk(f.node))
                in_loop = any(isinstance(parents.get(id(z)), (ast.For, ast.While)) or isinstance(z, (ast.For, ast.While)) for z in _ancestors(parents, par))
                if not read and not (in_loop and any(isinstance(y, ast.Name) and y.id == nm and isinstance(y.ctx, ast.Load) for y in ast.walk(f.node))):
                    bad = f"is stored in '{nm}', which is never read"
            if bad:
                ctx.violation("R-STATUS-USED", f.path, f.qualname, f"status-discarded:{fsrc[:40]}", f"{f.path}:{x.lineno}",
                              f"{f.qualname}: the call of `{fsrc[:60]}` (a consistency algorithm / filtering function: it answers inconsistent, consistent, entailed or "
                              f"solved) {bad}. An inconsistency it found goes unnoticed: the caller continues with an empty domain and what it then reports "
                              "(a solution, an optimum, a bound) need not satisfy the constraints")
            else:
                ctx.ok("R-STATUS-USED", f"{f.qualname}: the status answered by `{fsrc[:50]}` is used", nontrivial=False)
    ctx.floor("R-STATUS-USED:status-returning-calls", n, 4)


def _ancestors(parents: Dict[int, ast.AST], node: ast.AST) -> List[ast.AST]:
    out: List[ast.AST] = []
    cur = parents.get(id(node))
    while cur is not None:
        out.append(cur)
        cur = parents.get(id(cur))
    return out


# ------------------------------------------------------------------------------------------ R-STATUS-EXHAUSTIVE
def rule_status_exhaustive(ctx: Ctx, prog: Program) -> None:
    """solve_one dispatches on the verdict of the consistency algorithm with a chain `== PROBLEM_BOUND / == PROBLEM_UNBOUND / else`; the else
    side is 'inconsistent: backtrack'.  Every constant a registered consistency algorithm can return must therefore be one the chain names, or
    PROBLEM_INCONSISTENT itself: a further status (e.g. 'no free level for a probe') falls into the else side, the node is abandoned as a
    failure and the refusal is reported nowhere -- solutions are lost silently.  Exhaustiveness of a dispatch over a status vocabulary."""
    ctx.rule("R-STATUS-EXHAUSTIVE")
    so = prog.func(f"{prog.package}.solvers.backtrack_solver", "solve_one")
    handled: Set[int] = set()
    for n in ast.walk(so.node):
        if isinstance(n, ast.Compare) and len(n.ops) == 1 and isinstance(n.ops[0], (ast.Eq, ast.NotEq)):
            for side in (n.left, n.comparators[0]):
                if isinstance(side, ast.Name) and side.id.startswith("PROBLEM_"):
                    v = prog.fold(so.module, side)
                    if isinstance(v, int) and not isinstance(v, bool):
                        handled.add(v)
    inc = prog.C("PROBLEM_INCONSISTENT")
    if len(handled) < 2:
        raise AnalysisError("R-STATUS-EXHAUSTIVE: the status chain of solve_one is not read")
    accepted = handled | {inc}
    n_ret = 0
    seen: Set[str] = set()
    work: List[FuncInfo] = [e for e in prog.registry("CONSISTENCY_ALG_FCTS").entries if isinstance(e, FuncInfo)]
    for e in prog.runtime_registrations("CONSISTENCY_ALG_FCTS") if hasattr(prog, "runtime_registrations") else []:
        if isinstance(e, FuncInfo):
            work.append(e)
    while work:
        f = work.pop()
        if f.fq in seen:
            continue
        seen.add(f.fq)
        ctx.fn(f.fq)
        for n in ast.walk(f.node):
            if not isinstance(n, ast.Return) or n.value is None:
                continue
            vals = [n.value.body, n.value.orelse] if isinstance(n.value, ast.IfExp) else [n.value]
            # a verdict held in a local before it is returned: what the local was assigned
            for v_ in list(vals):
                if isinstance(v_, ast.Name) and prog.fold(f.module, v_) is NO:
                    for a_ in ast.walk(f.node):
                        if isinstance(a_, ast.Assign) and len(a_.targets) == 1 and isinstance(a_.targets[0], ast.Name) and a_.targets[0].id == v_.id:
                            vals.extend([a_.value.body, a_.value.orelse] if isinstance(a_.value, ast.IfExp) else [a_.value])
            for v_ in vals:
                if isinstance(v_, (ast.Name, ast.Constant)):
                    c = prog.fold(f.module, v_)
                    if isinstance(c, int) and not isinstance(c, bool) and c is not NO:
                        n_ret += 1
                        if c in accepted:
                            ctx.ok("R-STATUS-EXHAUSTIVE", f"{f.name}: returns a status the search loop names", nontrivial=False)
                        else:
                            ctx.violation("R-STATUS-EXHAUSTIVE", f.path, f.name, f"unhandled-status:{ast.unparse(v_)}", f"{f.path}:{n.lineno}",
                                          f"{f.name} can answer `{ast.unparse(v_)}` (= {c}); solve_one's dispatch on the verdict names only "
                                          f"{sorted(handled)} and treats anything else as an inconsistency: the node is abandoned as a failure, nothing is "
                                          "reported, and the solutions below it are lost")
                if isinstance(v_, ast.Call) and isinstance(v_.func, ast.Name):
                    r = prog.resolve(f.module, v_.func.id)
                    if r and r[0] == "func":
                        work.append(r[1])
        # a status held in a local that comes from a callee: follow the callee
        for n in ast.walk(f.node):
            if isinstance(n, ast.Assign) and isinstance(n.value, ast.Call) and isinstance(n.value.func, ast.Name):
                r = prog.resolve(f.module, n.value.func.id)
                if r and r[0] == "func" and r[1].name.endswith("consistency_algorithm"):
                    work.append(r[1])
    ctx.floor("R-STATUS-EXHAUSTIVE:constant returns of consistency algorithms", n_ret, 4)
