"""R-PARTITION, R-BRANCH-EVENTS, R-PUSH-POP, R-HANDOVER: value heuristics and choice points.

Every registered value heuristic is abstractly interpreted (callees inlined) from the
symbolic pre-state  D[T, d] = [lo, hi],  lo < hi,  T = stacks_top[0].  The oracle is
evaluated on the abstract post-state of each path."""
from __future__ import annotations

from typing import Any, Dict, List, Optional, Tuple

from ..core import Ctx
from ..interp import ALL, Dual, Event, Interp, LoopSummary, PathResult, State, View, as_view
from ..program import AnalysisError, FuncInfo, Program
from ..terms import Aff, Facts, K, ONE, S, ZERO, cmp_cond, show_cond, show_val

STACK = "shr_domains_stack"
FLAGS = "not_entailed_propagators_stack"
UPD = "dom_update_stack"
TOP = "stacks_top"


def init(root: str, *idx: Any) -> Aff:
    return Aff.atom(("init", root, tuple(idx)))


def param_name(fn: FuncInfo, candidates: Tuple[str, ...], what: str) -> str:
    for c in candidates:
        if c in fn.params:
            return c
    raise AnalysisError(f"{fn.fq}: no parameter for {what} (looked for {candidates})")


def heuristic_vocab(prog: Program, fn: FuncInfo) -> Dict[str, str]:
    """Role -> parameter name, by the position fixed in SIGNATURE_DOM_HEURISTIC
    (params, stack, flags, dom_update, top, dom_idx)."""
    ps = fn.params
    if len(ps) < 6:
        raise AnalysisError(f"{fn.fq}: a value heuristic takes 6 parameters, found {len(ps)}")
    return {"params": ps[0], STACK: ps[1], FLAGS: ps[2], UPD: ps[3], TOP: ps[4], "dom_idx": ps[5]}


def _const(v: Any) -> Optional[int]:
    if isinstance(v, Aff) and v.is_const():
        return v.c
    return None


def _value_range_assumption(it: Interp, r: PathResult, lo: Aff, hi: Aff, atoms: List[Any]) -> Tuple[Facts, List[str]]:
    """Facts of the path, strengthened for loop-carried 'chosen value' variables that are only ever
    assigned the index of a `range(lo, hi + 1)` loop (or keep their pre-loop value)."""
    facts = r.state.facts.copy()
    notes: List[str] = []
    for e in r.state.trace:
        if e.kind != "loop":
            continue
        summ: LoopSummary = e.loop
        if summ.kind != "for" or summ.index is None:
            continue
        rv = summ.iter_value
        if rv.__class__.__name__ != "RangeVal":
            continue
        # the scanned range lies inside [lo, hi] (the whole domain, or part of it: which values are candidates is the heuristic's business,
        # that the chosen one is a value of the domain is the partition's)
        f0 = r.state.facts
        if not (rv.step == ONE and isinstance(rv.start, Aff) and isinstance(rv.stop, Aff)
                and f0.decide(cmp_cond(">=", rv.start, lo)) is True and f0.decide(cmp_cond("<=", rv.stop, hi + ONE)) is True):
            continue
        for a in atoms:
            if isinstance(a, tuple) and a[0] == "lv" and a[2] == summ.loop_id:
                name = a[1]
                only_index = True
                for bp in summ.paths:
                    v = bp.state.env.get(name)
                    sv = it.scalar(bp.state, v) if v is not None else None
                    if sv is None or not (sv == summ.index or sv == Aff.atom(a)):
                        only_index = False
                # ... and it starts inside [lo, hi] too: a 'nothing chosen yet' sentinel outside the domain survives a scan in which no
                # value qualifies (e.g. no positive cost) and is then branched on
                pre = summ.pre_env.get(name)
                pv = it.scalar(r.state, pre) if pre is not None else None
                starts_inside = isinstance(pv, Aff) and r.state.facts.decide(cmp_cond(">=", pv, lo)) is True and r.state.facts.decide(cmp_cond("<=", pv, hi)) is True
                if only_index and starts_inside:
                    av = Aff.atom(a)
                    facts.add(cmp_cond(">=", av, lo))
                    facts.add(cmp_cond("<=", av, hi))
                    notes.append(f"{name} starts inside the domain and is only assigned the index of a range inside [lo, hi] in its selection loop")
                elif only_index:
                    notes.append(f"{name} starts at {show_val(pv) if isinstance(pv, Aff) else '?'} (outside the domain): if no value of the scan qualifies it is branched on")
    return facts, notes


def analyse_heuristic(ctx: Ctx, prog: Program, fn: FuncInfo, label: str) -> int:
    """Returns the number of return paths analysed."""
    voc = heuristic_vocab(prog, fn)
    sroot, froot, uroot, troot, dname = voc[STACK], voc[FLAGS], voc[UPD], voc[TOP], voc["dom_idx"]
    MIN, MAX = prog.C("MIN"), prog.C("MAX")
    E_MIN, E_MAX, E_GROUND = prog.C("EVENT_MASK_MIN"), prog.C("EVENT_MASK_MAX"), prog.C("EVENT_MASK_GROUND")
    U_IDX, U_EV = prog.C("DOM_UPDATE_IDX"), prog.C("DOM_UPDATE_EVENTS")
    it = Interp(prog)
    st = State()
    T = init(troot, K(0))
    d = S("d")
    lo, hi = init(sroot, T, d, K(MIN)), init(sroot, T, d, K(MAX))
    st.facts.add(cmp_cond("<", lo, hi))  # the variable heuristic only returns non-instantiated domains
    st.facts.add(cmp_cond(">=", T, ZERO))
    res = it.run(fn, args={dname: d}, state=st)
    ctx.fn(fn.fq)
    npaths = 0
    for r in res:
        if r.outcome != "return":
            continue
        npaths += 1
        s = r.state
        loc, rfn, letters = _return_site(r)
        where = (loc, rfn)
        inst = f"{label}@{rfn}/{letters}"
        # ------------------------------------------------------------- height
        top2 = it.load_at(s, len(s.heap), troot, (K(0),))
        k = _const(top2 - T)
        if k is None or not (1 <= k <= 2):
            ctx.violation("R-PARTITION", fn.path, label, f"height:{where[1]}", where[0],
                          f"value heuristic {label} leaves the stack pointer at {show_val(top2)} (expected T+1 or T+2)")
            continue
        # ------------------------------------------------- stores are confined
        confined = True
        for e in r.events:
            if e.kind != "store" or e.root not in (sroot, froot, troot, uroot):
                continue
            lvl = _const(e.idx[0] - T) if e.idx and isinstance(e.idx[0], Aff) else None
            if e.root == troot:
                continue
            if e.idx and isinstance(e.idx[0], tuple) and e.idx[0][0] == "slice" and isinstance(e.idx[0][1], Aff) and isinstance(e.idx[0][2], Aff):
                # a block of levels lo:hi written at once (copy of a whole level into several new levels)
                lo_, hi_ = _const(e.idx[0][1] - T), _const(e.idx[0][2] - T)
                src = as_view(e.value)
                whole_level_copy = isinstance(src, View) and src.root == e.root and len(src.idx) == 1 and isinstance(src.idx[0], Aff) \
                    and all(c == ALL for c in e.idx[1:])
                if lo_ is not None and hi_ is not None and 0 <= lo_ and hi_ - 1 <= k and whole_level_copy and _const(src.idx[0] - T) is not None and _const(src.idx[0] - T) < lo_:
                    continue
            if lvl is None or lvl < 0 or lvl > k:
                confined = False
                ctx.violation("R-PARTITION", fn.path, label, f"store-level:{e.root}", f"{fn.path}:{e.line}",
                              f"{label}: store into {e.root}[{show_val(e.idx[0]) if e.idx else ''}, ...] outside levels T..T+{k}")
                continue
            is_row_copy = (
                isinstance(e.value, View) and e.value.root == e.root and all(c == ALL for c in e.idx[1:])
                and len(e.value.idx) >= 1 and isinstance(e.value.idx[0], Aff) and _const(e.idx[0] - e.value.idx[0]) == 1
                and all(c == ALL for c in e.value.idx[1:])
            )
            if is_row_copy:
                continue
            if e.root == sroot:
                if len(e.idx) < 2 or not (isinstance(e.idx[1], Aff) and e.idx[1] == d):
                    confined = False
                    ctx.violation("R-PARTITION", fn.path, label, f"store-other-domain:{where[1]}", f"{fn.path}:{e.line}",
                                  f"{label}: store into the domain stack at a domain index other than the chosen one "
                                  f"({View(e.root, e.idx)!r})")
            elif e.root == froot:
                confined = False
                ctx.violation("R-FLAGS-WRITERS", fn.path, label, "flags-store", f"{fn.path}:{e.line}",
                              f"{label}: writes the enabled-constraints stack other than by the push copy ({View(e.root, e.idx)!r})")
        if confined:
            ctx.ok("R-PARTITION", f"{inst}:confined", sample=None)
        # ------------------------------------- every new level starts as a copy of the level it was pushed from
        xo, yo = S("x_other"), S("y_bound")
        s2 = s.fork()
        s2.facts.add(cmp_cond("!=", xo, d))
        for j in range(1, k + 1):
            fl = it.load_at(s2, len(s2.heap), froot, (T.addc(j), xo))
            if fl == init(froot, T, xo):
                ctx.ok("R-PUSH-POP", f"{inst}:L{j}:flags = flags of the level branched from")
            else:
                ctx.violation("R-PUSH-POP", fn.path, label, f"push-flags-row:{where[1]}:L{j}", where[0],
                              f"{label}: the enabled flags of the new level T+{j} are {show_val(fl)}, not a copy of those of the level the decision was taken at: "
                              "the sub-tree runs with whatever flags an earlier visit left in that row (constraints wrongly disabled or enabled)")
            ot = it.load_at(s2, len(s2.heap), sroot, (T.addc(j), xo, yo))
            if ot == init(sroot, T, xo, yo):
                ctx.ok("R-PUSH-POP", f"{inst}:L{j}:other domains = those of the level branched from")
            else:
                ctx.violation("R-PUSH-POP", fn.path, label, f"push-other-domains:{where[1]}:L{j}", where[0],
                              f"{label}: at the new level T+{j} a domain other than the chosen one is {show_val(ot)}, not its value at the level the decision was taken at")
        # ------------------------------------------------------ the partition
        ivs: List[Tuple[int, Aff, Aff]] = []
        for j in range(k + 1):
            a = it.load_at(s, len(s.heap), sroot, (T.addc(j), d, K(MIN)))
            b = it.load_at(s, len(s.heap), sroot, (T.addc(j), d, K(MAX)))
            ivs.append((j, a, b))
        atoms: List[Any] = []
        for _, a, b in ivs:
            atoms.extend(a.atoms() + b.atoms())
        facts, notes = _value_range_assumption(it, r, lo, hi, atoms)
        chain = _chain(ivs, lo, hi, facts)
        desc = ", ".join(f"L{j}=[{show_val(a)}, {show_val(b)}]" for j, a, b in ivs)
        if chain is not None:
            ctx.violation("R-PARTITION", fn.path, label, f"partition:{where[1]}", where[0],
                          f"{label}: sub-ranges do not partition [lo, hi]: {chain}; {desc}")
        else:
            ctx.ok("R-PARTITION", f"{inst}:chain", sample={"intervals": desc, "notes": notes})
        for j, a, b in ivs:
            dec = facts.decide(cmp_cond("<=", a, b))
            if dec is True:
                ctx.ok("R-PARTITION", f"{inst}:nonempty:L{j}")
            else:
                ctx.violation("R-PARTITION", fn.path, label, f"nonempty:{where[1]}:L{j}", where[0],
                              f"{label}: sub-range at level T+{j} = [{show_val(a)}, {show_val(b)}] is not provably non-empty "
                              f"under lo < hi ({'refuted' if dec is False else 'no proof'})")
        # ------------------------------------------------------------ events
        ret = r.value
        rc = _const(it.scalar(s, ret)) if ret is not None else None
        _, ta, tb = ivs[k]
        need = _needed_bits(facts, ta, tb, lo, hi, E_MIN, E_MAX, E_GROUND)
        if rc is None:
            ctx.violation("R-BRANCH-EVENTS", fn.path, label, f"returned-mask:{where[1]}", where[0],
                          f"{label}: returned event mask is not a constant on this path ({show_val(it.scalar(s, ret))})")
        else:
            missing = [nm for nm, bit, why in need if not (rc & bit)]
            if missing:
                ctx.violation("R-BRANCH-EVENTS", fn.path, label, f"returned-mask:{where[1]}", where[0],
                              f"{label}: branch taken is [{show_val(ta)}, {show_val(tb)}] but the returned mask {rc} lacks "
                              + ", ".join(f"{nm} ({why})" for nm, bit, why in need if not (rc & bit)))
            else:
                ctx.ok("R-BRANCH-EVENTS", f"{inst}:returned", sample={"mask": rc, "branch": f"[{show_val(ta)}, {show_val(tb)}]",
                                                                   "needed": [nm for nm, _, _ in need]})
        for j in range(k):
            _, a, b = ivs[j]
            uidx = it.load_at(s, len(s.heap), uroot, (T.addc(j), K(U_IDX)))
            uev = it.load_at(s, len(s.heap), uroot, (T.addc(j), K(U_EV)))
            if not (uidx == d):
                ctx.violation("R-BRANCH-EVENTS", fn.path, label, f"replay-idx:{where[1]}:L{j}", where[0],
                              f"{label}: alternative at level T+{j} records domain index {show_val(uidx)} instead of the chosen one")
            else:
                ctx.ok("R-BRANCH-EVENTS", f"{inst}:replay-idx:L{j}")
            need = _needed_bits(facts, a, b, lo, hi, E_MIN, E_MAX, E_GROUND)
            uc = _const(uev)
            if uc is None:
                ctx.violation("R-BRANCH-EVENTS", fn.path, label, f"replay-mask:{where[1]}:L{j}", where[0],
                              f"{label}: events recorded for the alternative at level T+{j} are not a constant on this path "
                              f"({show_val(uev)})")
                continue
            missing = [(nm, why) for nm, bit, why in need if not (uc & bit)]
            if missing:
                ctx.violation("R-BRANCH-EVENTS", fn.path, label, f"replay-mask:{where[1]}:L{j}", where[0],
                              f"{label}: alternative at level T+{j} is [{show_val(a)}, {show_val(b)}] but its recorded mask {uc} lacks "
                              + ", ".join(f"{nm} ({why})" for nm, why in missing))
            else:
                ctx.ok("R-BRANCH-EVENTS", f"{inst}:replay-mask:L{j}", sample={"mask": uc, "alt": f"[{show_val(a)}, {show_val(b)}]"})
    return npaths


def _sentinel_value_path(it: Interp, r: PathResult, ivs: List[Tuple[int, Aff, Aff]]) -> bool:
    """True when an interval end is a loop-carried variable that is not provably the loop index."""
    for _, a, b in ivs:
        for at in a.atoms() + b.atoms():
            if isinstance(at, tuple) and at[0] == "lv":
                return True
    return False


def _return_site(r: PathResult) -> Tuple[str, str, str]:
    """(file:line, 'function:ordinal-free description') of the return statement ending this path."""
    for e in reversed(r.events):
        if e.kind == "return" and e.fn:
            fn = e.fn.split(":")[-1]
            path = e.fn.split(":")[0].replace(".", "/") + ".py"
            branches = [("T" if b.taken else "F") for b in r.events if b.kind == "branch" and b.value != "decided"]
            return f"{path}:{e.line}", fn, "".join(branches) or "-"
    return "?", "?", "-"


def _chain(ivs: List[Tuple[int, Aff, Aff]], lo: Aff, hi: Aff, facts: Facts) -> Optional[str]:
    """None if the intervals form the chain lo=l0, u_i+1=l_{i+1}, u_last=hi; else a description."""
    rest = list(ivs)
    cur = lo
    order = []
    while rest:
        nxt = [x for x in rest if x[1] == cur or facts.decide(cmp_cond("==", x[1], cur)) is True]
        if len(nxt) != 1:
            return f"no unique sub-range starting at {show_val(cur)} (found {len(nxt)})"
        rest.remove(nxt[0])
        order.append(nxt[0][0])
        end = nxt[0][2]
        cur = end + ONE
    if not (cur == hi + ONE or facts.decide(cmp_cond("==", cur, hi + ONE)) is True):
        return f"the last sub-range ends at {show_val(cur - ONE)} instead of hi"
    return None


def _needed_bits(facts: Facts, a: Aff, b: Aff, lo: Aff, hi: Aff, E_MIN: int, E_MAX: int, E_GROUND: int):
    need = []
    if not (a == lo) and facts.decide(cmp_cond("==", a, lo)) is not True:
        need.append(("MIN", E_MIN, "lower bound moved"))
    if not (b == hi) and facts.decide(cmp_cond("==", b, hi)) is not True:
        need.append(("MAX", E_MAX, "upper bound moved"))
    g = facts.decide(cmp_cond("==", a, b))
    if g is True:
        need.append(("GROUND", E_GROUND, "the sub-range is a single value"))
    elif g is None:
        need.append(("GROUND", E_GROUND, "the sub-range may be a single value and the mask was not selected by a test of its two bounds"))
    return need


# ---------------------------------------------------------------------- push / pop
def check_choice_points(ctx: Ctx, prog: Program) -> None:
    mod = f"{prog.package}.solvers.choice_points"
    MIN, MAX = prog.C("MIN"), prog.C("MAX")
    # ---- cp_put
    fn = prog.func(mod, "cp_put")
    ctx.fn(fn.fq)
    ps = fn.params
    if len(ps) != 3:
        raise AnalysisError("cp_put: expected (stack, flags, top)")
    sroot, froot, troot = ps
    it = Interp(prog)
    res = [r for r in it.run(fn) if r.outcome == "return"]
    T = init(troot, K(0))
    x, y = S("x"), S("y")
    for r in res:
        s = r.state
        top2 = it.load_at(s, len(s.heap), troot, (K(0),))
        if not (top2 == T + ONE):
            ctx.violation("R-PUSH-POP", fn.path, "cp_put", "top", fn.loc(), f"cp_put sets the stack pointer to {show_val(top2)} (expected T+1)")
        else:
            ctx.ok("R-PUSH-POP", "cp_put:top")
        v = it.load_at(s, len(s.heap), sroot, (T + ONE, x, y))
        if not (v == init(sroot, T, x, y)):
            ctx.violation("R-PUSH-POP", fn.path, "cp_put", "copy-domains", fn.loc(),
                          f"cp_put: level T+1 of the domain stack is not a full copy of level T (cell [T+1,x,y] = {show_val(v)})")
        else:
            ctx.ok("R-PUSH-POP", "cp_put:copy-domains", sample={"cell[T+1,x,y]": show_val(v)})
        v = it.load_at(s, len(s.heap), froot, (T + ONE, x))
        if not (v == init(froot, T, x)):
            ctx.violation("R-PUSH-POP", fn.path, "cp_put", "copy-flags", fn.loc(),
                          f"cp_put: level T+1 of the enabled-constraints stack is not a full copy of level T (cell [T+1,x] = {show_val(v)})")
        else:
            ctx.ok("R-PUSH-POP", "cp_put:copy-flags")
        for root in (sroot, froot):
            for lvl in (0, -1):
                idx = (T.addc(lvl), x, y) if root == sroot else (T.addc(lvl), x)
                v = it.load_at(s, len(s.heap), root, idx)
                if not (v == Aff.atom(("init", root, idx))):
                    ctx.violation("R-PUSH-POP", fn.path, "cp_put", f"lower-levels:{root}", fn.loc(),
                                  f"cp_put modifies level T{lvl:+d} of {root}")
                else:
                    ctx.ok("R-PUSH-POP", f"cp_put:untouched:{root}:T{lvl:+d}", nontrivial=False)
    ctx.floor("R-PUSH-POP:cp_put-paths", len(res), 1)
    # ---- backtrack
    fn = prog.func(mod, "backtrack")
    ctx.fn(fn.fq)
    ps = fn.params
    if len(ps) != 6:
        raise AnalysisError("backtrack: expected 6 parameters")
    stat, froot, uroot, troot, trig, trg = ps
    it = Interp(prog, no_inline={"add_propagators": [0]})
    st = State()
    T = init(troot, K(0))
    st.facts.add(cmp_cond(">=", T, ZERO))
    res = [r for r in it.run(fn, state=st) if r.outcome == "return"]
    n_true = n_false = 0
    U_IDX, U_EV = prog.C("DOM_UPDATE_IDX"), prog.C("DOM_UPDATE_EVENTS")
    for r in res:
        s = r.state
        rv = it.scalar(s, r.value)
        top2 = it.load_at(s, len(s.heap), troot, (K(0),))
        stores = [e for e in r.events if e.kind == "store"]
        calls = [e for e in r.events if e.kind == "call" and e.name and e.name.endswith(":add_propagators")]
        if rv == ZERO:
            n_false += 1
            if s.facts.decide(cmp_cond("==", T, ZERO)) is not True:
                ctx.violation("R-PUSH-POP", fn.path, "backtrack", "fails-iff-empty", fn.loc(),
                              "backtrack reports failure on a path where the stack is not provably at level 0")
            elif [e for e in stores if e.root in (froot, uroot, troot)]:
                ctx.violation("R-PUSH-POP", fn.path, "backtrack", "fail-path-stores", fn.loc(), "backtrack modifies the stacks on its failure path")
            else:
                ctx.ok("R-PUSH-POP", "backtrack:fails-iff-level-0")
        elif rv == ONE:
            n_true += 1
            if s.facts.decide(cmp_cond("==", T, ZERO)) is not False:
                ctx.violation("R-PUSH-POP", fn.path, "backtrack", "pops-at-level-0", fn.loc(),
                              "backtrack pops on a path where the stack may be at level 0")
            if not (top2 == T - ONE):
                ctx.violation("R-PUSH-POP", fn.path, "backtrack", "decrement", fn.loc(),
                              f"backtrack leaves the stack pointer at {show_val(top2)} (expected T-1)")
            else:
                ctx.ok("R-PUSH-POP", "backtrack:decrement")
            bad = [e for e in stores if e.root in (froot, uroot)]
            if bad:
                ctx.violation("R-PUSH-POP", fn.path, "backtrack", "restore-stores", f"{fn.path}:{bad[0].line}",
                              f"backtrack writes {bad[0].root}: a pop must expose the saved rows untouched")
            else:
                ctx.ok("R-PUSH-POP", "backtrack:rows-untouched")
            if len(calls) != 1:
                ctx.violation("R-ANNOUNCE", fn.path, "backtrack", "replay-call", fn.loc(),
                              f"backtrack must re-queue the watchers of the recorded events exactly once (found {len(calls)} calls)")
            else:
                c = calls[0]
                a = [as_view(v) for v in c.args]
                okc = (
                    len(a) == 5 and isinstance(a[0], View) and a[0].root == trig
                    and isinstance(a[1], View) and a[1].root == froot and len(a[1].idx) == 1 and a[1].idx[0] == T - ONE
                    and isinstance(a[2], View) and a[2].root == trg
                    and it.scalar(s, c.args[3]) == init(uroot, T - ONE, K(U_IDX))
                    and it.scalar(s, c.args[4]) == init(uroot, T - ONE, K(U_EV))
                )
                row_okc = len(a) == 5 and isinstance(a[1], View) and a[1].root == froot and len(a[1].idx) == 1 and a[1].idx[0] == T - ONE
                if not row_okc:
                    ctx.violation("R-ANNOUNCE", fn.path, "backtrack", "replay-row", f"{fn.path}:{c.line}",
                                  f"backtrack re-queues against {a[1]!r}, not the enabled-flags row of the level that becomes current")
                elif not okc:
                    ctx.violation("R-ANNOUNCE", fn.path, "backtrack", "replay-pair", f"{fn.path}:{c.line}",
                                  "backtrack: the replayed (domain, events) pair or the flags row is not the one saved at the "
                                  f"level that becomes current: args = {[repr(x) for x in c.args]}")
                else:
                    ctx.ok("R-ANNOUNCE", "backtrack:replay", sample={"args": [repr(x) for x in c.args]})
        else:
            ctx.violation("R-PUSH-POP", fn.path, "backtrack", "return-value", fn.loc(), f"backtrack returns {show_val(rv)}")
    ctx.floor("R-PUSH-POP:backtrack-paths", n_true + n_false, 2)
    if n_true == 0 or n_false == 0:
        ctx.violation("R-PUSH-POP", fn.path, "backtrack", "both-outcomes", fn.loc(),
                      "backtrack must have a failing path (level 0) and a popping path")
    # ---- cp_init
    fn = prog.func(mod, "cp_init")
    ctx.fn(fn.fq)
    ps = fn.params
    if len(ps) != 5:
        raise AnalysisError("cp_init: expected 5 parameters")
    sroot, froot, uroot, troot, arr = ps
    it = Interp(prog)
    res = [r for r in it.run(fn) if r.outcome == "return"]
    for r in res:
        s = r.state
        x, y = S("x"), S("y")
        checks = [
            ("top", it.load_at(s, len(s.heap), troot, (K(0),)), ZERO),
            ("domains-row0", it.load_at(s, len(s.heap), sroot, (K(0), x, y)), init(arr, x, y)),
            ("flags-row0", it.load_at(s, len(s.heap), froot, (K(0), x)), ONE),
        ]
        for nm, got, exp in checks:
            if not (got == exp):
                ctx.violation("R-PUSH-POP", fn.path, "cp_init", nm, fn.loc(), f"cp_init: {nm} is {show_val(got)} (expected {show_val(exp)})")
            else:
                ctx.ok("R-PUSH-POP", f"cp_init:{nm}")
    ctx.floor("R-PUSH-POP:cp_init-paths", len(res), 1)


def _push_on_every_path(ctx: Ctx, prog: Program, fn: FuncInfo) -> None:
    voc = heuristic_vocab(prog, fn)
    sroot, troot, dname = voc[STACK], voc[TOP], voc["dom_idx"]
    MIN, MAX = prog.C("MIN"), prog.C("MAX")
    it = Interp(prog)
    st = State()
    T = init(troot, K(0))
    d = S("d")
    lo, hi = init(sroot, T, d, K(MIN)), init(sroot, T, d, K(MAX))
    st.facts.add(cmp_cond("<=", lo, hi))  # any non-empty domain, instantiated or not
    st.facts.add(cmp_cond(">=", T, ZERO))
    bad = None
    n = 0
    for r in it.run(fn, args={dname: d}, state=st):
        if r.outcome != "return":
            continue
        n += 1
        top2 = it.load_at(r.state, len(r.state.heap), troot, (K(0),))
        k = _const(top2 - T)
        if k is None or k < 1:
            bad = (r, top2)
    if bad is None:
        ctx.ok("R-PARTITION", f"{fn.name}: every return path has pushed at least one level (also for an instantiated domain)", sample={"paths": n})
    else:
        loc, rfn, _ = _return_site(bad[0])
        ctx.violation("R-PARTITION", fn.path, fn.name, "no-push-path", loc,
                      f"value heuristic {fn.name} has a path that returns with the stack pointer at {show_val(bad[1])} (nothing pushed): solve_one's descent is "
                      "bounded by the stack guard only because every decision pushes a level; when the variable heuristic answers 'none left' (-1, the last "
                      "shared domain) while a free variable is not a decision variable, this path changes nothing and the search loop never ends")


def check_value_heuristics(ctx: Ctx, prog: Program) -> None:
    ctx.rule("R-PARTITION")
    ctx.rule("R-BRANCH-EVENTS")
    reg = prog.registry("DOM_HEURISTIC_FCTS")
    total_paths = 0
    n = 0
    for ent in reg.entries:
        if not isinstance(ent, FuncInfo):
            raise AnalysisError(f"unresolved value heuristic registration: {ent}")
        n += 1
        total_paths += analyse_heuristic(ctx, prog, ent, ent.name)
    # the descent of the search is bounded by the stack guard only because every decision pushes: also for a domain that is already a single
    # value (the variable heuristic's 'none left' answer designates the last shared domain, which may be instantiated)
    for ent in reg.entries:
        if isinstance(ent, FuncInfo):
            _push_on_every_path(ctx, prog, ent)
    ctx.floor("R-PARTITION:registered-heuristics", n, 5)
    ctx.floor("R-PARTITION:return-paths", total_paths, 9)
    ctx.assume("the variable heuristic hands the value heuristic a domain with lo < hi (R-SENTINEL, C04)")
    ctx.assume("min-cost heuristic: at least one value of the chosen domain has a positive cost (documented contract)")
