"""R-COUNTER (every statistic is incremented exactly once at its event and nowhere else) and R-STATS-MAP."""
from __future__ import annotations

import ast
from typing import Any, Dict, List, Optional, Tuple

from ..core import Ctx
from ..interp import ALL, Dual, Event, Interp, LoopSummary, PathResult, State, Tup, View, as_view, NONE
from ..program import AnalysisError, FuncInfo, Program, NO
from ..roles import get_roles
from ..terms import Aff, K, ONE, S, ZERO, atoms_in, cmp_cond, show_val
from .engine import bc_analyses, calls_named, loops_of, init, role_param, _call_result, _icall_result, _stores_through
from .search import rule_solve_one

STAT_NAMES = [
    "ALG_BC_NB", "ALG_BC_WITH_SHAVING_NB", "ALG_SHAVING_NB", "ALG_SHAVING_CHANGE_NB", "ALG_SHAVING_NO_CHANGE_NB",
    "PROPAGATOR_ENTAILMENT_NB", "PROPAGATOR_FILTER_NB", "PROPAGATOR_FILTER_NO_CHANGE_NB", "PROPAGATOR_INCONSISTENCY_NB",
    "SOLVER_BACKTRACK_NB", "SOLVER_CHOICE_NB", "SOLVER_CHOICE_DEPTH", "SOLVER_SOLUTION_NB",
]


def _idx(prog: Program) -> Dict[str, int]:
    return {n: prog.C("STATS_IDX_" + n) for n in STAT_NAMES}


def _new_counters(prog: Program) -> Dict[str, int]:
    """Counters the package declares beyond the 13 the event rules know (STATS_IDX_<N> in the constants module): a maintainer's addition.
    Their event is not known to R-COUNTER; R-STATS-MAP holds them to the same wiring as the others (own index, own label, reported,
    aggregated by sum or max over the workers)."""
    out: Dict[str, int] = {}
    m = prog.modules.get(f"{prog.package}.constants")
    if m is None:
        return out
    for nm, v in m.consts.items():
        if nm.startswith("STATS_IDX_") and isinstance(v, int) and not isinstance(v, bool) and nm[len("STATS_IDX_"):] not in STAT_NAMES:
            out[nm[len("STATS_IDX_"):]] = v
    return out


_MUTATORS = ("append", "extend", "insert", "pop", "remove", "sort", "reverse", "clear")


def _const_table(prog: Program, modname: str, e: ast.expr) -> Any:
    """A constant tuple, or a module-level list literal of constants that is assigned once and that nothing in the program mutates."""
    seq = prog.fold(modname, e)
    if seq is not NO and isinstance(seq, tuple):
        return seq
    if not isinstance(e, ast.Name):
        return NO
    mod, name = modname, e.id
    for _ in range(6):
        m = prog.modules.get(mod)
        if m is None:
            return NO
        if name in m.globals_assigned:
            break
        if name in m.imports and m.imports[name][1] is not None:
            mod, name = m.imports[name]
            continue
        return NO
    m = prog.modules[mod]
    asg = m.globals_assigned.get(name, [])
    if len(asg) != 1 or not isinstance(asg[0], (ast.Assign, ast.AnnAssign)) or not isinstance(asg[0].value, (ast.List, ast.Tuple)):
        return NO
    vals = [prog.fold(mod, x) for x in asg[0].value.elts]
    if any(v is NO for v in vals):
        return NO
    for mm in prog.modules.values():  # nobody changes the list after its definition
        for n in ast.walk(mm.tree):
            if isinstance(n, ast.Attribute) and n.attr in _MUTATORS and isinstance(n.value, ast.Name) and n.value.id == name:
                return NO
            if isinstance(n, (ast.Subscript, ast.Name)) and isinstance(getattr(n, "ctx", None), (ast.Store, ast.Del)):
                base = n.value if isinstance(n, ast.Subscript) else n
                if isinstance(base, ast.Name) and base.id == name and not (mm is m and any(n is t or any(n is w for w in ast.walk(t)) for t in (asg[0].targets if isinstance(asg[0], ast.Assign) else [asg[0].target]))):
                    return NO
            if isinstance(n, ast.AugAssign) and isinstance(n.target, ast.Name) and n.target.id == name:
                return NO
    return tuple(vals)


def _incs(events: List[Event], stats_root: str, idx: int, own_fn: Optional[str] = None) -> List[Event]:
    return [e for e in events if e.kind == "store" and e.root == stats_root and tuple(e.idx) == (K(idx),) and (own_fn is None or e.fn == own_fn)]


def _plus_one(e: Event) -> bool:
    if e.aug is not None and e.aug[0] == "Add" and e.aug[1] == ONE:
        return True
    # written out:  s[k] = s[k] + 1
    return isinstance(e.value, Aff) and isinstance(e.old, Aff) and (e.value - e.old) == ONE


def _exactly_one(ctx: Ctx, fn: FuncInfo, mode: str, label: str, incs: List[Event], expected: bool, when: str) -> None:
    if expected:
        if len(incs) == 1 and _plus_one(incs[0]):
            ctx.ok("R-COUNTER", f"{fn.name}[{mode}]: {label} += 1 exactly once {when}", sample={"line": incs[0].line})
        else:
            ctx.violation("R-COUNTER", fn.path, fn.name, label, f"{fn.path}:{incs[0].line if incs else fn.node.lineno}",
                          f"{label} must be incremented by exactly 1, exactly once, {when} (found {len(incs)} modification(s)"
                          f"{'' if not incs or _plus_one(incs[0]) else ', not a += 1'})")
    else:
        if incs:
            ctx.violation("R-COUNTER", fn.path, fn.name, f"{label}:extra", f"{fn.path}:{incs[0].line}",
                          f"{label} is modified on a path where its event did not happen (it counts: {when})")
        else:
            ctx.ok("R-COUNTER", f"{fn.name}[{mode}]: {label} untouched otherwise", nontrivial=False)


def rule_counters_bc(ctx: Ctx, prog: Program) -> None:
    ctx.rule("R-COUNTER")
    IDX = _idx(prog)
    PI = prog.C("PROBLEM_INCONSISTENT")
    PE = prog.C("PROP_ENTAILMENT")
    known = {IDX[n]: n for n in ("ALG_BC_NB", "PROPAGATOR_FILTER_NB", "PROPAGATOR_INCONSISTENCY_NB", "PROPAGATOR_ENTAILMENT_NB", "PROPAGATOR_FILTER_NO_CHANGE_NB")}
    for a in bc_analyses(prog):
        fn, it = a.fn, a.it
        ctx.fn(fn.fq)
        # entry
        _exactly_one(ctx, fn, a.mode, "ALG_BC_NB", _incs(a.entry_events, a.stats, IDX["ALG_BC_NB"]), True, "at the entry of a propagation pass")
        # every way through the function is a pass: a path that answers without going through the propagation loop (a fast path) counts too
        for r in a.paths:
            if r.outcome != "return":
                continue
            went = any(e.kind in ("loop", "iter") and e.loop is a.outer for e in r.state.trace)
            if went:
                continue
            own = [e for e in r.state.trace if e.kind == "store" and e.root == a.stats and tuple(e.idx) == (K(IDX["ALG_BC_NB"]),)]
            if len(own) == 1 and _plus_one(own[0]):
                ctx.ok("R-COUNTER", f"{fn.name}[{a.mode}]: a pass that answers without entering the propagation loop is counted", nontrivial=False)
            else:
                line = next((e.line for e in reversed(r.state.trace) if e.kind == "return"), fn.node.lineno)
                ctx.violation("R-COUNTER", fn.path, fn.name, "ALG_BC_NB:uncounted-pass", f"{fn.path}:{line}",
                              f"{fn.name} has a path that answers (line {line}) without going through the propagation loop and with {len(own)} increment(s) of "
                              "ALG_BC_NB: such a pass -- e.g. one that finds the queue empty -- is not counted, so the number of passes no longer equals "
                              "1 + choices + backtracks")
        for e in a.entry_events:
            if e.kind == "store" and e.root == a.stats and tuple(e.idx) != (K(IDX["ALG_BC_NB"]),):
                ctx.violation("R-COUNTER", fn.path, fn.name, "entry-other", f"{fn.path}:{e.line}", f"statistic {show_val(e.idx[0])} modified at the entry of the pass")
        n_paths = 0
        for bp in a.outer.paths:
            n_paths += 1
            s = bp.state
            own = [e for e in bp.events if e.kind == "store" and e.root == a.stats]
            for e in own:
                if not (len(e.idx) == 1 and e.idx[0].is_const() and e.idx[0].c in known):
                    ctx.violation("R-COUNTER", fn.path, fn.name, f"foreign-counter:{show_val(e.idx[0]) if e.idx else '?'}", f"{fn.path}:{e.line}",
                                  f"the propagation loop modifies statistic {show_val(e.idx[0]) if e.idx else '?'}, which belongs to another event")
            _exactly_one(ctx, fn, a.mode, "ALG_BC_NB", _incs(bp.events, a.stats, IDX["ALG_BC_NB"]), False, "once per pass, not per iteration")
            ic = [e for e in bp.events if e.kind == "icall"]
            _exactly_one(ctx, fn, a.mode, "PROPAGATOR_FILTER_NB", _incs(bp.events, a.stats, IDX["PROPAGATOR_FILTER_NB"]), len(ic) == 1,
                         "for each execution of a constraint's filtering function")
            ret_incons = bp.outcome == "return" and it.scalar(s, bp.value) == K(PI)
            _exactly_one(ctx, fn, a.mode, "PROPAGATOR_INCONSISTENCY_NB", _incs(bp.events, a.stats, IDX["PROPAGATOR_INCONSISTENCY_NB"]), ret_incons,
                         "when an execution ends the pass with a failure")
            status = _icall_result(bp.events)
            ent = status is not None and s.facts.decide(cmp_cond("==", status, K(PE))) is True
            _exactly_one(ctx, fn, a.mode, "PROPAGATOR_ENTAILMENT_NB", _incs(bp.events, a.stats, IDX["PROPAGATOR_ENTAILMENT_NB"]), ent,
                         "when the executed constraint answers 'entailed'")
            # no-change: flag protocol
            wb = [l for l in loops_of(bp.events) if l is not a.outer and a.stack in l.stored_roots]
            nc = _incs(bp.events, a.stats, IDX["PROPAGATOR_FILTER_NO_CHANGE_NB"])
            if not ic or bp.outcome == "return":
                _exactly_one(ctx, fn, a.mode, "PROPAGATOR_FILTER_NO_CHANGE_NB", nc, False, "when an execution changed no shared domain")
                continue
            if len(wb) != 1:
                ctx.violation("R-COUNTER", fn.path, fn.name, "no-change-protocol", fn.loc(), "an execution is not followed by exactly one write-back loop")
                continue
            l = wb[0]
            flag = _change_flag(it, l, a.stack)
            if flag is None:
                ctx.violation("R-COUNTER", fn.path, fn.name, "PROPAGATOR_FILTER_NO_CHANGE_NB:flag", f"{fn.path}:{getattr(l.node, 'lineno', 0)}",
                              "no loop-carried flag records 'some shared domain was stored' exactly on the storing iterations of the write-back "
                              "(it must start false, become true on every iteration that stores a bound and stay unchanged otherwise)")
                continue
            lvf = Aff.atom(("lv", flag, l.loop_id))
            unchanged = s.facts.decide(("eq0", lvf))
            if unchanged is True:
                _exactly_one(ctx, fn, a.mode, "PROPAGATOR_FILTER_NO_CHANGE_NB", nc, True, "when an execution changed no shared domain")
            elif unchanged is False:
                _exactly_one(ctx, fn, a.mode, "PROPAGATOR_FILTER_NO_CHANGE_NB", nc, False, "when an execution changed no shared domain")
            else:
                ctx.violation("R-COUNTER", fn.path, fn.name, "PROPAGATOR_FILTER_NO_CHANGE_NB:untested", fn.loc(),
                              "after the write-back the 'something changed' flag is not tested before the no-change statistic is (not) incremented")
        ctx.floor(f"R-COUNTER:{a.mode}:bc-iteration-paths", n_paths, 5)


def _change_flag(it: Interp, l: LoopSummary, stack: str) -> Optional[str]:
    """Name of the loop-carried boolean that is false before the loop, set to true exactly on the paths that store
    into the domain stack and left unchanged on the others."""
    for nm in l.assigned:
        pre = l.pre_env.get(nm)
        if pre is None or not (it.scalar(State(), pre) == ZERO):
            continue
        lv = Aff.atom(("lv", nm, l.loop_id))
        good = True
        for bp in l.paths:
            stores = [e for e in bp.events if e.kind == "store" and e.root == stack]
            end = it.scalar(bp.state, bp.state.env.get(nm))
            if bp.outcome == "return":
                continue
            if stores and not (end == ONE):
                good = False
            if not stores and not (end == lv):
                good = False
        if good:
            return nm
    return None


def rule_counters_shaving(ctx: Ctx, prog: Program) -> None:
    ctx.rule("R-COUNTER")
    IDX = _idx(prog)
    fn = prog.func(f"{prog.package}.solvers.shaving_consistency_algorithm", "shaving_consistency_algorithm")
    ctx.fn(fn.fq)
    stats = role_param(prog, fn, "statistics")
    it = Interp(prog, no_inline={"bound_consistency_algorithm": [], "shave_bound": [], "first_not_instantiated_var_heuristic": []})
    res = it.run(fn)
    allowed = {IDX[n] for n in ("ALG_BC_WITH_SHAVING_NB", "ALG_SHAVING_NB", "ALG_SHAVING_CHANGE_NB", "ALG_SHAVING_NO_CHANGE_NB")}
    loops: List[LoopSummary] = []
    entry: List[Event] = []
    for r in res:
        for i, e in enumerate(r.events):
            if e.kind in ("iter", "loop") and e.loop is not None:
                if e.loop not in loops:
                    loops.append(e.loop)
                if not entry:
                    entry = r.events[:i]
                break
    if len(loops) != 1:
        raise AnalysisError(f"{fn.fq}: expected one shaving loop, found {len(loops)}")
    _exactly_one(ctx, fn, "-", "ALG_BC_WITH_SHAVING_NB", _incs(entry, stats, IDX["ALG_BC_WITH_SHAVING_NB"]), True, "at the entry of the shaving algorithm")
    # ---- counters accumulated in locals and written back when the function returns (`stats[K] += <expression over loop-carried locals>`)
    loop0 = loops[0]
    flushed: Dict[int, Aff] = {}
    for r in res:
        for e in r.state.trace:
            if e.kind == "store" and e.root == stats and len(e.idx) == 1 and isinstance(e.idx[0], Aff) and e.idx[0].is_const() and e.aug is not None \
                    and e.aug[0] == "Add" and isinstance(e.aug[1], Aff) and not e.aug[1].is_const() \
                    and all(isinstance(a_, tuple) and a_[0] == "lv" and a_[2] == loop0.loop_id for a_ in e.aug[1].atoms()):
                flushed.setdefault(e.idx[0].c, e.aug[1])
    name_of = {v: k for k, v in IDX.items()}
    proxy_delta: Dict[int, Any] = {}
    if flushed:
        # (1) every way out of the function writes the accumulated count back exactly once
        for k_, expr in sorted(flushed.items()):
            lbl = name_of.get(k_, str(k_))
            for r in res:
                if r.outcome != "return":
                    continue
                fl = [e for e in r.state.trace if e.kind == "store" and e.root == stats and tuple(e.idx) == (K(k_),) and e.aug is not None and e.aug[0] == "Add"
                      and isinstance(e.aug[1], Aff) and not e.aug[1].is_const()]
                if len(fl) != 1:
                    line = next((e.line for e in reversed(r.state.trace) if e.kind == "return"), fn.node.lineno)
                    ctx.violation("R-COUNTER", fn.path, fn.name, f"{lbl}:not-written-back", f"{fn.path}:{line}",
                                  f"{lbl} is accumulated in a local and written back when the function returns, but the exit at line {line} writes it back "
                                  f"{len(fl)} time(s): the events counted so far are lost (or counted twice) on that path")
                else:
                    ctx.ok("R-COUNTER", f"{lbl}: the locally accumulated count is written back on this exit", nontrivial=False)

            def delta(bp_: PathResult, expr_: Aff = expr) -> Optional[int]:
                tot = K(0)
                for a_, c_ in expr_.t:
                    end = it.scalar(bp_.state, bp_.state.env.get(a_[1]))
                    if not isinstance(end, Aff):
                        return None
                    tot = tot + (end - Aff.atom(a_)).scale(c_)
                return tot.c if tot.is_const() else None
            proxy_delta[k_] = delta

    def incs_of(bp_: PathResult, key: str) -> List[Event]:
        """the increments of a counter on a body path: stores, or -- for a locally accumulated counter -- one pseudo event per unit of its
        accumulator's progress on the path"""
        k_ = IDX[key]
        if k_ in proxy_delta and bp_.outcome in ("fall", "continue", "break", "return"):
            d_ = proxy_delta[k_](bp_)
            if d_ is None or d_ < 0:
                return [Event("store", node=loop0.node, root=stats, idx=(K(k_),), aug=("Add", K(2)))]  # not a unit step: reported as 'not a += 1'
            return [Event("store", node=loop0.node, root=stats, idx=(K(k_),), aug=("Add", ONE)) for _ in range(d_)]
        return _incs(bp_.events, stats, k_)

    n = 0
    for bp in loops[0].paths:
        s = bp.state
        for e in bp.events:
            if e.kind == "store" and e.root == stats and not (len(e.idx) == 1 and e.idx[0].is_const() and e.idx[0].c in allowed):
                ctx.violation("R-COUNTER", fn.path, fn.name, "foreign-counter", f"{fn.path}:{e.line}", f"shaving modifies statistic {show_val(e.idx[0])}")
        _exactly_one(ctx, fn, "-", "ALG_BC_WITH_SHAVING_NB", _incs(bp.events, stats, IDX["ALG_BC_WITH_SHAVING_NB"]), False, "once per call, not per probe")
        sb = calls_named(bp.events, "shave_bound")
        _exactly_one(ctx, fn, "-", "ALG_SHAVING_NB", incs_of(bp, "ALG_SHAVING_NB"), len(sb) == 1, "for each probe of a bound")
        ch = incs_of(bp, "ALG_SHAVING_CHANGE_NB")
        nch = incs_of(bp, "ALG_SHAVING_NO_CHANGE_NB")
        if len(sb) == 1:
            n += 1
            r = _call_result(bp.events, sb[0])
            shaved = s.facts.decide(("ne0", r))
            if shaved is None:
                ctx.violation("R-COUNTER", fn.path, fn.name, "shaving-outcome-untested", f"{fn.path}:{sb[0].line}", "the outcome of a probe is not tested")
                continue
            _exactly_one(ctx, fn, "-", "ALG_SHAVING_CHANGE_NB", ch, shaved is True, "when a probe removed a bound value")
            _exactly_one(ctx, fn, "-", "ALG_SHAVING_NO_CHANGE_NB", nch, shaved is False, "when a probe removed nothing")
        else:
            _exactly_one(ctx, fn, "-", "ALG_SHAVING_CHANGE_NB", ch, False, "when a probe removed a bound value")
            _exactly_one(ctx, fn, "-", "ALG_SHAVING_NO_CHANGE_NB", nch, False, "when a probe removed nothing")
    ctx.floor("R-COUNTER:shaving-probe-paths", n, 2)
    # shave_bound itself counts nothing directly
    sb_fn = prog.func(f"{prog.package}.solvers.shaving_consistency_algorithm", "shave_bound")
    if _stores_through(sb_fn, role_param(prog, sb_fn, "statistics")):
        ctx.violation("R-COUNTER", sb_fn.path, "shave_bound", "direct-counter", sb_fn.loc(), "shave_bound modifies the statistics directly")
    else:
        ctx.ok("R-COUNTER", "shave_bound: no direct statistics store")


def rule_counters_backtrack(ctx: Ctx, prog: Program) -> None:
    ctx.rule("R-COUNTER")
    IDX = _idx(prog)
    fn = prog.func(f"{prog.package}.solvers.choice_points", "backtrack")
    ctx.fn(fn.fq)
    stats = fn.params[0]
    it = Interp(prog, no_inline={"add_propagators": [0]})
    for r in it.run(fn):
        if r.outcome != "return":
            continue
        popped = it.scalar(r.state, r.value) == ONE
        for e in r.events:
            if e.kind == "store" and e.root == stats and tuple(e.idx) != (K(IDX["SOLVER_BACKTRACK_NB"]),):
                ctx.violation("R-COUNTER", fn.path, fn.name, "foreign-counter", f"{fn.path}:{e.line}", f"backtrack modifies statistic {show_val(e.idx[0])}")
        _exactly_one(ctx, fn, "-", "SOLVER_BACKTRACK_NB", _incs(r.events, stats, IDX["SOLVER_BACKTRACK_NB"]), popped, "when a choice point is resumed")


def rule_backtrack_resumes(ctx: Ctx, prog: Program) -> None:
    """SOLVER_BACKTRACK_NB is incremented inside backtrack(), once per choice point popped: it equals 'choice points resumed' only if every
    caller goes on searching from the state backtrack() restored.  A caller that pops a choice point and then re-initialises the stacks
    (reset / cp_init) before the next search has counted a backtrack that resumed nothing (and the pass it would have caused never
    happens: passes != 1 + choices + backtracks).  Decided on the abstract paths of every method of the sequential solver that calls
    backtrack(): between a backtrack() that may have succeeded and the next solve_one() there is no reset()/cp_init() -- within one
    iteration, or from the end of one iteration to the start of the next."""
    ctx.rule("R-COUNTER")
    mod = prog.modules.get(f"{prog.package}.solvers.backtrack_solver")
    if mod is None:
        raise AnalysisError("anchor module vanished: solvers.backtrack_solver")
    KEY = ("backtrack", "reset", "cp_init", "solve_one")
    n = 0
    for cls, meths in mod.classes.items():
        for fn in meths.values():
            names = {x.func.id for x in ast.walk(fn.node) if isinstance(x, ast.Call) and isinstance(x.func, ast.Name)}
            if "backtrack" not in names:
                continue
            n += 1
            ctx.fn(fn.fq)
            it = Interp(prog, no_inline={"solve_one": None, "reset": None, "cp_init": None, "backtrack": None, "get_function_addresses": []})
            res = it.run(fn)

            def seq(evs: List[Event], state: Any) -> List[Tuple[str, Event]]:
                out: List[Tuple[str, Event]] = []
                for e in evs:
                    if e.kind == "call" and e.name:
                        b = e.name.rsplit(":", 1)[-1]
                        if b in KEY:
                            if b == "backtrack" and e.ret is not None:
                                rv = it.scalar(state, e.ret)
                                if isinstance(rv, Aff) and state.facts.decide(cmp_cond("==", rv, ZERO)) is True:
                                    continue  # answered 'no alternative left': nothing was popped, nothing counted
                            out.append(("reset" if b == "cp_init" else b, e))
                return out
            bad: Optional[Event] = None
            paths: List[PathResult] = list(res)
            loops: List[LoopSummary] = []
            for r in res:
                for l in loops_of(r.state.trace):
                    if l not in loops:
                        loops.append(l)
            for l in loops:
                sq = [(bp, seq(bp.events, bp.state)) for bp in l.paths]
                paths.extend(l.paths)
                ends_popped = [q[-1][1] for bp, q in sq if q and q[-1][0] == "backtrack" and bp.outcome in ("fall", "continue")]
                starts_reset = [q[0][1] for bp, q in sq if q and q[0][0] == "reset"]
                if ends_popped and starts_reset:
                    bad = starts_reset[0]
            for r in paths:
                q = seq(r.events, r.state)
                for (a, _), (b, eb) in zip(q, q[1:]):
                    if a == "backtrack" and b == "reset":
                        bad = eb
            if bad is not None:
                ctx.violation("R-COUNTER", fn.path, fn.qualname, "SOLVER_BACKTRACK_NB:resumed-then-reset", f"{fn.path}:{bad.line}",
                              f"{fn.qualname} pops a choice point with backtrack() (counted in SOLVER_BACKTRACK_NB) and re-initialises the stacks before "
                              "searching from it: a backtrack is counted for a choice point that was never resumed "
                              "(backtracks != choice points resumed; passes != searches + choices + backtracks)")
            else:
                ctx.ok("R-COUNTER", f"{fn.qualname}: every choice point popped by backtrack() is searched from (no reset before the next solve_one)")
    ctx.floor("R-COUNTER:callers-of-backtrack", n, 2)


def rule_counter_writers(ctx: Ctx, prog: Program, thorough: bool = False) -> None:
    """Nobody else writes the statistics array."""
    ctx.rule("R-COUNTER")
    roles = get_roles(prog)
    allowed = {"bound_consistency_algorithm", "shaving_consistency_algorithm", "backtrack", "solve_one"}
    n = 0
    for fn, p in roles.functions_with_role("statistics"):
        if ".examples." in fn.module and not thorough:
            continue
        if _stores_through(fn, p):
            n += 1
            if fn.name in allowed:
                ctx.ok("R-COUNTER", f"writer of the statistics: {fn.name}", nontrivial=False)
            else:
                from .engine import refuse_unmodelled_algorithm
                refuse_unmodelled_algorithm(prog, fn)
                ctx.violation("R-COUNTER", fn.path, fn.qualname, "unexpected-writer", fn.loc(),
                              f"{fn.qualname} writes the statistics array; only the propagation loop, the shaving loop, backtrack and solve_one count events")
    ctx.floor("R-COUNTER:writers", n, 4)


# ------------------------------------------------------------------------- R-STATS-MAP
def _agg_kind(fn: FuncInfo) -> Optional[str]:
    """'sum' / 'max' when the function is  builtin(int(s[index]) for s in stats)  over its two parameters, else None."""
    body = [s for s in fn.node.body if not (isinstance(s, ast.Expr) and isinstance(s.value, ast.Constant))]
    if len(body) == 2 and isinstance(body[0], ast.Assign) and len(body[0].targets) == 1 and isinstance(body[0].targets[0], ast.Name) \
            and isinstance(body[1], ast.Return) and isinstance(body[1].value, ast.Name) and body[1].value.id == body[0].targets[0].id:
        body = [ast.Return(value=body[0].value)]  # the result held in a local
    if len(body) == 1 and isinstance(body[0], ast.Return) and isinstance(body[0].value, ast.Call) and len(fn.params) == 2:
        c = body[0].value
        if isinstance(c.func, ast.Name) and c.func.id in ("sum", "max") and len(c.args) == 1 and isinstance(c.args[0], (ast.GeneratorExp, ast.ListComp)):
            g = c.args[0]
            if len(g.generators) == 1 and not g.generators[0].ifs and ast.unparse(g.generators[0].iter) == fn.params[0]:
                tv = ast.unparse(g.generators[0].target)
                if ast.unparse(g.elt).replace(" ", "") in (f"int({tv}[{fn.params[1]}])", f"{tv}[{fn.params[1]}]"):
                    return c.func.id
    return None


def _stats_entries(prog: Program, fn: FuncInfo) -> List[Tuple[Any, Any, Optional[str], str, int, bool]]:
    """(label, index, aggregator, source text, line, reads self.statistics) for every entry of the dictionary get_statistics returns.  Two
    forms are read: a dict literal, and a dict comprehension over (enumerate of) a constant tuple of labels / indices."""
    rets = [n for n in ast.walk(fn.node) if isinstance(n, ast.Return) and n.value is not None]
    if len(rets) != 1:
        raise AnalysisError(f"{fn.fq}: expected a single return")
    d = rets[0].value
    if isinstance(d, ast.Name):  # the dictionary built in a local first
        asg = [n for n in ast.walk(fn.node) if isinstance(n, ast.Assign) and len(n.targets) == 1 and isinstance(n.targets[0], ast.Name) and n.targets[0].id == d.id]
        if len(asg) == 1:
            d = asg[0].value

    def entry(lbl: Any, v: ast.expr, env: Dict[str, Any]) -> Tuple[Any, Any, Optional[str], str, int, bool]:
        """v: [AGG(] self.statistics [, ] index [)]  or  [int(] self.statistics[index] [)]"""
        src = ast.unparse(v)
        aggname: Optional[str] = None
        idx_val: Any = None
        whole = "self.statistics" in src

        def val(e: ast.expr) -> Any:
            if isinstance(e, ast.Name) and e.id in env:
                return env[e.id]
            r = prog.fold(fn.module, e)
            return None if r is NO else r
        core = v
        if isinstance(core, ast.Call) and isinstance(core.func, ast.IfExp):
            # (agg_a if <test on the loop variables> else agg_b)(self.statistics, idx): the test is decided per table row
            t = core.func.test
            verdict: Optional[bool] = None
            if isinstance(t, ast.Compare) and len(t.ops) == 1:
                a_, b_ = val(t.left), val(t.comparators[0])
                if a_ is not None and b_ is not None:
                    if isinstance(t.ops[0], ast.Eq):
                        verdict = a_ == b_
                    elif isinstance(t.ops[0], ast.NotEq):
                        verdict = a_ != b_
                    elif isinstance(t.ops[0], ast.In) and isinstance(b_, tuple):
                        verdict = a_ in b_
                    elif isinstance(t.ops[0], ast.NotIn) and isinstance(b_, tuple):
                        verdict = a_ not in b_
            if verdict is None:
                raise AnalysisError(f"{fn.fq}: the aggregator of an entry is chosen by a test that is not decided per table row")
            core = ast.copy_location(ast.Call(func=core.func.body if verdict else core.func.orelse, args=core.args, keywords=core.keywords), core)
        if isinstance(core, ast.Call) and isinstance(core.func, ast.Name) and core.func.id in ("sum", "max") and len(core.args) == 1 \
                and isinstance(core.args[0], (ast.GeneratorExp, ast.ListComp)) and len(core.args[0].generators) == 1 and not core.args[0].generators[0].ifs \
                and ast.unparse(core.args[0].generators[0].iter) == "self.statistics" and isinstance(core.args[0].generators[0].target, ast.Name):
            # the aggregation written in place (or an aggregator helper inlined by the front end):  sum(int(s[IDX]) for s in self.statistics)
            tv = core.args[0].generators[0].target.id
            el = core.args[0].elt
            if isinstance(el, ast.Call) and isinstance(el.func, ast.Name) and el.func.id == "int" and len(el.args) == 1:
                el = el.args[0]
            if isinstance(el, ast.Subscript) and isinstance(el.value, ast.Name) and el.value.id == tv:
                return (lbl, val(el.slice), "builtin:" + core.func.id, src, getattr(v, "lineno", 0), whole)
        if isinstance(core, ast.Call) and isinstance(core.func, ast.Name):
            aggname = core.func.id
            if len(core.args) == 2 and ast.unparse(core.args[0]) == "self.statistics":
                idx_val = val(core.args[1])
                return (lbl, idx_val, aggname, src, getattr(v, "lineno", 0), whole)
            if len(core.args) == 1:
                core = core.args[0]
        if isinstance(core, ast.Subscript) and ast.unparse(core.value) == "self.statistics":
            idx_val = val(core.slice)
        return (lbl, idx_val, aggname, src, getattr(v, "lineno", 0), whole)

    out: List[Tuple[Any, Any, Optional[str], str, int, bool]] = []
    if isinstance(d, ast.Dict):
        for k, v in zip(d.keys, d.values):
            lbl = prog.fold(fn.module, k) if k is not None else NO
            out.append(entry(lbl if lbl is not NO else (ast.unparse(k) if k is not None else "?"), v, {}))
        return out
    if isinstance(d, ast.DictComp) and len(d.generators) == 1 and not d.generators[0].ifs:
        g = d.generators[0]
        it = g.iter
        enum = isinstance(it, ast.Call) and isinstance(it.func, ast.Name) and it.func.id == "enumerate" and len(it.args) == 1
        seq = _const_table(prog, fn.module, it.args[0] if enum else it)
        if seq is NO or not isinstance(seq, tuple):
            raise AnalysisError(f"{fn.fq}: the table the dictionary is built from is not a constant tuple (or a module-level list nobody mutates)")
        for i, item in enumerate(seq):
            env: Dict[str, Any] = {}
            tg = g.target
            if enum and isinstance(tg, ast.Tuple) and len(tg.elts) == 2 and all(isinstance(x, ast.Name) for x in tg.elts):
                env[tg.elts[0].id] = i
                env[tg.elts[1].id] = item
            elif not enum and isinstance(tg, ast.Name):
                env[tg.id] = item
            elif not enum and isinstance(tg, ast.Tuple) and isinstance(item, tuple) and len(tg.elts) == len(item) and all(isinstance(x, ast.Name) for x in tg.elts):
                for x, y in zip(tg.elts, item):
                    env[x.id] = y
            else:
                raise AnalysisError(f"{fn.fq}: unreadable comprehension target")
            if isinstance(d.key, ast.Name) and d.key.id in env:
                lbl = env[d.key.id]
            else:
                lbl = prog.fold(fn.module, d.key)
            out.append(entry(lbl, d.value, env))
        return out
    raise AnalysisError(f"{fn.fq}: expected a dict literal or a dict comprehension over a constant table")


def rule_stats_map(ctx: Ctx, prog: Program) -> None:
    ctx.rule("R-STATS-MAP")
    IDX = _idx(prog)
    NEW = _new_counters(prog)
    for n, v in NEW.items():
        lbl = prog.modules[f"{prog.package}.constants"].consts.get("STATS_LBL_" + n)
        if not isinstance(lbl, str) or lbl in IDX or lbl in [x for x in STAT_NAMES]:
            ctx.violation("R-STATS-MAP", "nucs/constants.py", "constants", f"label:{n}", "nucs/constants.py:1", f"the added counter STATS_IDX_{n} has no label of its own (STATS_LBL_{n} = {lbl!r})")
        else:
            ctx.ok("R-STATS-MAP", f"added counter {n}: own label {lbl!r}")
            IDX = dict(IDX)
            IDX[lbl] = v
    smax = prog.C("STATS_MAX")
    if smax != len(IDX) or sorted(IDX.values()) != list(range(smax)):
        ctx.violation("R-STATS-MAP", "nucs/constants.py", "constants", "indices", "nucs/constants.py:1",
                      f"the statistic indices are not a permutation of range(STATS_MAX): STATS_MAX={smax}, indices={sorted(IDX.values())}")
    else:
        ctx.ok("R-STATS-MAP", f"{len(IDX)} distinct indices = range(STATS_MAX)")
    for n in STAT_NAMES:
        lbl = prog.C("STATS_LBL_" + n)
        if lbl != n:
            ctx.violation("R-STATS-MAP", "nucs/constants.py", "constants", f"label:{n}", "nucs/constants.py:1", f"STATS_LBL_{n} = {lbl!r} does not name its own counter")
        else:
            ctx.ok("R-STATS-MAP", f"label {n}", nontrivial=False)
    for mod, cls, agg in ((f"{prog.package}.solvers.backtrack_solver", "BacktrackSolver", False), (f"{prog.package}.solvers.multiprocessing_solver", "MultiprocessingSolver", True)):
        fn = prog.func(mod, f"{cls}.get_statistics")
        ctx.fn(fn.fq)
        entries = _stats_entries(prog, fn)
        seen = set()
        for lbl, idx_val, aggname, src, line, whole in entries:
            if not isinstance(lbl, str) or lbl not in IDX:
                ctx.violation("R-STATS-MAP", fn.path, fn.qualname, f"key:{lbl}", f"{fn.path}:{line}", "unknown statistics label")
                continue
            seen.add(lbl)
            okk = idx_val == IDX[lbl] and whole
            want = ""
            if agg:
                want = "max" if lbl == "SOLVER_CHOICE_DEPTH" else "sum"
                if aggname and aggname.startswith("builtin:"):
                    kind_ = aggname.split(":", 1)[1]
                    okk = okk and (kind_ == want or lbl not in STAT_NAMES)
                else:
                    r_ = prog.resolve(fn.module, aggname) if aggname else None
                    okk = okk and bool(r_) and r_[0] == "func" and (_agg_kind(r_[1]) == want or (lbl not in STAT_NAMES and _agg_kind(r_[1]) in ("sum", "max")))
                want += " over the workers"
            else:
                okk = okk and aggname in (None, "int")
            if okk:
                ctx.ok("R-STATS-MAP", f"{cls}: {lbl} <- index {IDX[lbl]}" + (f" via {want}" if agg else ""), sample={"expr": src})
            else:
                ctx.violation("R-STATS-MAP", fn.path, fn.qualname, f"entry:{lbl}", f"{fn.path}:{line}",
                              f"{cls}.get_statistics: '{lbl}' is computed by {src}" + (f" (index {idx_val})" if idx_val is not None else "")
                              + "; expected the counter with the same name" + (f" aggregated with {want}" if agg else ""))
        missing = set(STAT_NAMES) - seen
        if missing:
            ctx.violation("R-STATS-MAP", fn.path, fn.qualname, "missing", fn.loc(), f"{cls}.get_statistics omits {sorted(missing)}")
        else:
            ctx.ok("R-STATS-MAP", f"{cls}: all 13 statistics reported")
    # aggregators: every function used to aggregate must be sum / max of int(s[index]) over every worker
    mod = f"{prog.package}.solvers.multiprocessing_solver"
    mp = prog.func(mod, "MultiprocessingSolver.get_statistics")
    all_aggs = {a for _, _, a, _, _, _ in _stats_entries(prog, mp) if a}
    inline_aggs = {a for a in all_aggs if a.startswith("builtin:")}
    for a in sorted(inline_aggs):
        ctx.ok("R-STATS-MAP", f"aggregation written in place: {a.split(':', 1)[1]} of the counter over all workers")
    used = sorted(all_aggs - inline_aggs)
    for name in used:
        r = prog.resolve(mod, name)
        if not (r and r[0] == "func"):
            ctx.violation("R-STATS-MAP", mp.path, name, "aggregator", mp.loc(), f"{name} is not a function of the package")
            continue
        kind = _agg_kind(r[1])
        if kind:
            ctx.ok("R-STATS-MAP", f"{name} = {kind} over all workers of the counter at the given index")
        else:
            ctx.violation("R-STATS-MAP", r[1].path, name, "aggregator", r[1].loc(), f"{name} must be sum / max of int(s[index]) for s in stats over every worker")
    ctx.floor("R-STATS-MAP:aggregators", len(used) + len(inline_aggs), 2)
    # the statistics array has STATS_MAX int64 cells
    fn = prog.func(f"{prog.package}.solvers.backtrack_solver", "BacktrackSolver.__init__")
    src = ast.unparse(fn.node)
    if "[0] * STATS_MAX" in src or "np.zeros(STATS_MAX" in src:
        ctx.ok("R-STATS-MAP", "statistics array has STATS_MAX cells")
    else:
        ctx.violation("R-STATS-MAP", fn.path, fn.qualname, "array-size", fn.loc(), "the statistics array is not allocated with STATS_MAX cells")
