"""C10 rules on the shaving consistency algorithm: height balance, restore arithmetic, refutation test,
probe announcement, re-propagation after a successful shave."""
from __future__ import annotations

from typing import Any, Dict, List, Optional, Tuple

from ..core import Ctx
from ..interp import ALL, Dual, Event, Interp, LoopSummary, PathResult, State, Tup, View, as_view, NONE
from ..program import AnalysisError, FuncInfo, Program
from ..terms import Aff, K, ONE, S, ZERO, atoms_in, cmp_cond, show_cond, show_val
from .engine import calls_named, loops_of, init, role_param, _call_result

MOD = "solvers.shaving_consistency_algorithm"


def _bc_summary(stack: str, flags: str, top: str, stats: str, trig: str):
    """Effect summary of bound_consistency_algorithm, as established by the engine rules on its own body:
    it stores only at the level current at entry (R-WRITEBACK-MONO store-level, R-FLAGS-WRITERS), never moves the pointer."""

    def summ(it: Interp, st: State, fn: FuncInfo, args: List[Any], node: Any) -> Any:
        t = it.load_at(st, len(st.heap), top, (K(0),))
        it.havoc_root(st, stack, (t,))
        it.havoc_root(st, flags, (t,))
        it.havoc_root(st, stats)
        it.havoc_root(st, trig)
        return it.fresh_root("ret", ("call", fn.fq, tuple(args)))

    return summ


def rule_shave_bound(ctx: Ctx, prog: Program) -> None:
    ctx.rule("R-SHAVE")
    fn = prog.func(f"{prog.package}.{MOD}", "shave_bound")
    ctx.fn(fn.fq)
    MIN, MAX = prog.C("MIN"), prog.C("MAX")
    E_MIN, E_MAX, E_GROUND = prog.C("EVENT_MASK_MIN"), prog.C("EVENT_MASK_MAX"), prog.C("EVENT_MASK_GROUND")
    PI = prog.C("PROBLEM_INCONSISTENT")
    stack = role_param(prog, fn, "shr_domains_stack")
    flags = role_param(prog, fn, "not_entailed_propagators_stack")
    top = role_param(prog, fn, "stacks_top")
    stats = role_param(prog, fn, "statistics")
    trig = role_param(prog, fn, "triggered_propagators")
    trgs = role_param(prog, fn, "triggers")
    bnd, dnm = fn.params[0], fn.params[1]
    it = Interp(prog, no_inline={"add_propagators": [0]})
    it.summaries["bound_consistency_algorithm"] = _bc_summary(stack, flags, top, stats, trig)
    st = State()
    T = init(top, K(0))
    d = S("d")
    b = S("bound")
    lo, hi = init(stack, T, d, K(MIN)), init(stack, T, d, K(MAX))
    st.facts.add(cmp_cond("<", lo, hi))  # the probed domain is not instantiated (checked on the caller)
    st.facts.add(cmp_cond(">=", b, K(min(MIN, MAX))))
    st.facts.add(cmp_cond("<=", b, K(max(MIN, MAX))))
    st.facts.add(cmp_cond(">=", T, ZERO))
    res = [r for r in it.run(fn, args={dnm: d, bnd: b}, state=st) if r.outcome == "return"]
    ctx.floor("R-SHAVE:shave_bound-paths", len(res), 4)
    for r in res:
        s = r.state
        is_max = s.facts.decide(cmp_cond("==", b, K(MAX)))
        if is_max is None:
            ctx.violation("R-SHAVE", fn.path, "shave_bound", "bound-untested", fn.loc(), "shave_bound does not distinguish the two bounds")
            continue
        which = "MAX" if is_max else "MIN"
        bc = calls_named(r.events, "bound_consistency_algorithm")
        bts = calls_named(r.events, "backtrack", inlined=True)
        rv = it.scalar(s, r.value)
        # (i) height balance
        top2 = it.load_at(s, len(s.heap), top, (K(0),))
        if top2 == T:
            ctx.ok("R-SHAVE", f"{which}: the stack is left at the height it was found", sample={"top_after": show_val(top2)})
        else:
            ctx.violation("R-SHAVE", fn.path, "shave_bound", "height", fn.loc(), f"shave_bound ({which}) leaves the stack pointer at {show_val(top2)} instead of T")
        if len(bc) != 1:
            ctx.violation("R-SHAVE", fn.path, "shave_bound", "one-propagation", fn.loc(), f"the probe must be propagated exactly once (found {len(bc)})")
            continue
        # (iv) probe = a single value at level T+1, announced on the row of T+1 with the bits of what moved
        pmin = it.load_at(s, bc[0].hpos, stack, (T + ONE, d, K(MIN)))
        pmax = it.load_at(s, bc[0].hpos, stack, (T + ONE, d, K(MAX)))
        want_val = hi if is_max else lo
        top_probe = it.load_at(s, bc[0].hpos, top, (K(0),))
        if pmin == want_val and pmax == want_val and top_probe == T + ONE:
            ctx.ok("R-SHAVE", f"{which}: the probe fixes the domain to its {which.lower()} bound on a temporary level T+1")
        else:
            ctx.violation("R-SHAVE", fn.path, "shave_bound", f"probe-value:{which}", fn.loc(),
                          f"probing {which}: level T+1 holds [{show_val(pmin)}, {show_val(pmax)}] (top={show_val(top_probe)}); expected the single value {show_val(want_val)}")
        adds = [e for e in calls_named(r.events, "add_propagators") if r.events.index(e) < r.events.index(bc[0])]
        need = (E_MIN if is_max else E_MAX) | E_GROUND
        oka = False
        if len(adds) == 1:
            a = adds[0].args
            row = as_view(a[1])
            m = it.value_at(s, adds[0].hpos, a[4])
            oka = (as_view(a[0]) == View(trig, ()) and isinstance(row, View) and row.root == flags and tuple(row.idx) == (T + ONE,)
                   and as_view(a[2]) == View(trgs, ()) and it.value_at(s, adds[0].hpos, a[3]) == d and m.is_const() and (m.c & need) == need)
        if oka:
            ctx.ok("R-SHAVE", f"{which}: the probe is announced (moved bound + GROUND) on the row of the temporary level", sample={"mask": m.c})
        else:
            ctx.violation("R-SHAVE", fn.path, "shave_bound", f"probe-announce:{which}", fn.loc(),
                          f"probing {which}: the moved bound and GROUND must be announced once for the probed domain against the enabled-flags row of level T+1")
        # (iii) refutation test
        ret_atom = _call_result(r.events, bc[0])
        refuted = s.facts.decide(cmp_cond("==", ret_atom, K(PI)))
        if rv == ONE and refuted is True or rv == ZERO and refuted is False:
            ctx.ok("R-SHAVE", f"{which}: 'shaved' iff the probe is refuted (PROBLEM_INCONSISTENT)", sample={"returns": show_val(rv), "refuted": refuted})
        else:
            ctx.violation("R-SHAVE", fn.path, "shave_bound", "refutation-test", fn.loc(),
                          f"shave_bound returns {show_val(rv)} on a path where 'probe refuted' is {refuted}: a bound value may only be removed when fixing "
                          "the variable to it is refuted by propagation")
            continue
        # (ii) restore arithmetic on the saved alternative (level T)
        fmin = it.load_at(s, len(s.heap), stack, (T, d, K(MIN)))
        fmax = it.load_at(s, len(s.heap), stack, (T, d, K(MAX)))
        if refuted:
            exp = (lo, hi - ONE) if is_max else (lo + ONE, hi)
            what = "the refuted value is removed (bound moved by exactly one)"
        else:
            exp = (lo, hi)
            what = "the domain is restored exactly"
        if (fmin, fmax) == exp:
            ctx.ok("R-SHAVE", f"{which}/{'refuted' if refuted else 'kept'}: {what}", sample={"domain_after": f"[{show_val(fmin)}, {show_val(fmax)}]"})
        else:
            ctx.violation("R-SHAVE", fn.path, "shave_bound", f"restore:{which}:{'refuted' if refuted else 'kept'}", fn.loc(),
                          f"probing {which}, probe {'refuted' if refuted else 'not refuted'}: the domain ends as [{show_val(fmin)}, {show_val(fmax)}]; expected "
                          f"[{show_val(exp[0])}, {show_val(exp[1])}] ({what})")
        # (v) the probe is undone: the pointer is back at T (checked above) and the events recorded for the saved alternative are
        # replayed once, after the propagation, against the enabled-flags row of the level that becomes current (T)
        upd = role_param(prog, fn, "dom_update_stack")
        replays = [e for e in calls_named(r.events, "add_propagators") if r.events.index(e) > r.events.index(bc[0])]
        okr = False
        if len(replays) == 1:
            a = replays[0].args
            row = as_view(a[1])
            okr = (as_view(a[0]) == View(trig, ()) and isinstance(row, View) and row.root == flags and tuple(row.idx) == (T,)
                   and as_view(a[2]) == View(trgs, ())
                   and it.value_at(s, replays[0].hpos, a[3]) == it.load_at(s, replays[0].hpos, upd, (T, K(prog.C("DOM_UPDATE_IDX"))))
                   and it.value_at(s, replays[0].hpos, a[4]) == it.load_at(s, replays[0].hpos, upd, (T, K(prog.C("DOM_UPDATE_EVENTS")))))
        if okr:
            ctx.ok("R-SHAVE", f"{which}: after the probe the saved alternative's events are replayed once on the row of the restored level")
        else:
            ctx.violation("R-SHAVE", fn.path, "shave_bound", "undo-replay", fn.loc(),
                          f"after the probe ({which}) the watchers of the saved alternative's recorded events must be re-queued exactly once against the "
                          f"enabled-flags row of the restored level T (found {len(replays)} wake-up call(s)"
                          + (f", row {as_view(replays[0].args[1])!r}" if replays else "") + ")")
        # other domains / lower levels untouched by shave_bound's own stores
        for e in r.events:
            if e.kind == "store" and e.root == stack and e.fn == fn.fq:
                okk = len(e.idx) == 3 and e.idx[0] == T and e.idx[1] == d
                if not okk:
                    ctx.violation("R-SHAVE", fn.path, "shave_bound", "own-store", f"{fn.path}:{e.line}", f"shave_bound stores into {View(e.root, e.idx)!r}")


def _path_line(bp, loop) -> int:
    for e in reversed(bp.events):
        if getattr(e, "line", 0):
            return e.line
    return loop.node.lineno


def rule_shaving_loop(ctx: Ctx, prog: Program) -> None:
    ctx.rule("R-SHAVE")
    fn = prog.func(f"{prog.package}.{MOD}", "shaving_consistency_algorithm")
    ctx.fn(fn.fq)
    PU = prog.C("PROBLEM_UNBOUND")
    it = Interp(prog, no_inline={"bound_consistency_algorithm": None, "shave_bound": None, "first_not_instantiated_var_heuristic": []})
    res = it.run(fn)
    loops: List[LoopSummary] = []
    for r in res:
        for l in loops_of(r.state.trace):
            if l not in loops and any(calls_named(bp.events, "shave_bound") for bp in l.paths):
                loops.append(l)
    if len(loops) != 1:
        raise AnalysisError(f"{fn.fq}: expected one probing loop, found {len(loops)}")
    loop = loops[0]
    # the 'shaved' flag: loop-carried, set from the result of shave_bound
    flag = None
    for bp in loop.paths:
        for c in calls_named(bp.events, "shave_bound"):
            for nm, v in bp.state.env.items():
                if nm in loop.assigned and as_view(v) == as_view(c.ret):
                    flag = nm
    if flag is None:
        ctx.violation("R-SHAVE", fn.path, fn.name, "shaved-flag", fn.loc(), "the result of shave_bound is not kept for the next iteration")
        return
    lvf = Aff.atom(("lv", flag, loop.loop_id))
    pre = loop.pre_env.get(flag)
    if pre is not None and it.scalar(State(), pre) == ONE:
        ctx.ok("R-SHAVE", "the first iteration propagates (flag starts true)")
    else:
        ctx.violation("R-SHAVE", fn.path, fn.name, "initial-propagation", fn.loc(), "shaving must start by a propagation pass")
    # the first iteration is always entered (at least one shared domain) and starts with a propagation pass
    fi = Interp(prog, no_inline={"bound_consistency_algorithm": None, "shave_bound": None, "first_not_instantiated_var_heuristic": []})
    st0 = State()
    st0.env = dict(loop.pre_env)
    stack = role_param(prog, fn, "shr_domains_stack")
    st0.facts.add(cmp_cond(">=", Aff.atom(("len", stack, (K(0),))), ONE))
    fi.cur_fn.append(fn)
    try:
        entered = fi.branch(loop.node.test, st0, loop.node)
        first_paths = []
        for st1, taken in entered:
            if taken:
                first_paths.extend(fi.exec_block(loop.node.body, st1))
    finally:
        fi.cur_fn.pop()
    if [t for _, t in entered] != [True]:
        ctx.violation("R-SHAVE", fn.path, fn.name, "first-pass-skippable", f"{fn.path}:{loop.node.lineno}",
                      "the probing loop (which contains the propagation pass) may not be entered at all: shaving can then return PROBLEM_UNBOUND "
                      "without having propagated, i.e. with domains that plain bound consistency would have reduced, solved or refuted")
    else:
        bad = [p_ for p_ in first_paths if not [e for e in p_.state.trace if e.kind == "call" and e.name and e.name.endswith("bound_consistency_algorithm")]]
        if bad:
            ctx.violation("R-SHAVE", fn.path, fn.name, "first-pass-missing", f"{fn.path}:{loop.node.lineno}",
                          "a path through the first iteration of the shaving loop does not run a propagation pass")
        else:
            ctx.ok("R-SHAVE", "every call propagates at least once before anything is returned", sample={"first_iteration_paths": len(first_paths)})
    n = 0
    for bp in loop.paths:
        s = bp.state
        shaved_before = s.facts.decide(("ne0", lvf))
        calls = [e for e in bp.events if e.kind == "call" and e.name and (e.name.endswith("bound_consistency_algorithm") or e.name.endswith("shave_bound")
                                                                          or e.name.endswith("first_not_instantiated_var_heuristic"))]
        first = calls[0].name.split(":")[-1] if calls else None
        if shaved_before is True:
            n += 1
            if first == "bound_consistency_algorithm":
                ctx.ok("R-SHAVE", "after a successful shave the next iteration re-propagates before anything else")
                bc = calls[0]
                st_atom = _call_result(bp.events, bc)
                unb = s.facts.decide(cmp_cond("==", st_atom, K(PU)))
                if bp.outcome == "return":
                    rv_ = it.scalar(s, bp.value)
                    # returned as is: the status itself, or a constant the path facts know to be equal to it (e.g. `return PROBLEM_UNBOUND` after the
                    # test `status != PROBLEM_UNBOUND` was not taken: leaving early because no probe is possible)
                    okk = (unb is False and rv_ == st_atom) or (isinstance(rv_, Aff) and s.facts.decide(cmp_cond("==", rv_, st_atom)) is True)
                    if okk:
                        ctx.ok("R-SHAVE", "a solved / failed state found by the re-propagation is returned as is")
                    else:
                        ctx.violation("R-SHAVE", fn.path, fn.name, "status-forwarding", fn.loc(), "the status of the re-propagation is not returned unchanged")
                elif unb is not True:
                    ctx.violation("R-SHAVE", fn.path, fn.name, "status-ignored", fn.loc(), "shaving goes on although the re-propagation did not answer PROBLEM_UNBOUND")
            else:
                ctx.violation("R-SHAVE", fn.path, fn.name, "re-propagation", fn.loc(),
                              "after a successful shave the next iteration does not start with a propagation pass: the domains handed back are not "
                              "a fixpoint of the constraints")
        elif shaved_before is None:
            ctx.violation("R-SHAVE", fn.path, fn.name, "flag-untested", fn.loc(), "an iteration does not test whether the previous probe shaved")
        # the probed domain is a non-instantiated decision domain
        for c in calls_named(bp.events, "shave_bound"):
            dom = it.value_at(s, c.hpos, c.args[1])
            vh = calls_named(bp.events, "first_not_instantiated_var_heuristic")
            okk = bool(vh) and dom == _call_result(bp.events, vh[-1]) and s.facts.decide(cmp_cond("!=", dom, K(-1))) is True
            if okk:
                ctx.ok("R-SHAVE", "the probed domain is the answer of the variable heuristic, tested against 'nothing left'")
            else:
                ctx.violation("R-SHAVE", fn.path, fn.name, "probed-domain", f"{fn.path}:{c.line}",
                              "shave_bound must be given a non-instantiated decision domain (the variable heuristic's answer, tested against -1)")
            # roles of the 17 shared arguments
            exp = list(fn.params)
            got = [as_view(x) for x in c.args[2:]]
            if [repr(x) for x in got] == exp:
                ctx.ok("R-SHAVE", "shave_bound receives the algorithm's own arrays in order", nontrivial=False)
            else:
                ctx.violation("R-SHAVE", fn.path, fn.name, "probe-args", f"{fn.path}:{c.line}", f"shave_bound called with {[repr(x) for x in got]}")
    ctx.floor("R-SHAVE:iterations-after-shave", n, 1)
    # ---- the bound selector handed to shave_bound is MIN or MAX in every iteration: it indexes the last axis (extent 2) of the domain
    # stack in compiled code, where an index of 2 is the MIN cell of the NEXT shared domain.  Inductive argument over the loop-carried local:
    # it is MIN / MAX before the loop, and every path that goes round again leaves it in [MIN, MAX] if it found it there.
    MINc, MAXc = prog.C("MIN"), prog.C("MAX")
    lo_k, hi_k = K(min(MINc, MAXc)), K(max(MINc, MAXc))
    sel_names = set()
    for bp in loop.paths:
        for c in calls_named(bp.events, "shave_bound"):
            v = it.value_at(bp.state, c.hpos, c.args[0]) if c.args else None
            if isinstance(v, Aff):
                for nm in loop.assigned:
                    if Aff.atom(("lv", nm, loop.loop_id)) == v:
                        sel_names.add(nm)
                if v.is_const():
                    if not (lo_k.c <= v.c <= hi_k.c):
                        ctx.violation("R-SHAVE", fn.path, fn.name, "bound-argument-range", f"{fn.path}:{c.line}", f"shave_bound is asked to probe bound {v.c}: not MIN / MAX")
                    else:
                        ctx.ok("R-SHAVE", "the probed bound is a constant MIN / MAX", nontrivial=False)
    for nm in sorted(sel_names):
        pre = loop.pre_env.get(nm)
        pre_v = it.scalar(State(), pre) if pre is not None else None
        if not (isinstance(pre_v, Aff) and pre_v.is_const() and lo_k.c <= pre_v.c <= hi_k.c):
            ctx.violation("R-SHAVE", fn.path, fn.name, "bound-argument-range", f"{fn.path}:{loop.node.lineno}", f"the bound selector `{nm}` does not start as MIN or MAX")
            continue
        head = Aff.atom(("lv", nm, loop.loop_id))
        bad = None
        for bp in loop.paths:
            if bp.outcome not in ("fall", "continue"):
                continue
            end = it.scalar(bp.state, bp.state.env.get(nm))
            if not isinstance(end, Aff):
                bad = (bp, "not an integer the analysis follows")
                break
            f2 = bp.state.facts.copy()
            f2.add(cmp_cond(">=", head, lo_k))
            f2.add(cmp_cond("<=", head, hi_k))
            if not (f2.entails(cmp_cond(">=", end, lo_k)) and f2.entails(cmp_cond("<=", end, hi_k))):
                bad = (bp, f"ends the iteration as {show_val(end)}")
                break
        if bad is None:
            ctx.ok("R-SHAVE", f"the bound selector `{nm}` stays in [MIN, MAX] around the probing loop (inductive)")
        else:
            ctx.violation("R-SHAVE", fn.path, fn.name, "bound-argument-range", f"{fn.path}:{_path_line(bad[0], loop)}",
                          f"the bound selector `{nm}` handed to shave_bound is not kept in [MIN, MAX] by an iteration that goes round again ({bad[1]}, "
                          "with the selector in [MIN, MAX] at its start): the next probe indexes the bound axis of the domain stack with 2, which in compiled "
                          "code is the minimum of the NEXT shared domain - that domain is silently modified")
    # ---- progress of the probing loop (its variant): an iteration that goes round again must have probed a bound.
    # A probe either removes a value (finitely often) or, when it removes nothing, advances (domain cursor, bound) lexicographically.
    n_round = 0
    guard_names = [nm for nm in loop.assigned if isinstance(loop.pre_env.get(nm), (Aff, Dual))]
    for bp in loop.paths:
        if bp.outcome not in ("fall", "continue"):
            continue
        n_round += 1
        s = bp.state
        probes = calls_named(bp.events, "shave_bound")
        if not probes:
            ctx.violation("R-SHAVE", fn.path, fn.name, "round-without-probe", f"{fn.path}:{loop.node.lineno}",
                          "the probing loop can go round again without having probed a bound: nothing has changed, so the same iteration "
                          "repeats forever (an iteration must probe, return or leave the loop)")
            continue
        # the cursor of the scan never moves backwards: when it is set from the variable heuristic's answer, the heuristic was given the
        # decision domains *whose value is at least the cursor* (a value filter `dd[dd >= cursor]`), so the answer is >= the cursor; a
        # positional slice `dd[cursor:]` only coincides with it when the decision domains are sorted and contiguous
        vhs = calls_named(bp.events, "first_not_instantiated_var_heuristic")
        for vh_ in vhs:
            ans = _call_result(bp.events, vh_)
            set_from_answer = [nm for nm in guard_names if nm != flag and ans is not None and ans.single_atom() is not None
                               and ans.single_atom() in atoms_in(it.scalar(s, s.env.get(nm)))]
            if not set_from_answer or len(vh_.args) < 2:
                continue
            arg = as_view(vh_.args[1])
            okf = False
            if isinstance(arg, View) and len(arg.idx) == 1 and isinstance(arg.idx[0], Aff) and arg.idx[0].single_atom() is not None \
                    and arg.idx[0].single_atom()[0] == "ge0":
                X = arg.idx[0].single_atom()[1]
                whole = Aff.atom(("init", arg.root, ()))
                for nm in set_from_answer:
                    cur = Aff.atom(("lv", nm, loop.loop_id))
                    if isinstance(X, Aff) and (X - whole + cur).is_const() and (X - whole + cur).c >= 0:
                        okf = True
            if okf:
                ctx.ok("R-SHAVE", "the scan cursor is set from an answer chosen among the decision domains whose value is >= the cursor")
            else:
                ctx.violation("R-SHAVE", fn.path, fn.name, "cursor-may-move-back", f"{fn.path}:{vh_.line}",
                              f"the scan cursor ({', '.join(set_from_answer)}) is set from the variable heuristic's answer, but the heuristic is not given the "
                              f"decision domains whose *value* is at least the cursor (got {arg!r}): with decision domains that are not sorted the answer "
                              "can be smaller than the cursor, the scan goes backwards and the probing loop never ends")
        shaved_now = s.facts.decide(("ne0", _call_result(bp.events, probes[-1]))) if _call_result(bp.events, probes[-1]) is not None else None
        if shaved_now is False:
            moved = []
            for nm in guard_names:
                if nm == flag:
                    continue
                endv = it.scalar(s, s.env.get(nm))
                lvn = Aff.atom(("lv", nm, loop.loop_id))
                if not (endv == lvn):
                    moved.append(nm)
            if moved:
                ctx.ok("R-SHAVE", "an unsuccessful probe advances the (domain cursor, bound) pair", sample={"moved": moved})
            else:
                ctx.violation("R-SHAVE", fn.path, fn.name, "no-advance-after-failed-probe", f"{fn.path}:{loop.node.lineno}",
                              "after a probe that removed nothing neither the probed bound nor the domain cursor moves: the same probe repeats forever")
        else:
            ctx.ok("R-SHAVE", "a successful probe removed a value (finite domains bound the number of such iterations)", nontrivial=False)
            # a successful shave must be followed by a propagation pass, and that pass is the first thing the NEXT iteration does: the loop
            # must therefore go round again -- its test must hold in the state the shaving iteration ends in.  (Contract: the probed domain,
            # an element of decision_domains, is a valid shared-domain index, i.e. smaller than the number of shared domains.)
            fi2 = Interp(prog, no_inline={"bound_consistency_algorithm": None, "shave_bound": None, "first_not_instantiated_var_heuristic": []})
            st_end = s.fork()
            vh = calls_named(bp.events, "first_not_instantiated_var_heuristic")
            if vh:
                d_atom = _call_result(bp.events, vh[-1])
                if d_atom is not None:
                    stack = role_param(prog, fn, "shr_domains_stack")
                    st_end.facts.add(cmp_cond("<", d_atom, Aff.atom(("len", stack, (K(0),)))))
                    st_end.facts.add(cmp_cond(">=", d_atom, ZERO))
            fi2.cur_fn.append(fn)
            try:
                outs = fi2.branch(loop.node.test, st_end, loop.node)
            finally:
                fi2.cur_fn.pop()
            if [t for _, t in outs] == [True]:
                ctx.ok("R-SHAVE", "after a successful shave the loop goes round again (so the closing propagation pass is run)")
            else:
                ctx.violation("R-SHAVE", fn.path, fn.name, "shave-then-exit", f"{fn.path}:{loop.node.lineno}",
                              "the iteration in which a bound was shaved can be the last one (the loop test may fail right after it): the algorithm then "
                              "returns PROBLEM_UNBOUND without the propagation pass that must follow a shave -- watchers of the shaved bound stay queued and "
                              "the domains handed back are not bound consistent")
    ctx.floor("R-SHAVE:iterations-going-round", n_round, 2)
    for r in res:
        if r.outcome == "return":
            v = it.scalar(r.state, r.value)
            if v.is_const() and v.c != PU:
                ctx.violation("R-SHAVE", fn.path, fn.name, "final-status", fn.loc(), f"shaving returns the constant {v.c} after its loop")
    ctx.assume("bound_consistency_algorithm stores only at the level current at its entry (established on its own body by R-WRITEBACK-MONO / R-FLAGS-WRITERS)")
