"""Process rules of the multiprocessing solver: R-MARKER, R-KEEPBEST, R-LIVENESS, R-STATS-SLOT."""
from __future__ import annotations

import ast
from typing import Any, Dict, List, Optional, Set, Tuple

from ..core import Ctx
from ..interp import ALL, AttrVal, Dual, EnumVal, Event, FuncVal, Interp, LoopSummary, ModVal, PathResult, State, Tup, View, as_view, NONE
from ..program import AnalysisError, FuncInfo, Program
from ..terms import Aff, K, ONE, S, ZERO, atoms_in, cmp_cond, negate, show_cond, show_val
from .engine import calls_named, loops_of, init, _call_result
from .model import _all_loops

MP_MOD = "solvers.multiprocessing_solver"
BT_MOD = "solvers.backtrack_solver"


def _puts(events: List[Event]) -> List[Event]:
    return [e for e in events if e.kind == "mcall" and e.name in ("put", "put_nowait") and e.args and isinstance(e.args[0], Tup) and len(e.args[0].items) == 3]


def _is_none(v: Any) -> bool:
    return isinstance(v, Aff) and v == NONE


def rule_marker_worker(ctx: Ctx, prog: Program) -> None:
    ctx.rule("R-MARKER")
    mod = f"{prog.package}.{BT_MOD}"
    for name in ("BacktrackSolver.solve_and_queue", "BacktrackSolver.optimize_and_queue"):
        fn = prog.func(mod, name)
        ctx.fn(fn.fq)
        pid = "processor_idx" if "processor_idx" in fn.params else None
        if pid is None:
            raise AnalysisError(f"{fn.fq}: no processor index parameter")
        it = Interp(prog, no_inline={"solve_one": None, "backtrack": None, "get_function_addresses": [], "reset": None})
        all_res = it.run(fn)
        res = [r for r in all_res if r.outcome == "return"]
        ctx.floor(f"R-MARKER:{name}:exit-paths", len(res), 1)
        # a worker that ends with an exception (e.g. its choice-point stack is full) must NOT announce completion: the parent would count it
        # as finished and return without its solutions instead of reporting the failure
        # (the search itself is summarised as an opaque call, so its exceptions are not abstract paths: the clause is also checked on the shape)
        for tnode in ast.walk(fn.node):
            if not isinstance(tnode, ast.Try):
                continue
            for blk in [tnode.finalbody] + [h.body for h in tnode.handlers]:
                for sub in blk:
                    for cnode in ast.walk(sub):
                        if isinstance(cnode, ast.Call) and isinstance(cnode.func, ast.Attribute) and cnode.func.attr in ("put", "put_nowait") and cnode.args \
                                and isinstance(cnode.args[0], ast.Tuple) and len(cnode.args[0].elts) >= 2 and isinstance(cnode.args[0].elts[1], ast.Constant) \
                                and cnode.args[0].elts[1].value is None:
                            ctx.violation("R-MARKER", fn.path, name, "marker-on-error-path", f"{fn.path}:{cnode.lineno}",
                                          f"{name} sends its completion marker from a finally / except clause: a worker whose search ended with an exception "
                                          "(choice-point stack full, ...) is counted as finished and the caller returns partial results without any error")
        for r in all_res:
            if r.outcome != "raise":
                continue
            for e in _puts(r.state.trace):
                if _is_none(e.args[0].items[1]):
                    ctx.violation("R-MARKER", fn.path, name, "marker-on-error-path", f"{fn.path}:{e.line}",
                                  f"{name} sends its completion marker on a path that ends with an exception (a finally / except clause): a worker whose "
                                  "search failed (stack full, ...) is counted as finished and the caller returns partial results without any error")
        for r in res:
            puts = _puts(r.events)
            markers = [e for e in puts if _is_none(e.args[0].items[1])]
            okk = len(markers) == 1 and puts and puts[-1] is markers[0]
            if okk:
                m = markers[0].args[0].items
                okk = as_view(m[0]) == View(pid, ()) and as_view(m[2]) == View("self.statistics", ())
            if okk:
                ctx.ok("R-MARKER", f"{name}: exactly one completion marker (worker id, None, statistics), last message of the exit path")
            else:
                ctx.violation("R-MARKER", fn.path, name, "one-marker-last", fn.loc(),
                              f"{name}: every normal exit must send exactly one completion marker (processor_idx, None, self.statistics) as its last message "
                              f"(found {len(markers)} marker(s) among {len(puts)} message(s) on an exit path)")
            for e in puts:
                if e in markers:
                    continue
                m = e.args[0].items
                if not (as_view(m[0]) == View(pid, ()) and as_view(m[2]) == View("self.statistics", ())):
                    ctx.violation("R-MARKER", fn.path, name, "message-shape", f"{fn.path}:{e.line}",
                                  f"{name}: a solution message must be (processor_idx, solution, self.statistics); got {[repr(x) for x in m]}")
        # no marker inside an iteration that goes on
        for l in _all_loops([e for r in res for e in r.state.trace]):
            for bp in l.paths:
                if bp.outcome in ("fall", "continue"):
                    for e in _puts(bp.events):
                        if _is_none(e.args[0].items[1]):
                            ctx.violation("R-MARKER", fn.path, name, "marker-in-loop", f"{fn.path}:{e.line}",
                                          f"{name}: a completion marker is sent from an iteration after which the worker keeps searching")


class Parent:
    def __init__(self, prog: Program, name: str):
        self.fn = prog.func(f"{prog.package}.{MP_MOD}", name)
        self.it = Interp(prog)
        self.res = self.it.run(self.fn)
        self.loops = _all_loops([e for r in self.res for e in r.state.trace])
        self.recv: Optional[LoopSummary] = None
        for l in self.loops:
            if l.kind == "while" and any(e.kind == "mcall" and e.name in ("get", "get_nowait") for bp in l.paths for e in bp.events):
                # outermost such loop
                if self.recv is None:
                    self.recv = l
        if self.recv is None:
            raise AnalysisError(f"{self.fn.fq}: no receive loop (a while loop reading the result queue)")
        self.spawn: Optional[LoopSummary] = None
        for l in self.loops:
            if any(e.kind == "call" and e.name and e.name.endswith("Process") for bp in l.paths for e in bp.events):
                self.spawn = l


def _message_parts(it: Interp, bp: PathResult) -> Optional[Tuple[Event, Aff, Aff, Aff]]:
    gets = [e for e in bp.events if (e.kind == "mcall" and e.name in ("get", "get_nowait")) or (e.kind == "call" and e.name and e.name.endswith("get_message"))]
    if not gets:
        return None
    g = gets[-1]
    root = as_view(g.ret).root if g.ret is not None else None
    if root is None:
        return None
    part = lambda k: Aff.atom(("init", root, (K(k),)))
    return g, part(0), part(1), part(2)


def rule_marker_parent(ctx: Ctx, prog: Program) -> None:
    ctx.rule("R-MARKER")
    ctx.rule("R-STATS-SLOT")
    for name in ("MultiprocessingSolver.solve", "MultiprocessingSolver.optimize"):
        p = Parent(prog, name)
        fn, it, loop = p.fn, p.it, p.recv
        ctx.fn(fn.fq)
        # the counter: a loop-carried variable whose pre-loop value is len(self.solvers) and which guards the loop
        counters = [nm for nm, v in loop.pre_env.items() if nm in loop.assigned and isinstance(v, (Aff, Dual)) and
                    it.scalar(State(), v) == Aff.atom(("len", "self.solvers", ()))]
        if len(counters) != 1:
            ctx.violation("R-MARKER", fn.path, name, "counter-init", fn.loc(),
                          f"{name}: the number of awaited completion markers must start at len(self.solvers) (found {len(counters)} such counter)")
            continue
        nb = counters[0]
        lv = Aff.atom(("lv", nb, loop.loop_id))
        ctx.ok("R-MARKER", f"{name}: awaited markers start at len(self.solvers)")
        # every way through the call distributes the work and collects the answers: a path that returns / ends without going through
        # the receive loop (e.g. a 'single solver' shortcut run in the calling process) has none of the properties established here
        for r in p.res:
            if r.outcome not in ("return",):
                continue
            went = any(e.kind in ("loop", "iter") and e.loop is loop for e in r.state.trace)
            if not went:
                ctx.violation("R-MARKER", fn.path, name, "bypasses-receive-loop", f"{fn.path}:{_last_line(r)}",
                              f"{name} has a path that ends without spawning the workers and collecting their messages (a shortcut run in the calling "
                              "process): the sub-solver is then run in place, keeps its state from one call to the next and is not reset")
            else:
                ctx.ok("R-MARKER", f"{name}: the path goes through the receive loop", nontrivial=False)
        done_lists = _completion_lists(prog, fn, loop)
        # the flags that excuse finished workers must belong to THIS call: created (all false) before the receive loop of the same call.
        # Flags kept on the object survive from one call to the next: after one complete call every worker is 'finished' for ever and a
        # death during a later call is never noticed.
        import ast as _ast
        for dl in done_lists:
            fresh = False
            for st_ in _ast.walk(fn.node):
                if isinstance(st_, _ast.Assign) and any(_ast.unparse(t) == dl for t in st_.targets) and st_.lineno < loop.node.lineno:
                    v = st_.value
                    if isinstance(v, _ast.ListComp) and isinstance(v.elt, _ast.Constant) and v.elt.value is False:
                        fresh = True
                    if isinstance(v, _ast.BinOp) and isinstance(v.left, _ast.List) and all(isinstance(x, _ast.Constant) and x.value is False for x in v.left.elts):
                        fresh = True
            _mv(ctx, fn, name, fresh, f"the completion flags '{dl}' are created all-false by this call, before its receive loop", f"completion-flags-fresh:{dl}",
                f"{name}: the completion flags '{dl}' consulted by the liveness test are not (re)created all-false inside this call before the receive loop: "
                "flags left over from an earlier call excuse every worker, so a worker dying during this call is never noticed")
        n_paths = 0
        for bp in loop.paths:
            mp = _message_parts(it, bp)
            s = bp.state
            if mp is None:
                # an iteration without a message (time-out path): must not count, deliver or slot anything
                end = it.scalar(s, s.env.get(nb))
                if not (end == lv) and bp.outcome in ("fall", "continue"):
                    ctx.violation("R-MARKER", fn.path, name, "count-without-message", fn.loc(), f"{name}: the marker counter changes on an iteration that received no message")
                continue
            n_paths += 1
            g, pid, sol, stats = mp
            isn = s.facts.decide(("is", sol, NONE))
            end = it.scalar(s, s.env.get(nb))
            if bp.outcome in ("raise",):
                continue
            if isn is True:
                okk = end == lv - ONE and not [e for e in bp.events if e.kind == "yield"]
                _mv(ctx, fn, name, okk, "marker: counter decremented by exactly one, nothing delivered", "marker-counted-once",
                    f"{name}: a completion marker must decrement the counter by exactly 1 (counter after: {show_val(end)})")
                # the liveness test excuses workers recorded as finished: the marker path must record it, or a worker that
                # completed normally is later reported as dead
                for dl in done_lists:
                    dv = as_view(s.env.get(dl))
                    droot = dv.root if isinstance(dv, View) else dl
                    rec = [e for e in bp.events if e.kind == "store" and e.root == droot and len(e.idx) == 1 and e.idx[0] == pid
                           and isinstance(e.value, Aff) and e.value == ONE]
                    _mv(ctx, fn, name, bool(rec), f"marker: the worker is recorded as finished in '{dl}' (consulted by the liveness test)", f"marker-recorded:{dl}",
                        f"{name}: the liveness test skips workers flagged in '{dl}', but a completion marker does not set {dl}[worker id] = True: "
                        "a worker that finished normally is reported as having died once the others stay silent for a while")
            elif isn is False:
                okk = end == lv
                _mv(ctx, fn, name, okk, "solution: counter unchanged", "solution-not-counted",
                    f"{name}: a solution message must not change the marker counter (counter after: {show_val(end)})")
                if name.endswith(".solve"):
                    ys = [e for e in bp.events if e.kind == "yield"]
                    okk = len(ys) == 1 and it.value_at(s, ys[0].hpos, ys[0].value) == sol
                    _mv(ctx, fn, name, okk, "solution: yielded exactly once, unmodified", "solution-forwarded",
                        f"{name}: every solution received must be yielded exactly once, as received")
            else:
                _mv(ctx, fn, name, False, "", "message-kind-untested", f"{name}: the message is not tested for being a completion marker")
            # statistics slot
            slots = [e for e in bp.events if e.kind == "store" and e.root == "self.statistics"]
            okk = len(slots) == 1 and len(slots[0].idx) == 1 and slots[0].idx[0] == pid and it.value_at(s, slots[0].hpos, slots[0].value) == stats
            if okk:
                ctx.ok("R-STATS-SLOT", f"{name}: self.statistics[worker id of the message] = statistics of the message, on every message")
            else:
                ctx.violation("R-STATS-SLOT", fn.path, name, "slot", f"{fn.path}:{g.line}",
                              f"{name}: every message must overwrite exactly the slot of its own worker with its own statistics "
                              f"(found {[(repr(View(e.root, e.idx)), repr(e.value)) for e in slots]})")
            # exit edges other than the counter test
            if bp.outcome in ("break", "return"):
                _mv(ctx, fn, name, False, "", "early-exit", f"{name}: the receive loop is left before all completion markers were received")
        ctx.floor(f"R-MARKER:{name}:message-paths", n_paths, 2)
        # the loop test
        tests = [e for bp in loop.paths for e in bp.events if e.kind == "branch" and e.node is loop.node]
        okt = bool(tests) and all(e.cond == ("ge0", lv - ONE) for e in tests)
        _mv(ctx, fn, name, okt, "the loop runs while the counter is positive", "loop-test", f"{name}: the receive loop must run exactly while awaited markers > 0")
        # the worker entry point and its arguments
        if p.spawn is None:
            ctx.violation("R-MARKER", fn.path, name, "spawn", fn.loc(), f"{name}: no loop starting one process per solver")
            continue
        for bp in p.spawn.paths:
            for e in bp.events:
                if e.kind == "call" and e.name and e.name.endswith("Process"):
                    kw = dict(e.kwargs)
                    tgt, args = kw.get("target"), kw.get("args")
                    idx = p.spawn.index
                    solver_elem = View("self.solvers", (idx,))
                    # a wrapper  def w(a, f, *rest): ... f(*rest) ...  handed to Process runs f(rest): judge what it forwards
                    fwd = _unwrap_forwarder(tgt, args)
                    if fwd == "opaque":
                        raise AnalysisError(f"R-MARKER: {name}: the worker target {tgt!r} is a wrapper function whose forwarding of the entry point and its arguments is not read")
                    if fwd is not None:
                        tgt, args = fwd
                    okk = False
                    why = ""
                    q_ok = lambda v: isinstance(as_view(v), View) and it.allocs.get(as_view(v).root, ("",))[0] == "call" and str(it.allocs[as_view(v).root][1]).endswith("Queue")
                    if name.endswith(".solve"):
                        okk = (as_view(tgt) == View("self.solvers", (idx,)) or isinstance(tgt, AttrVal)) and isinstance(tgt, AttrVal) and tgt.attr == "solve_and_queue" \
                            and as_view(tgt.base) == solver_elem and isinstance(args, Tup) and len(args.items) == 2 and it.scalar(bp.state, args.items[0]) == idx and q_ok(args.items[1])
                    else:
                        okk = isinstance(tgt, AttrVal) and as_view(tgt.base) == solver_elem and isinstance(args, Tup) and len(args.items) == 3 \
                            and as_view(args.items[0]) == View("variable_idx", ()) and it.scalar(bp.state, args.items[1]) == idx and q_ok(args.items[2])
                    _mv(ctx, fn, name, okk, "one process per solver: target = that solver's queueing entry point, args = (.., its index, the result queue)", "spawn-args",
                        f"{name}: Process(target={tgt!r}, args={args!r}) does not start solver i with its own index i and the shared result queue")


def _unwrap_forwarder(tgt: Any, args: Any) -> Any:
    """Process(target=w, args=(..)) where w is a plain function of the package that calls one of its parameters with the remaining ones:
    the (callee, arguments) it runs; None when the target is not a plain function; "opaque" when it is one that this does not read."""
    if not isinstance(tgt, FuncVal) or not isinstance(args, Tup):
        return None
    node = tgt.fn.node
    params = [a.arg for a in node.args.posonlyargs + node.args.args]
    var = node.args.vararg.arg if node.args.vararg else None
    calls = [c for c in ast.walk(node) if isinstance(c, ast.Call) and isinstance(c.func, ast.Name) and c.func.id in params]
    if len(calls) != 1:
        return "opaque"
    c = calls[0]
    j = params.index(c.func.id)
    items = list(args.items)
    if j >= len(items) or c.keywords:
        return "opaque"
    fwd: List[Any] = []
    for a in c.args:
        if isinstance(a, ast.Starred) and isinstance(a.value, ast.Name) and a.value.id == var:
            fwd.extend(items[len(params):])
        elif isinstance(a, ast.Name) and a.id in params and params.index(a.id) < len(items):
            fwd.append(items[params.index(a.id)])
        else:
            return "opaque"
    return items[j], Tup(tuple(fwd))


def _last_line(r: PathResult) -> int:
    for e in reversed(r.state.trace):
        if getattr(e, "line", 0):
            return e.line
    return 0


LIVE_ATTRS = ("is_alive", "exitcode", "sentinel")


def _completion_lists(prog: Program, fn: FuncInfo, loop: LoopSummary) -> List[str]:
    """Names (in the parent) of per-worker lists that the liveness test reads to excuse finished workers:
    a parameter of the message-getting helper (or a local of the parent) subscripted in a test that also queries liveness."""
    import ast as _ast

    def excusing_names(tree: _ast.AST, candidates: set) -> List[str]:
        out: List[str] = []
        tests: List[_ast.AST] = []
        for n in _ast.walk(tree):
            if isinstance(n, (_ast.If, _ast.While, _ast.IfExp)):
                tests.append(n.test)
            if isinstance(n, _ast.comprehension):
                tests.extend(n.ifs)
        for t in tests:
            if not any(isinstance(x, _ast.Attribute) and x.attr in LIVE_ATTRS for x in _ast.walk(t)):
                continue
            # subscripts that are themselves queried for liveness (processes[i].is_alive()) are the handles, not the flags
            handles = {id(x.value) for x in _ast.walk(t) if isinstance(x, _ast.Attribute) and isinstance(x.value, _ast.Subscript)}
            for x in _ast.walk(t):
                if isinstance(x, _ast.Subscript) and id(x) not in handles and isinstance(x.value, _ast.Name) and x.value.id in candidates and x.value.id not in out:
                    out.append(x.value.id)
        # the same filter hoisted out of the waiting loop: `pending = [i for i, f in enumerate(flags) if not f]`, then the liveness test
        # ranges over `pending`
        bound = {}
        for n in _ast.walk(tree):
            if isinstance(n, _ast.Assign) and len(n.targets) == 1 and isinstance(n.targets[0], _ast.Name) and isinstance(n.value, (_ast.ListComp, _ast.GeneratorExp, _ast.SetComp)):
                bound[n.targets[0].id] = n.value
        for n in _ast.walk(tree):
            if isinstance(n, _ast.comprehension) and any(isinstance(x, _ast.Attribute) and x.attr in LIVE_ATTRS for i_ in n.ifs for x in _ast.walk(i_)) \
                    and isinstance(n.iter, _ast.Name) and n.iter.id in bound:
                for g_ in bound[n.iter.id].generators:
                    if g_.ifs:
                        for x in _ast.walk(g_.iter):
                            if isinstance(x, _ast.Name) and x.id in candidates and x.id not in out:
                                out.append(x.id)
        return out

    names: List[str] = []
    for n in _ast.walk(loop.node):
        if isinstance(n, _ast.Call) and isinstance(n.func, _ast.Name):
            r = prog.resolve(fn.module, n.func.id)
            if r and r[0] == "func":
                g: FuncInfo = r[1]
                for pn in excusing_names(g.node, set(g.params)):
                    i = g.params.index(pn)
                    if i < len(n.args) and isinstance(n.args[i], (_ast.Name, _ast.Attribute)) and _ast.unparse(n.args[i]) not in names:
                        names.append(_ast.unparse(n.args[i]))
    local_lists = {t.id for s in _ast.walk(fn.node) if isinstance(s, _ast.Assign) for t in s.targets if isinstance(t, _ast.Name)}
    for nm in excusing_names(loop.node, local_lists):
        if nm not in names:
            names.append(nm)
    return names


def _mv(ctx: Ctx, fn: FuncInfo, name: str, okk: bool, inst: str, key: str, msg: str, rule: str = "R-MARKER") -> None:
    if okk:
        ctx.ok(rule, f"{name}: {inst}")
    else:
        ctx.violation(rule, fn.path, name, key, fn.loc(), msg)


def rule_keepbest(ctx: Ctx, prog: Program) -> None:
    ctx.rule("R-KEEPBEST")
    mod = f"{prog.package}.{MP_MOD}"
    # entry points
    for entry, worker, op in (("minimize", "minimize_and_queue", "lt"), ("maximize", "maximize_and_queue", "gt")):
        fn = prog.func(mod, f"MultiprocessingSolver.{entry}")
        ctx.fn(fn.fq)
        it = Interp(prog, no_inline={"optimize": []})
        rets = [r for r in it.run(fn) if r.outcome == "return"]
        okk = bool(rets)
        for r in rets:
            path_ok = False
            for e in calls_named(r.events, "optimize"):
                a = list(e.args)[1:]
                if len(a) == 3 and as_view(a[0]) == View("variable_idx", ()) and it.scalar(r.state, a[1]) == Aff.atom(("str", worker)) \
                        and isinstance(a[2], ModVal) and a[2].name in (f"operator.{op}", f"_operator.{op}") and as_view(r.value) == as_view(e.ret):
                    path_ok = True
            okk = okk and path_ok  # every return path, not just one of them
        _mv(ctx, fn, f"MultiprocessingSolver.{entry}", okk, f"optimize(variable_idx, '{worker}', operator.{op})", "pairing",
            f"{entry} must distribute '{worker}' and keep the best with operator.{op}", rule="R-KEEPBEST")
        # the worker method exists and delegates with the matching tightening (checked by R-TIGHTEN)
        prog.func(f"{prog.package}.{BT_MOD}", f"BacktrackSolver.{worker}")
    p = Parent(prog, "MultiprocessingSolver.optimize")
    fn, it, loop = p.fn, p.it, p.recv
    name = "MultiprocessingSolver.optimize"
    cmp_param = fn.params[3] if len(fn.params) > 3 else None
    n = 0
    bests = set()
    for bp in loop.paths:
        mp = _message_parts(it, bp)
        if mp is None:
            continue
        g, pid, sol, stats = mp
        s = bp.state
        if s.facts.decide(("is", sol, NONE)) is not False:
            continue
        n += 1
        ic = [e for e in bp.events if e.kind == "icall" and cmp_param and as_view(e.recv) == View(cmp_param, ())]
        # the incumbent variable: the loop-carried variable that may receive the message's solution
        cands = [nm for nm in loop.assigned if nm in loop.pre_env and it.scalar(State(), loop.pre_env[nm]) == NONE]
        if len(cands) != 1:
            ctx.violation("R-KEEPBEST", fn.path, name, "incumbent-init", fn.loc(), f"{name}: the incumbent must start as None (candidates: {cands})")
            continue
        best = cands[0]
        bests.add(best)
        lvb = Aff.atom(("lv", best, loop.loop_id))
        end = it.scalar(s, s.env.get(best))
        if len(ic) != 1 or len(ic[0].args) != 2:
            ctx.violation("R-KEEPBEST", fn.path, name, "comparison-call", fn.loc(), f"{name}: a solution message must be compared once with the incumbent using the comparison function")
            continue
        a0, a1 = as_view(ic[0].args[0]), as_view(ic[0].args[1])
        vi = Aff.atom(("init", "variable_idx", ()))
        root_sol = sol.single_atom()[1]
        ok_args = isinstance(a0, View) and a0.root == root_sol and tuple(a0.idx) == (K(1), vi) and isinstance(a1, View) and tuple(a1.idx) == (vi,) \
            and it.allocs.get(a1.root, ("",))[0] == "subscript" and it.allocs[a1.root][1] == lvb
        if not ok_args:
            ctx.violation("R-KEEPBEST", fn.path, name, "comparison-args", f"{fn.path}:{ic[0].line}",
                          f"{name}: the comparison must be cmp(new[variable_idx], incumbent[variable_idx]); got ({a0!r}, {a1!r})")
            continue
        r = _call_result(bp.events, ic[0])
        better = ("or", ("is", lvb, NONE), ("ne0", r))
        d = s.facts.decide(better)
        if d is True:
            okk = end == sol
            _mv(ctx, fn, name, okk, "incumbent := new when there is none or cmp(new, incumbent)", "update-when-better",
                f"{name}: when there is no incumbent or the new solution compares better, it must become the incumbent", rule="R-KEEPBEST")
        elif d is False:
            okk = end == lvb
            _mv(ctx, fn, name, okk, "incumbent kept otherwise", "keep-otherwise", f"{name}: the incumbent must be kept when the new solution is not better", rule="R-KEEPBEST")
        else:
            _mv(ctx, fn, name, False, "", "update-condition", f"{name}: the update of the incumbent is not decided by 'incumbent is None or cmp(new, incumbent)'", rule="R-KEEPBEST")
    ctx.floor("R-KEEPBEST:solution-paths", n, 2)
    for r in p.res:
        if r.outcome == "return":
            v = it.scalar(r.state, r.value).single_atom()
            okk = v is not None and v[0] == "lv" and v[1] in bests
            _mv(ctx, fn, name, okk, "returns the incumbent", "returns-incumbent", f"{name}: must return the incumbent", rule="R-KEEPBEST")


def _liveness_environment(ctx: Ctx, prog: Program) -> None:
    """Two things outside the receive loop decide whether the liveness test can work at all.  (a) Process.is_alive() learns that a child
    died by reaping it (waitpid); with SIGCHLD set to SIG_IGN the kernel reaps children itself, waitpid fails with ECHILD and is_alive()
    answers True for ever.  (b) The error raised by the liveness test must leave solve() / optimize(): a handler around the receive call
    that goes on with the loop turns 'a worker died' back into waiting."""
    import ast

    mod = f"{prog.package}.solvers.multiprocessing_solver"
    n_sig = 0
    for f in prog.all_functions():
        if ".examples." in f.module:
            continue
        for n in ast.walk(f.node):
            if isinstance(n, ast.Call) and ast.unparse(n.func) in ("signal.signal", "signal") and len(n.args) == 2 and "SIGCHLD" in ast.unparse(n.args[0]):
                n_sig += 1
                ctx.violation("R-LIVENESS", f.path, f.qualname, "sigchld-handler", f"{f.path}:{n.lineno}",
                              f"{f.qualname} installs `{ast.unparse(n)[:60]}`: with SIGCHLD ignored (or handled elsewhere) the children are reaped behind "
                              "multiprocessing's back, Process.is_alive() keeps answering True for a dead worker and the liveness test of the receive "
                              "loop never fires -- a killed worker makes the call wait for ever")
    if not n_sig:
        ctx.ok("R-LIVENESS", "no SIGCHLD disposition is installed anywhere in the package", nontrivial=False)
    # (c) a generator is consumed by its first traversal: bound before the waiting loop and traversed inside it, the second liveness check
    # of one wait ranges over nothing
    m_ = prog.modules.get(mod)
    n_gen = 0
    for f in (list(m_.functions.values()) + [x for c in m_.classes.values() for x in c.values()]) if m_ else []:
        loops_ = [n for n in ast.walk(f.node) if isinstance(n, (ast.While, ast.For))]
        in_loop = {id(x) for l_ in loops_ for b_ in l_.body for x in ast.walk(b_)}
        for n in ast.walk(f.node):
            if isinstance(n, ast.Assign) and id(n) not in in_loop and len(n.targets) == 1 and isinstance(n.targets[0], ast.Name) and (
                    isinstance(n.value, ast.GeneratorExp) or (isinstance(n.value, ast.Call) and isinstance(n.value.func, ast.Name)
                                                              and n.value.func.id in ("map", "filter", "zip", "iter", "enumerate", "reversed"))):
                nm = n.targets[0].id
                uses = [x for x in ast.walk(f.node) if isinstance(x, ast.Name) and x.id == nm and isinstance(x.ctx, ast.Load) and id(x) in in_loop]
                if uses:
                    n_gen += 1
                    ctx.violation("R-LIVENESS", f.path, f.qualname, f"one-shot-iterator:{nm}", f"{f.path}:{uses[0].lineno}",
                                  f"{f.qualname} binds `{nm}` to a one-shot iterator (`{ast.unparse(n.value)[:50]}`) before a loop and traverses it inside the loop: "
                                  "the first traversal exhausts it, every later iteration sees nothing -- after the first time-out the liveness test has no "
                                  "candidates left and a worker that dies later is never noticed")
    if not n_gen:
        ctx.ok("R-LIVENESS", "no one-shot iterator is bound outside a loop and traversed inside it", nontrivial=False)
    for name in ("MultiprocessingSolver.solve", "MultiprocessingSolver.optimize"):
        fn = prog.func(mod, name)
        swallowed = None
        for n in ast.walk(fn.node):
            if not isinstance(n, ast.Try):
                continue
            receives = any(isinstance(x, ast.Call) and ast.unparse(x.func).split(".")[-1] in ("get_message", "get") for b in n.body for x in ast.walk(b))
            if not receives:
                continue
            for h in n.handlers:
                catches = h.type is None or any(t in ast.unparse(h.type) for t in ("RuntimeError", "Exception", "BaseException"))
                leaves = any(isinstance(x, (ast.Raise, ast.Return)) for b in h.body for x in ast.walk(b))
                if catches and not leaves:
                    swallowed = h
        if swallowed is None:
            ctx.ok("R-LIVENESS", f"{name}: the error raised by the liveness test leaves the call")
        else:
            ctx.violation("R-LIVENESS", fn.path, name, "liveness-error-swallowed", f"{fn.path}:{swallowed.lineno}",
                          f"{name} catches the error raised when a worker died (`except {ast.unparse(swallowed.type) if swallowed.type else ''}`) and goes on "
                          "with the receive loop: unless the bookkeeping of that handler is exact for every combination of dead workers, the loop waits "
                          "for markers that will never come (e.g. two workers dying within one polling period)")


def rule_liveness(ctx: Ctx, prog: Program) -> None:
    ctx.rule("R-LIVENESS")
    _liveness_environment(ctx, prog)
    LIVE = ("is_alive", "join", "exitcode", "sentinel")
    for name in ("MultiprocessingSolver.solve", "MultiprocessingSolver.optimize"):
        p = Parent(prog, name)
        fn, it = p.fn, p.it
        ctx.fn(fn.fq)
        all_events = [e for r in p.res for e in r.state.trace]
        for l in p.loops:
            for bp in l.paths:
                all_events.extend(bp.events)
        # (i) every Process created is retained
        procs = [e for e in all_events if e.kind == "call" and e.name and e.name.endswith("Process")]
        seen = set()
        retained_roots: List[str] = []
        for e in procs:
            if id(e.node) in seen:
                continue
            seen.add(id(e.node))
            root = as_view(e.ret).root if e.ret is not None else None
            kept = False
            for x in all_events:
                if x.kind == "mcall" and x.name in ("append", "add", "extend", "insert") and any(as_view(a) == View(root, ()) for a in x.args if isinstance(as_view(a), View)):
                    kept = True
                    rv = as_view(x.recv)
                    if isinstance(rv, View):
                        retained_roots.append(rv.root)
                if x.kind == "store" and isinstance(as_view(x.value), View) and as_view(x.value) == View(root, ()):
                    kept = True
                    retained_roots.append(x.root or "")
            if kept:
                ctx.ok("R-LIVENESS", f"{name}: process handles are retained")
            else:
                ctx.violation("R-LIVENESS", fn.path, name, "handles-dropped", f"{fn.path}:{e.line}",
                              f"{name}: Process(...) is started and dropped: the parent keeps no handle with which it could notice that a worker died")
        if not procs:
            ctx.violation("R-LIVENESS", fn.path, name, "no-process", fn.loc(), f"{name}: no worker process is created")
        # (ii) every blocking read of the result queue has a timeout
        gets = []
        for e in all_events:
            if e.kind == "mcall" and e.name in ("get",) and id(e.node) not in {id(g.node) for g in gets}:
                rv = as_view(e.recv)
                if isinstance(rv, View) and str(it.allocs.get(rv.root, ("", ""))[1]).endswith("Queue") or (isinstance(rv, View) and "queue" in rv.root.lower()) or (isinstance(rv, View) and rv.root in ("solutions",)):
                    gets.append(e)
        for e in gets:
            kw = dict(e.kwargs)
            tmo = kw.get("timeout", e.args[1] if len(e.args) >= 2 else None)
            tmo_none = tmo is not None and _is_none(tmo if not isinstance(tmo, (View, Dual)) else it.scalar(State(), tmo))
            bounded = (tmo is not None and not tmo_none) or (("block" in kw) and it.scalar(State(), kw["block"]) == ZERO) or (len(e.args) == 1 and it.scalar(State(), e.args[0]) == ZERO)
            if bounded:
                ctx.ok("R-LIVENESS", f"{name}: the queue read is bounded in time", sample={"kwargs": [k for k in kw]})
            else:
                ctx.violation("R-LIVENESS", fn.path, name, "blocking-get", f"{fn.path}:{e.line}",
                              f"{name}: solutions.get() blocks without a timeout{' (timeout=None reaches it from this entry point)' if tmo_none else ''}: "
                              "once the remaining workers are dead the call never returns")
        if not gets:
            ctx.violation("R-LIVENESS", fn.path, name, "no-get", fn.loc(), f"{name}: no read of the result queue found")
        # (ii-b) no unbounded wait on a synchronisation object that is handed to the workers (only a living worker releases it)
        shared_roots = set()
        for e in procs:
            kw = dict(e.kwargs)
            a_ = kw.get("args")
            for v in (list(a_.items) if isinstance(a_, Tup) else []) + [kw.get("kwargs")]:
                av = as_view(v) if v is not None else None
                if isinstance(av, View):
                    shared_roots.add(av.root)
        seen_w = set()
        for e in all_events:
            if e.kind == "mcall" and e.name in ("acquire", "wait") and id(e.node) not in seen_w:
                seen_w.add(id(e.node))
                rv = as_view(e.recv)
                if not (isinstance(rv, View) and rv.root in shared_roots):
                    continue
                kw = dict(e.kwargs)
                tmo = kw.get("timeout", e.args[1] if (e.name == "acquire" and len(e.args) >= 2) else (e.args[0] if (e.name == "wait" and e.args) else None))
                tmo_none = tmo is not None and _is_none(tmo if not isinstance(tmo, (View, Dual)) else it.scalar(State(), tmo))
                nonblock = (("block" in kw) and it.scalar(State(), kw["block"]) == ZERO) or (("blocking" in kw) and it.scalar(State(), kw["blocking"]) == ZERO) \
                    or (e.name == "acquire" and len(e.args) >= 1 and it.scalar(State(), e.args[0]) == ZERO)
                if (tmo is not None and not tmo_none) or nonblock:
                    ctx.ok("R-LIVENESS", f"{name}: the wait on a synchronisation object shared with the workers is bounded in time")
                else:
                    ctx.violation("R-LIVENESS", fn.path, name, f"blocking-{e.name}", f"{fn.path}:{e.line}",
                                  f"{name}: {e.name}() on an object that is handed to the worker processes blocks without a timeout: only a living worker "
                                  "releases it, so once the workers that hold it are dead the call never returns (and never reaches the liveness test)")
        # (v) the answer of the liveness query is not tested by truthiness when it can be the index 0
        helper_fns = [fn]
        for node in ast.walk(fn.node):
            if isinstance(node, ast.Call) and isinstance(node.func, ast.Name):
                rs = prog.resolve(fn.module, node.func.id)
                if rs and rs[0] == "func" and rs[1] not in helper_fns:
                    helper_fns.append(rs[1])
        for hf in helper_fns:
            idx_names = set()
            for node in ast.walk(hf.node):
                if isinstance(node, ast.Assign) and len(node.targets) == 1 and isinstance(node.targets[0], ast.Name) and isinstance(node.value, ast.Call) \
                        and isinstance(node.value.func, ast.Name) and node.value.func.id == "next" and len(node.value.args) == 2 \
                        and isinstance(node.value.args[1], ast.Constant) and node.value.args[1].value is None:
                    idx_names.add(node.targets[0].id)
            for node in ast.walk(hf.node):
                t = None
                if isinstance(node, (ast.If, ast.While, ast.IfExp)):
                    t = node.test
                    if isinstance(t, ast.UnaryOp) and isinstance(t.op, ast.Not):
                        t = t.operand
                if isinstance(node, ast.BoolOp):
                    t = node.values[0]
                if isinstance(t, ast.Name) and t.id in idx_names:
                    ctx.violation("R-LIVENESS", hf.path, name, f"index-truthiness:{t.id}", f"{hf.path}:{node.lineno}",
                                  f"{hf.qualname}: '{t.id}' is the index of a dead worker or None (next(..., None)) and is tested by truthiness: "
                                  "worker 0 is falsy, so its death is never noticed and the call waits for ever")
        # (iv) no unbounded wait on a worker handle: join() without a timeout blocks for as long as that worker lives -- on the error path
        # (a sibling died, nobody reads the queue any more) a survivor blocked on a full pipe never exits
        joins = []
        for e in all_events:
            if e.kind == "mcall" and e.name == "join" and id(e.node) not in {id(j.node) for j in joins}:
                joins.append(e)
        raise_nodes = {id(e.node) for r in p.res if r.outcome == "raise" for e in r.state.trace if e.kind == "mcall" and e.name == "join"}
        raise_nodes |= {id(e.node) for r in p.res if r.outcome == "raise" for l in _all_loops(r.state.trace) for bp in l.paths for e in bp.events
                        if e.kind == "mcall" and e.name == "join"}
        for e in joins:
            kw = dict(e.kwargs)
            if "timeout" in kw or len(e.args) >= 1:
                ctx.ok("R-LIVENESS", f"{name}: join is bounded in time")
            elif id(e.node) not in raise_nodes:
                # only reached after every completion marker was received: the workers are about to exit, joining them is ordinary tidying up
                ctx.ok("R-LIVENESS", f"{name}: join without timeout only on the normal exit (all markers received)", nontrivial=False)
            else:
                ctx.violation("R-LIVENESS", fn.path, name, "unbounded-join", f"{fn.path}:{e.line}",
                              f"{name}: a worker is joined without a timeout: if it is still running (and possibly blocked writing to a queue nobody reads "
                              "any more) the call never returns, also when it is about to report a dead worker")
        # (iii) an exit edge that depends on a liveness query
        live_exit = False
        for l in p.loops:
            for bp in l.paths:
                if bp.outcome not in ("raise", "return", "break"):
                    continue
                q = [i for i, e in enumerate(bp.events) if (e.kind == "mcall" and e.name in LIVE) or (e.kind == "branch" and e.cond is not None and any(
                    isinstance(a, tuple) and any(k in repr(a) for k in ("exitcode", "is_alive", "sentinel")) for a in atoms_in(e.cond)))]
                if not q:
                    continue
                # a return/break that follows a successful queue read made after the liveness query is an ordinary delivery,
                # not an exit that depends on the workers being dead
                later_read = any(e.kind == "mcall" and e.name == "get" for e in bp.events[q[0] + 1:])
                if bp.outcome == "raise" or not later_read:
                    live_exit = True
        for r in p.res:
            if r.outcome == "raise" and any((e.kind == "mcall" and e.name in LIVE) for e in r.events):
                live_exit = True
        if live_exit:
            ctx.ok("R-LIVENESS", f"{name}: the wait can end on a liveness test of the workers")
        else:
            ctx.violation("R-LIVENESS", fn.path, name, "no-liveness-exit", fn.loc(),
                          f"{name}: the only way out of the receive loop is the count of completion markers; no exit depends on whether the workers are still alive")


# ------------------------------------------------------------------------------------------ worker-side and consumer-side lints
DEDUP_CALLS = ("np.unique", "numpy.unique", "set", "frozenset", "dict.fromkeys")
SOLUTION_SOURCES = ("solve", "find_all", "solve_one", "get_message", "solve_all")


def rule_worker_threads(ctx: Ctx, prog: Program) -> None:
    """The parent learns that a worker died from `is_alive()`.  A worker process stays alive as long as any non-daemon thread of it runs:
    a helper thread started in the worker (periodic logging, a watchdog) that is stopped only on the normal path keeps a worker whose
    search raised alive for ever, and the parent waits for ever.  Rule: every thread created in the solvers package is a daemon
    (`daemon=True` at creation, or `.daemon = True` on the name it is bound to before `.start()`)."""
    ctx.rule("R-LIVENESS")
    n = 0
    for f in prog.all_functions():
        if not f.module.startswith(f"{prog.package}.solvers"):
            continue
        for x in ast.walk(f.node):
            if isinstance(x, ast.Call) and ast.unparse(x.func) in ("threading.Thread", "Thread", "threading.Timer", "Timer"):
                n += 1
                daemon = any(k.arg == "daemon" and isinstance(k.value, ast.Constant) and k.value.value is True for k in x.keywords)
                if not daemon:
                    # bound to a name whose .daemon is set to True in the same function?
                    for y in ast.walk(f.node):
                        if isinstance(y, ast.Assign) and len(y.targets) == 1 and isinstance(y.targets[0], ast.Attribute) and y.targets[0].attr == "daemon" \
                                and isinstance(y.value, ast.Constant) and y.value.value is True:
                            daemon = True
                if daemon:
                    ctx.ok("R-LIVENESS", f"{f.qualname}: helper thread is a daemon (cannot keep a failed worker alive)")
                else:
                    ctx.violation("R-LIVENESS", f.path, f.qualname, "non-daemon-thread", f"{f.path}:{x.lineno}",
                                  f"{f.qualname} starts a non-daemon thread: a process lives as long as its non-daemon threads, so a worker whose search raises "
                                  "before the thread is told to stop never exits, `is_alive()` stays true and the parent's liveness test can never fire -- "
                                  "the call hangs on a crashed worker")
    ctx.ok("R-LIVENESS", f"threads created in the solvers package: {n}, all daemons" if n else "no thread is created in the solvers package", nontrivial=False)


def rule_queue_lossless(ctx: Ctx, prog: Program) -> None:
    """Solutions travel from the workers to the parent through a queue.  An unbounded queue never refuses a `put`; a bounded one makes the
    producer wait -- unless the put gives up (`timeout=`, `block=False`, `put_nowait`): then a consumer that pauses makes the workers raise
    `queue.Full` and die with solutions undelivered.  Each half is harmless alone; the rule reports the combination: a bounded queue created
    in the solvers package together with a put that can give up."""
    ctx.rule("R-MARKER")
    bounded: List[Tuple[FuncInfo, ast.Call]] = []
    timed: List[Tuple[FuncInfo, ast.Call]] = []
    n = 0
    for f in prog.all_functions():
        if not f.module.startswith(f"{prog.package}.solvers"):
            continue
        for x in ast.walk(f.node):
            if not isinstance(x, ast.Call):
                continue
            fs = ast.unparse(x.func)
            if fs.split(".")[-1] in ("Queue", "JoinableQueue") and (x.args or any(k.arg == "maxsize" for k in x.keywords)):
                a0 = x.args[0] if x.args else [k.value for k in x.keywords if k.arg == "maxsize"][0]
                if not (isinstance(a0, ast.Constant) and a0.value in (0, None)):
                    bounded.append((f, x))
            if isinstance(x.func, ast.Attribute) and x.func.attr in ("put", "put_nowait"):
                n += 1
                if x.func.attr == "put_nowait" or len(x.args) >= 2 or any(k.arg in ("timeout", "block") for k in x.keywords):
                    timed.append((f, x))
    if bounded and timed:
        f, x = timed[0]
        ctx.violation("R-MARKER", f.path, f.qualname, "solution-forwarded:lossy-put", f"{f.path}:{x.lineno}",
                      f"{f.qualname} puts on the queue with `{ast.unparse(x)[:60]}` (gives up when the queue stays full) and {bounded[0][0].qualname} creates a "
                      f"bounded queue (`{ast.unparse(bounded[0][1])[:40]}`): when the consumer pauses the put raises queue.Full, the worker dies and the "
                      "solutions it had not delivered are lost (the union of the parts no longer reaches the caller)")
    else:
        ctx.ok("R-MARKER", "no put that can give up on a bounded queue: a slow consumer delays the workers, it does not lose their solutions",
               sample={"bounded_queues": len(bounded), "puts_that_can_give_up": len(timed), "puts": n})
    ctx.floor("R-MARKER:queue-puts", n, 3)


def rule_no_dedup(ctx: Ctx, prog: Program) -> None:
    """The answer of an enumeration is a multiset: two solutions that agree on every variable (they differ on a shared domain no variable
    shows) are two solutions for the sequential solver and for the counter SOLVER_SOLUTION_NB.  A solver method that passes what it
    collected through a set-like operation (np.unique, set, dict.fromkeys) returns fewer.  Rule: in the solvers package no value that
    comes from solve / find_all / solve_one / the message queue reaches such an operation."""
    ctx.rule("R-MARKER")
    n = 0
    for f in prog.all_functions():
        if not f.module.startswith(f"{prog.package}.solvers") or f.njit:
            continue
        tainted: Set[str] = set()
        for _ in range(3):
            for x in ast.walk(f.node):
                tg: List[ast.expr] = []
                val: Optional[ast.expr] = None
                if isinstance(x, ast.Assign):
                    tg, val = list(x.targets), x.value
                elif isinstance(x, (ast.For, ast.comprehension)):
                    tg, val = [x.target], x.iter
                elif isinstance(x, ast.NamedExpr):
                    tg, val = [x.target], x.value
                if val is None:
                    continue
                src = any(isinstance(y, ast.Call) and ((isinstance(y.func, ast.Attribute) and y.func.attr in SOLUTION_SOURCES) or (isinstance(y.func, ast.Name) and y.func.id in SOLUTION_SOURCES))
                          for y in ast.walk(val)) or any(isinstance(y, ast.Name) and y.id in tainted for y in ast.walk(val))
                if src:
                    for t in tg:
                        for y in ast.walk(t):
                            if isinstance(y, ast.Name):
                                tainted.add(y.id)
        for x in ast.walk(f.node):
            if isinstance(x, ast.Call) and ast.unparse(x.func) in DEDUP_CALLS:
                n += 1
                hit = any((isinstance(y, ast.Name) and y.id in tainted) or (isinstance(y, ast.Call) and isinstance(y.func, ast.Attribute) and y.func.attr in SOLUTION_SOURCES)
                          for a in list(x.args) for y in ast.walk(a))
                if hit:
                    ctx.violation("R-MARKER", f.path, f.qualname, "solution-forwarded:deduplicated", f"{f.path}:{x.lineno}",
                                  f"{f.qualname} passes the solutions it collected through `{ast.unparse(x.func)}`: equal rows are merged, so two solutions that agree on "
                                  "every variable (they differ on a shared domain no variable shows) come back as one -- fewer than the sequential solver "
                                  "yields and than SOLVER_SOLUTION_NB counts")
    ctx.ok("R-MARKER", "no solver method passes collected solutions through a set-like operation", sample={"set_like_calls_seen": n}, nontrivial=False)
