from .cli import main

if __name__ == "__main__":
    raise SystemExit(main())
