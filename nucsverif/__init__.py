"""nucsverif -- static analysis of yangeorget/nucs (pure standard library, `ast` based).

Nothing under /repo is imported or executed by this package: every fact is derived
from the parsed source of the current working tree.
"""

REPO_DEFAULT = "/repo"
