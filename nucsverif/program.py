"""Program model: modules, imports, folded constants, functions, registries.

Everything here is computed from `ast` trees of the files under <repo>/nucs.
"""
from __future__ import annotations

import ast
import os
from dataclasses import dataclass, field
from typing import Any, Dict, List, Optional, Tuple


from .canon import canonicalise
from .inline import inline_new_helpers

class AnalysisError(Exception):
    """The analyser (not the analysed code) needs attention: exit code 2."""


@dataclass
class FuncInfo:
    module: str
    name: str  # bare name
    qualname: str  # "Class.method" or bare name
    node: ast.FunctionDef
    cls: Optional[str] = None
    njit: bool = False
    njit_cache: Optional[bool] = None

    @property
    def fq(self) -> str:
        return f"{self.module}:{self.qualname}"

    @property
    def params(self) -> List[str]:
        a = self.node.args
        return [x.arg for x in a.posonlyargs + a.args]

    @property
    def path(self) -> str:
        return self.module.replace(".", "/") + ".py"

    def loc(self, node: Optional[ast.AST] = None) -> str:
        n = node if node is not None else self.node
        return f"{self.path}:{getattr(n, 'lineno', 0)}"


@dataclass
class ModuleInfo:
    name: str
    path: str
    relpath: str
    source: str
    tree: ast.Module
    imports: Dict[str, Tuple[str, Optional[str]]] = field(default_factory=dict)
    functions: Dict[str, FuncInfo] = field(default_factory=dict)
    classes: Dict[str, Dict[str, FuncInfo]] = field(default_factory=dict)
    class_bases: Dict[str, List[str]] = field(default_factory=dict)
    consts: Dict[str, Any] = field(default_factory=dict)
    globals_assigned: Dict[str, List[ast.stmt]] = field(default_factory=dict)


@dataclass
class Registry:
    module: str
    list_name: str
    entries: List[Any] = field(default_factory=list)  # FuncInfo or ("unresolved", src)
    register_fn: Optional[str] = None
    sites: List[Tuple[str, int]] = field(default_factory=list)  # (module, lineno)
    extra: List[Any] = field(default_factory=list)  # registered at run time from other modules (examples, tests)


_NO = object()


def _decorator_info(fn: ast.FunctionDef) -> Tuple[bool, Optional[bool]]:
    for d in fn.decorator_list:
        target = d.func if isinstance(d, ast.Call) else d
        nm = target.id if isinstance(target, ast.Name) else getattr(target, "attr", None)
        if nm in ("njit", "jit"):
            cache = None
            if isinstance(d, ast.Call):
                for kw in d.keywords:
                    if kw.arg == "cache" and isinstance(kw.value, ast.Constant):
                        cache = bool(kw.value.value)
            return True, cache
    return False, None


class Program:
    def __init__(self, repo: str, package: str = "nucs", extra_dirs: Tuple[str, ...] = ()):
        self.repo = repo
        self.package = package
        self.modules: Dict[str, ModuleInfo] = {}
        self.registries: Dict[Tuple[str, str], Registry] = {}
        self.register_fns: Dict[Tuple[str, str], List[str]] = {}  # (module, fn) -> list names appended, in order
        self.anomalies: List[str] = []
        self._load(os.path.join(repo, package), package)
        for d in extra_dirs:
            p = os.path.join(repo, d)
            if os.path.isdir(p):
                self._load(p, d)
        self.inlined_helpers: List[str] = inline_new_helpers({k: v.tree for k, v in self.modules.items()})
        for m in self.modules.values():
            self._collect(m)
        self._fold_all_consts()
        self._build_registries()

    # ------------------------------------------------------------------ load
    def _load(self, root: str, pkg: str) -> None:
        if not os.path.isdir(root):
            raise AnalysisError(f"package directory missing: {root}")
        for dirpath, dirnames, filenames in os.walk(root):
            dirnames[:] = sorted(d for d in dirnames if d != "__pycache__")
            for fn in sorted(filenames):
                if not fn.endswith(".py"):
                    continue
                path = os.path.join(dirpath, fn)
                rel = os.path.relpath(path, self.repo)
                mod = rel[:-3].replace(os.sep, ".")
                if mod.endswith(".__init__"):
                    mod = mod[: -len(".__init__")]
                with open(path, "r", encoding="utf-8") as f:
                    src = f.read()
                try:
                    tree = ast.parse(src, filename=path)
                except SyntaxError as e:  # the tree does not even compile
                    raise AnalysisError(f"cannot parse {rel}: {e}")
                tree = canonicalise(tree)
                self.modules[mod] = ModuleInfo(mod, path, rel, src, tree)

    def _collect(self, m: ModuleInfo) -> None:
        for st in m.tree.body:
            if isinstance(st, ast.ImportFrom) and st.module and st.level == 0:
                for al in st.names:
                    m.imports[al.asname or al.name] = (st.module, al.name)
            elif isinstance(st, ast.Import):
                for al in st.names:
                    m.imports[al.asname or al.name.split(".")[0]] = (al.name, None)
            elif isinstance(st, ast.FunctionDef):
                nj, cache = _decorator_info(st)
                m.functions[st.name] = FuncInfo(m.name, st.name, st.name, st, None, nj, cache)
            elif isinstance(st, ast.ClassDef):
                meths: Dict[str, FuncInfo] = {}
                for b in st.body:
                    if isinstance(b, ast.FunctionDef):
                        nj, cache = _decorator_info(b)
                        meths[b.name] = FuncInfo(m.name, b.name, f"{st.name}.{b.name}", b, st.name, nj, cache)
                m.classes[st.name] = meths
                m.class_bases[st.name] = [ast.unparse(b) for b in st.bases]
            elif isinstance(st, (ast.Assign, ast.AnnAssign, ast.AugAssign)):
                targets = st.targets if isinstance(st, ast.Assign) else [st.target]
                for t in targets:
                    for n in ast.walk(t):
                        if isinstance(n, ast.Name):
                            m.globals_assigned.setdefault(n.id, []).append(st)

    # --------------------------------------------------------------- consts
    def _fold_all_consts(self) -> None:
        # iterate to a fixpoint so that cross-module imports of constants resolve
        for _ in range(4):
            changed = False
            for m in self.modules.values():
                for st in m.tree.body:
                    if isinstance(st, ast.Assign):
                        if len(st.targets) == 1 and isinstance(st.targets[0], ast.Name):
                            nm = st.targets[0].id
                            if len(m.globals_assigned.get(nm, [])) != 1:
                                continue
                            v = self.fold(m.name, st.value)
                            if v is not _NO and m.consts.get(nm, _NO) != v:
                                m.consts[nm] = v
                                changed = True
                        elif len(st.targets) == 1 and isinstance(st.targets[0], ast.Tuple):
                            v = self.fold(m.name, st.value)
                            names = st.targets[0].elts
                            if isinstance(v, tuple) and len(v) == len(names) and all(isinstance(n, ast.Name) for n in names):
                                for n, x in zip(names, v):
                                    if len(m.globals_assigned.get(n.id, [])) == 1 and m.consts.get(n.id, _NO) != x:
                                        m.consts[n.id] = x
                                        changed = True
                        else:
                            # a = b = const
                            if all(isinstance(t, ast.Name) for t in st.targets):
                                v = self.fold(m.name, st.value)
                                if v is not _NO:
                                    for t in st.targets:
                                        if len(m.globals_assigned.get(t.id, [])) == 1 and m.consts.get(t.id, _NO) != v:
                                            m.consts[t.id] = v
                                            changed = True
            if not changed:
                break

    def fold(self, modname: str, e: ast.AST) -> Any:
        """Whitelisted constant folder; returns _NO when not a constant."""
        if isinstance(e, ast.Constant):
            if isinstance(e.value, (int, str, bool, float)) or e.value is None:
                return e.value
            return _NO
        if isinstance(e, ast.Name):
            return self.const_value(modname, e.id)
        if isinstance(e, ast.UnaryOp) and isinstance(e.op, ast.USub):
            v = self.fold(modname, e.operand)
            return -v if isinstance(v, (int, float)) and not isinstance(v, bool) else _NO
        if isinstance(e, ast.BinOp):
            a, b = self.fold(modname, e.left), self.fold(modname, e.right)
            if isinstance(a, int) and isinstance(b, int):
                try:
                    if isinstance(e.op, ast.BitOr):
                        return a | b
                    if isinstance(e.op, ast.BitAnd):
                        return a & b
                    if isinstance(e.op, ast.LShift):
                        return a << b
                    if isinstance(e.op, ast.Add):
                        return a + b
                    if isinstance(e.op, ast.Sub):
                        return a - b
                    if isinstance(e.op, ast.Mult):
                        return a * b
                    if isinstance(e.op, ast.FloorDiv) and b != 0:
                        return a // b
                except Exception:
                    return _NO
            return _NO
        if isinstance(e, ast.Tuple):
            vs = tuple(self.fold(modname, x) for x in e.elts)
            return _NO if any(v is _NO for v in vs) else vs
        if isinstance(e, ast.Call) and isinstance(e.func, ast.Name) and e.func.id == "tuple" and len(e.args) == 1:
            inner = e.args[0]
            if isinstance(inner, ast.Call) and isinstance(inner.func, ast.Name) and inner.func.id == "range":
                args = [self.fold(modname, a) for a in inner.args]
                if all(isinstance(a, int) for a in args) and 1 <= len(args) <= 3:
                    return tuple(range(*args))
        return _NO

    def const_value(self, modname: str, name: str, _depth: int = 0) -> Any:
        m = self.modules.get(modname)
        if m is None or _depth > 6:
            return _NO
        if name in m.consts:
            return m.consts[name]
        if name in m.imports:
            src, nm = m.imports[name]
            if nm is not None and src in self.modules:
                return self.const_value(src, nm, _depth + 1)
        return _NO

    def has_const(self, modname: str, name: str) -> bool:
        return self.const_value(modname, name) is not _NO

    def C(self, name: str) -> Any:
        """Constant from nucs.constants (anchor: must exist)."""
        v = self.const_value(f"{self.package}.constants", name)
        if v is _NO:
            raise AnalysisError(f"anchor constant vanished: {self.package}.constants.{name}")
        return v

    # ----------------------------------------------------------- resolution
    def resolve(self, modname: str, name: str, _depth: int = 0):
        """Resolve a bare name used in module `modname` to its definition.

        Returns ("func", FuncInfo) | ("class", module, name) | ("const", value) |
        ("global", module, name) | ("external", module, name) | None."""
        m = self.modules.get(modname)
        if m is None or _depth > 8:
            return None
        if name in m.functions:
            return ("func", m.functions[name])
        if name in m.classes:
            return ("class", modname, name)
        if name in m.consts:
            return ("const", m.consts[name])
        if name in m.globals_assigned:
            return ("global", modname, name)
        if name in m.imports:
            src, nm = m.imports[name]
            if src in self.modules and nm is not None:
                return self.resolve(src, nm, _depth + 1)
            if nm is None and src in self.modules:
                return ("module", src)
            return ("external", src, nm)
        return None

    def func(self, modname: str, name: str) -> FuncInfo:
        """Anchor lookup: a function (or Class.method) that must exist."""
        m = self.modules.get(modname)
        if m is None:
            raise AnalysisError(f"anchor module vanished: {modname}")
        if "." in name:
            c, meth = name.split(".", 1)
            f = m.classes.get(c, {}).get(meth)
        else:
            f = m.functions.get(name)
            if f is None:
                r = self.resolve(modname, name)
                if r and r[0] == "func":
                    f = r[1]
        if f is None:
            raise AnalysisError(f"anchor function vanished: {modname}:{name}")
        return f

    def find_func(self, name: str) -> Optional[FuncInfo]:
        """Find a top-level function by bare name anywhere in the package (unique)."""
        hits = [m.functions[name] for m in self.modules.values() if name in m.functions]
        return hits[0] if len(hits) == 1 else None

    def all_functions(self) -> List[FuncInfo]:
        out: List[FuncInfo] = []
        for m in self.modules.values():
            out.extend(m.functions.values())
            for c in m.classes.values():
                out.extend(c.values())
        return out

    # ------------------------------------------------------------ registries
    def _build_registries(self) -> None:
        # 1. registry lists: module-level `NAME = []`
        for m in self.modules.values():
            for st in m.tree.body:
                if (
                    isinstance(st, ast.Assign)
                    and len(st.targets) == 1
                    and isinstance(st.targets[0], ast.Name)
                    and isinstance(st.value, ast.List)
                    and not st.value.elts
                ):
                    self.registries[(m.name, st.targets[0].id)] = Registry(m.name, st.targets[0].id)
        # 2. register functions: body = appends to registry lists + `return len(L) - 1`
        for m in self.modules.values():
            for f in m.functions.values():
                appended: List[Tuple[str, str]] = []  # (list, param)
                ok = True
                ret_ok = False
                idx_locals: Dict[str, str] = {}
                body = [s for s in f.node.body if not (isinstance(s, ast.Expr) and isinstance(s.value, ast.Constant))]
                for s in body:
                    if (
                        isinstance(s, ast.Expr)
                        and isinstance(s.value, ast.Call)
                        and isinstance(s.value.func, ast.Attribute)
                        and s.value.func.attr == "append"
                        and isinstance(s.value.func.value, ast.Name)
                        and (m.name, s.value.func.value.id) in self.registries
                        and len(s.value.args) == 1
                        and isinstance(s.value.args[0], ast.Name)
                        and s.value.args[0].id in f.params
                    ):
                        appended.append((s.value.func.value.id, s.value.args[0].id))
                    elif isinstance(s, ast.Return) and appended:
                        src = ast.unparse(s.value) if s.value is not None else ""
                        ret_ok = src in {f"len({l}) - 1" for l, _ in appended} or (src in idx_locals and idx_locals[src] == "after")
                    elif isinstance(s, ast.Return) and not appended:
                        ok = False
                    elif isinstance(s, ast.Assign) and len(s.targets) == 1 and isinstance(s.targets[0], ast.Name) and (
                            (appended and ast.unparse(s.value) in {f"len({l}) - 1" for l, _ in appended})):
                        idx_locals[s.targets[0].id] = "after"  # idx = len(L) - 1 taken after the append
                    else:
                        ok = False
                if appended:
                    if not (ok and ret_ok):
                        self.anomalies.append(
                            f"{f.fq}: registers into {sorted({l for l, _ in appended})} but is not of the shape "
                            f"'append each parameter; return len(list) - 1'"
                        )
                    self.register_fns[(m.name, f.name)] = [f"{l}<-{p}" for l, p in appended]
                    f._reg_appends = appended  # type: ignore[attr-defined]
                    for l, _ in appended:
                        self.registries[(m.name, l)].register_fn = f.name
        # 3. registration call sites at module level, in import-independent (source) order per module
        for m in self.modules.values():
            for st in m.tree.body:
                call = None
                target = None
                if isinstance(st, ast.Assign) and isinstance(st.value, ast.Call):
                    call = st.value
                    if len(st.targets) == 1 and isinstance(st.targets[0], ast.Name):
                        target = st.targets[0].id
                elif isinstance(st, ast.Expr) and isinstance(st.value, ast.Call):
                    call = st.value
                if call is None or not isinstance(call.func, ast.Name):
                    continue
                r = self.resolve(m.name, call.func.id)
                if not r or r[0] != "func" or (r[1].module, r[1].name) not in self.register_fns:
                    continue
                regf: FuncInfo = r[1]
                idx_val = None
                for lst, param in regf._reg_appends:  # type: ignore[attr-defined]
                    pos = regf.params.index(param)
                    arg = call.args[pos] if pos < len(call.args) else None
                    if arg is None:
                        for kw in call.keywords:
                            if kw.arg == param:
                                arg = kw.value
                    ent: Any = ("unresolved", ast.unparse(arg) if arg is not None else "?")
                    if isinstance(arg, ast.Name):
                        rr = self.resolve(m.name, arg.id)
                        if rr and rr[0] == "func":
                            ent = rr[1]
                    reg = self.registries[(regf.module, lst)]
                    # registrations performed in the defining module come first (import order);
                    # registrations from other modules (examples) are recorded separately.
                    if m.name == regf.module:
                        reg.entries.append(ent)
                        reg.sites.append((m.name, st.lineno))
                        idx_val = len(reg.entries) - 1
                    else:
                        reg.sites.append((m.name, st.lineno))
                        reg.extra.append(ent)
                if target is not None and idx_val is not None and m.name == regf.module:
                    # value of e.g. ALG_AND; a name assigned twice keeps its last value
                    m.consts[target] = idx_val

        # 4. registrations performed anywhere else (inside `if __name__ == ...`, functions, tests)
        top_level_calls = set()
        for m in self.modules.values():
            for st in m.tree.body:
                if isinstance(st, (ast.Assign, ast.Expr)) and isinstance(getattr(st, "value", None), ast.Call):
                    top_level_calls.add(id(st.value))
        for m in self.modules.values():
            for n in ast.walk(m.tree):
                if not (isinstance(n, ast.Call) and isinstance(n.func, ast.Name)) or id(n) in top_level_calls:
                    continue
                r = self.resolve(m.name, n.func.id)
                if not r or r[0] != "func" or (r[1].module, r[1].name) not in self.register_fns:
                    continue
                regf = r[1]
                for lst, param in regf._reg_appends:  # type: ignore[attr-defined]
                    pos = regf.params.index(param)
                    arg = n.args[pos] if pos < len(n.args) else None
                    ent: Any = ("unresolved", ast.unparse(arg) if arg is not None else "?")
                    if isinstance(arg, ast.Name):
                        rr = self.resolve(m.name, arg.id)
                        if rr and rr[0] == "func":
                            ent = rr[1]
                    reg = self.registries[(regf.module, lst)]
                    reg.sites.append((m.name, n.lineno))
                    if ent not in reg.extra:
                        reg.extra.append(ent)

    def dispatch_types(self) -> Dict[str, str]:
        """TYPE_X -> registry list name, through  TYPE_X = types.FunctionType(SIGNATURE_X)  and
        build_function_address_list(REGISTRY, SIGNATURE_X)."""
        c = getattr(self, "_dispatch_types", None)
        if c is not None:
            return c
        type_sig: Dict[str, str] = {}
        for m in self.modules.values():
            for st in m.tree.body:
                if (isinstance(st, ast.Assign) and len(st.targets) == 1 and isinstance(st.targets[0], ast.Name) and isinstance(st.value, ast.Call)
                        and ast.unparse(st.value.func).endswith("FunctionType") and len(st.value.args) == 1 and isinstance(st.value.args[0], ast.Name)):
                    type_sig[st.targets[0].id] = st.value.args[0].id
        sig_reg: Dict[str, str] = {}
        for m in self.modules.values():
            for n in ast.walk(m.tree):
                if (isinstance(n, ast.Call) and isinstance(n.func, ast.Name) and n.func.id == "build_function_address_list" and len(n.args) == 2
                        and isinstance(n.args[0], ast.Name) and isinstance(n.args[1], ast.Name)):
                    sig_reg[n.args[1].id] = n.args[0].id
        c = {t: sig_reg[sg] for t, sg in type_sig.items() if sg in sig_reg}
        self._dispatch_types = c
        return c

    def registry(self, list_name: str) -> Registry:
        hits = [r for (mod, nm), r in self.registries.items() if nm == list_name]
        if len(hits) != 1:
            raise AnalysisError(f"anchor registry vanished or ambiguous: {list_name}")
        return hits[0]


NO = _NO
