"""Abstract value domain: affine forms over opaque atoms, condition atoms, and a small
linear-arithmetic entailment test (Fourier-Motzkin elimination, i.e. the polyhedra
abstract domain restricted to a handful of variables).  No external solver.

Aff  = c + sum_i k_i * atom_i         (integers; atoms are hashable tuples)
cond = ('ge0', Aff) | ('eq0', Aff) | ('ne0', Aff) | ('not', cond) | ('and', c, c)
     | ('or', c, c) | ('is', x, y) | ('truthy', atom)
"""
from __future__ import annotations

from fractions import Fraction
from typing import Any, Dict, Iterable, List, Optional, Tuple


class Aff:
    __slots__ = ("c", "t", "_h", "_r")

    def __init__(self, c: int = 0, t: Tuple[Tuple[Any, int], ...] = ()):
        self.c = c
        self.t = t
        self._h = None
        self._r = None

    # -- construction ------------------------------------------------------
    @staticmethod
    def const(c: int) -> "Aff":
        return Aff(int(c), ())

    @staticmethod
    def atom(a: Any, k: int = 1) -> "Aff":
        return Aff(0, ((a, k),)) if k else Aff(0, ())

    @staticmethod
    def _mk(c: int, d: Dict[Any, int]) -> "Aff":
        items = [(a, k) for a, k in d.items() if k != 0]
        items.sort(key=lambda x: _akey(x[0]))
        return Aff(c, tuple(items))

    # -- queries -------------------------------------------------------------
    def is_const(self) -> bool:
        return not self.t

    def single_atom(self) -> Optional[Any]:
        if self.c == 0 and len(self.t) == 1 and self.t[0][1] == 1:
            return self.t[0][0]
        return None

    def atoms(self) -> List[Any]:
        return [a for a, _ in self.t]

    def coef(self, atom: Any) -> int:
        for a, k in self.t:
            if a == atom:
                return k
        return 0

    # -- arithmetic ----------------------------------------------------------
    def __add__(self, o: "Aff") -> "Aff":
        d = dict(self.t)
        for a, k in o.t:
            d[a] = d.get(a, 0) + k
        return Aff._mk(self.c + o.c, d)

    def __neg__(self) -> "Aff":
        return Aff(-self.c, tuple((a, -k) for a, k in self.t))

    def __sub__(self, o: "Aff") -> "Aff":
        return self + (-o)

    def scale(self, k: int) -> "Aff":
        if k == 0:
            return Aff(0, ())
        return Aff(self.c * k, tuple((a, kk * k) for a, kk in self.t))

    def addc(self, c: int) -> "Aff":
        return Aff(self.c + c, self.t)

    # -- identity --------------------------------------------------------------
    def __eq__(self, o: object) -> bool:
        return isinstance(o, Aff) and self.c == o.c and self.t == o.t

    def __hash__(self) -> int:
        if self._h is None:
            self._h = hash((self.c, self.t))
        return self._h

    def __repr__(self) -> str:
        if self._r is None:
            parts = []
            for a, k in self.t:
                s = show_atom(a)
                if k == 1:
                    parts.append(f"+{s}")
                elif k == -1:
                    parts.append(f"-{s}")
                else:
                    parts.append(f"{k:+d}*{s}")
            if self.c or not parts:
                parts.append(f"{self.c:+d}")
            r = "".join(parts)
            self._r = r[1:] if r.startswith("+") else r
        return self._r


def _akey(a: Any) -> str:
    return repr(a)


def show_atom(a: Any) -> str:
    if isinstance(a, tuple) and a:
        tag = a[0]
        if tag == "sym":
            return str(a[1])
        if tag == "init":
            if not a[2]:
                return str(a[1])
            return f"{a[1]}@0[{', '.join(show_val(i) for i in a[2])}]"
        if tag == "hav":
            return f"{a[2]}@h{a[1]}[{', '.join(show_val(i) for i in a[3])}]"
        if tag in ("lv", "it"):
            return f"{tag}:{':'.join(str(x) for x in a[1:])}"
        if tag == "unk":
            return f"?{a[1]}"
        return f"{tag}({', '.join(show_val(x) for x in a[1:])})"
    return repr(a)


def show_val(v: Any) -> str:
    if isinstance(v, Aff):
        return repr(v)
    if isinstance(v, tuple):
        return show_atom(v)
    return str(v)


def K(c: int) -> Aff:
    return Aff.const(c)


def S(name: str) -> Aff:
    return Aff.atom(("sym", name))


ZERO = K(0)
ONE = K(1)


# ---------------------------------------------------------------------- conditions
def c_true() -> Tuple:
    return ("ge0", ZERO)


def c_false() -> Tuple:
    return ("ge0", K(-1))


def _norm_eq(a: Aff) -> Aff:
    # make the leading coefficient positive so that x-y==0 and y-x==0 coincide
    if a.t and a.t[0][1] < 0:
        return -a
    if not a.t and a.c < 0:
        return -a
    return a


def cmp_cond(op: str, a: Aff, b: Aff) -> Tuple:
    if op == "<":
        return ("ge0", b - a - ONE)
    if op == "<=":
        return ("ge0", b - a)
    if op == ">":
        return ("ge0", a - b - ONE)
    if op == ">=":
        return ("ge0", a - b)
    if op == "==":
        return ("eq0", _norm_eq(a - b))
    if op == "!=":
        return ("ne0", _norm_eq(a - b))
    raise ValueError(op)


def negate(c: Tuple) -> Tuple:
    tag = c[0]
    if tag == "ge0":
        return ("ge0", -c[1] - ONE)
    if tag == "eq0":
        return ("ne0", c[1])
    if tag == "ne0":
        return ("eq0", c[1])
    if tag == "not":
        return c[1]
    if tag == "and":
        return ("or", negate(c[1]), negate(c[2]))
    if tag == "or":
        return ("and", negate(c[1]), negate(c[2]))
    return ("not", c)


def cond_of(v: Aff) -> Tuple:
    """Truth value of an integer/boolean abstract value."""
    if v.is_const():
        return c_true() if v.c != 0 else c_false()
    a = v.single_atom()
    if a is not None and isinstance(a, tuple) and a and a[0] in ("ge0", "eq0", "ne0", "not", "and", "or", "is", "truthy"):
        return a
    return ("ne0", _norm_eq(v))


def bool_aff(c: Tuple) -> Aff:
    """0/1 abstract value of a condition."""
    k = const_cond(c)
    if k is not None:
        return ONE if k else ZERO
    return Aff.atom(c)


def const_cond(c: Tuple) -> Optional[bool]:
    tag = c[0]
    if tag in ("ge0", "eq0", "ne0") and c[1].is_const():
        v = c[1].c
        return v >= 0 if tag == "ge0" else (v == 0 if tag == "eq0" else v != 0)
    if tag == "not":
        k = const_cond(c[1])
        return None if k is None else not k
    if tag == "and":
        a, b = const_cond(c[1]), const_cond(c[2])
        if a is False or b is False:
            return False
        if a is True and b is True:
            return True
        return None
    if tag == "or":
        a, b = const_cond(c[1]), const_cond(c[2])
        if a is True or b is True:
            return True
        if a is False and b is False:
            return False
        return None
    if tag == "is":
        if c[1] == c[2]:
            return True
        if _is_lit(c[1]) and _is_lit(c[2]):
            return False
        return None
    return None


def _is_lit(x: Any) -> bool:
    return (isinstance(x, Aff) and x.is_const()) or (isinstance(x, tuple) and x and x[0] in ("none", "str"))


def show_cond(c: Tuple) -> str:
    tag = c[0]
    if tag == "ge0":
        return f"{c[1]!r} >= 0"
    if tag == "eq0":
        return f"{c[1]!r} == 0"
    if tag == "ne0":
        return f"{c[1]!r} != 0"
    if tag == "not":
        return f"not ({show_cond(c[1])})"
    if tag in ("and", "or"):
        return f"({show_cond(c[1])}) {tag} ({show_cond(c[2])})"
    return show_atom(c)


# ------------------------------------------------------------------ entailment
class Facts:
    """A conjunction of conditions assumed on the current path."""

    __slots__ = ("conds", "_lin", "_memo")

    def __init__(self, conds: Iterable[Tuple] = ()):
        self.conds: List[Tuple] = list(conds)
        self._lin = None
        self._memo: Dict[Any, Optional[bool]] = {}

    def copy(self) -> "Facts":
        f = Facts(self.conds)
        f._lin = self._lin
        f._memo = dict(self._memo)
        return f

    def add(self, c: Tuple) -> None:
        if c[0] == "and":
            self.add(c[1])
            self.add(c[2])
            return
        if const_cond(c) is True:
            return
        if c not in self.conds:
            self.conds.append(c)
            self._lin = None
            self._memo = {}

    # linear part -----------------------------------------------------------
    def _linear(self, strong: bool = False) -> Tuple[List[Aff], List[Aff]]:
        if self._lin is None:
            ge: List[Aff] = []
            ne: List[Aff] = []
            for c in self.conds:
                if c[0] == "ge0":
                    ge.append(c[1])
                elif c[0] == "eq0":
                    ge.append(c[1])
                    ge.append(-c[1])
                elif c[0] == "ne0":
                    ne.append(c[1])
            self._lin = [ge, ne, None]
        if not strong:
            return self._lin[0], self._lin[1]
        if self._lin[2] is None:
            ge = list(self._lin[0])
            ne = self._lin[1]
            # strengthen with disequalities: a>=0 & a!=0 => a-1>=0
            for _ in range(2):
                added = False
                for n in ne:
                    if (n - ONE) not in ge and _fm_infeasible(ge + [-n - ONE]):  # n >= 0 entailed
                        ge.append(n - ONE)
                        added = True
                    elif (-n - ONE) not in ge and _fm_infeasible(ge + [n - ONE]):  # n <= 0 entailed
                        ge.append(-n - ONE)
                        added = True
                if not added:
                    break
            self._lin[2] = ge
        return self._lin[2], self._lin[1]

    def decide(self, c: Tuple) -> Optional[bool]:
        """True: entailed; False: refuted; None: unknown."""
        if c in self._memo:
            return self._memo[c]
        r = self._decide(c)
        if r is None:
            r = self._decide_by_cases(c)
        self._memo[c] = r
        return r

    def _decide_by_cases(self, c: Tuple, depth: int = 0) -> Optional[bool]:
        """Case split on a disjunctive fact (at most 3 levels)."""
        if depth >= 3:
            return None
        for i, f in enumerate(self.conds):
            if f[0] == "or":
                results = []
                for alt in (f[1], f[2]):
                    g = Facts(self.conds[:i] + self.conds[i + 1 :])
                    g.add(alt)
                    if g.infeasible_strong():
                        continue
                    r = g._decide(c)
                    if r is None:
                        r = g._decide_by_cases(c, depth + 1)
                    results.append(r)
                if results and all(r is True for r in results):
                    return True
                if results and all(r is False for r in results):
                    return False
                if not results:
                    return True  # the facts are contradictory
                return None
        return None

    def _decide(self, c: Tuple) -> Optional[bool]:
        k = const_cond(c)
        if k is not None:
            return k
        if c in self.conds:
            return True
        if negate(c) in self.conds:
            return False
        tag = c[0]
        if tag == "and":
            a, b = self.decide(c[1]), self.decide(c[2])
            if a is False or b is False:
                return False
            if a is True and b is True:
                return True
            return None
        if tag == "or":
            a, b = self.decide(c[1]), self.decide(c[2])
            if a is True or b is True:
                return True
            if a is False and b is False:
                return False
            return None
        if tag == "not":
            r = self.decide(c[1])
            return None if r is None else not r
        if tag in ("ge0", "eq0", "ne0"):
            r = self._decide_linear(c, False)
            if r is None and self._linear()[1]:
                r = self._decide_linear(c, True)
            return r
        return None

    def _decide_linear(self, c: Tuple, strong: bool) -> Optional[bool]:
        tag = c[0]
        if True:
            ge, ne = self._linear(strong)
            q: Aff = c[1]
            if tag == "ge0":
                if _fm_infeasible(ge + [-q - ONE], focus_last=True):
                    return True
                if _fm_infeasible(ge + [q], focus_last=True):
                    return False
                return None
            pos = _fm_infeasible(ge + [-q - ONE], focus_last=True)  # q >= 0 entailed
            neg = _fm_infeasible(ge + [q - ONE], focus_last=True)  # q <= 0 entailed
            is_zero = pos and neg
            non_zero = _fm_infeasible(ge + [q, -q]) or q in ne or (-q) in ne
            if not non_zero and not is_zero:
                for n in ne:
                    for d in (q - n, q + n):
                        if _fm_infeasible(ge + [-d - ONE]) and _fm_infeasible(ge + [d - ONE]):  # d == 0 entailed
                            non_zero = True
                            break
                    if non_zero:
                        break
            if tag == "eq0":
                return True if is_zero else (False if non_zero else None)
            return True if non_zero else (False if is_zero else None)
        return None

    def infeasible_strong(self) -> bool:
        """infeasible(), also using the disequalities: some n != 0 with n == 0 entailed by the linear part."""
        if self.infeasible():
            return True
        ge, ne = self._linear()
        for n in ne:
            if _fm_infeasible(ge + [-n - ONE]) and _fm_infeasible(ge + [n - ONE]):
                return True
        return False

    def entails(self, c: Tuple) -> bool:
        return self.decide(c) is True

    def infeasible(self) -> bool:
        ge, _ = self._linear()
        if _fm_infeasible(ge):
            return True
        for c in self.conds:
            if const_cond(c) is False:
                return True
        return False


_REPR_CACHE: Dict[Any, str] = {}


def _rkey(a: Any) -> str:
    r = _REPR_CACHE.get(a)
    if r is None:
        r = repr(a)
        if len(_REPR_CACHE) < 200000:
            _REPR_CACHE[a] = r
    return r


def _fm_infeasible(cons: List[Aff], cap: int = 3000, focus_last: bool = False) -> bool:
    """Is the system {a >= 0 for a in cons} infeasible over the integers?  (Sound, incomplete:
    Fourier-Motzkin elimination with integer tightening of every derived constraint.)
    focus_last: the caller knows that cons[:-1] alone is feasible-or-irrelevant; only the constraints connected (through shared
    atoms) to the last one can take part in a contradiction, the others are dropped (still sound: fewer constraints)."""
    rows: List[Tuple[Dict[Any, int], int]] = []
    seen = set()
    for a in cons:
        if not a.t:
            if a.c < 0:
                return True
            continue
        if a in seen:
            continue
        seen.add(a)
        rows.append((dict(a.t), a.c))
    if focus_last and cons and cons[-1].t and len(rows) > 6:
        reach = {a for a, _ in cons[-1].t}
        changed = True
        keep = [False] * len(rows)
        while changed:
            changed = False
            for i, (d, _) in enumerate(rows):
                if not keep[i] and any(a in reach for a in d):
                    keep[i] = True
                    for a in d:
                        if a not in reach:
                            reach.add(a)
                            changed = True
        rows = [r for r, k in zip(rows, keep) if k]
    while True:
        new_rows: List[Tuple[Dict[Any, int], int]] = []
        keys = set()
        for d, c in rows:
            if not d:
                if c < 0:
                    return True
                continue
            g = 0
            for k in d.values():
                g = _gcd(g, abs(k))
            if g > 1:
                d = {a: k // g for a, k in d.items()}
                c = c // g  # floor: integer tightening
            new_rows.append((d, c))
        # keep only the tightest constant per left-hand side
        best: Dict[Any, Tuple[Dict[Any, int], int]] = {}
        for d, c in new_rows:
            key = frozenset(d.items())
            if key not in best or c < best[key][1]:
                best[key] = (d, c)
        rows = list(best.values())
        if not rows:
            return False
        var_stats: Dict[Any, List[int]] = {}
        for d, _ in rows:
            for a, k in d.items():
                st = var_stats.setdefault(a, [0, 0])
                st[0 if k > 0 else 1] += 1
        v = min(var_stats, key=lambda a: (var_stats[a][0] * var_stats[a][1], _rkey(a)))
        pos = [(d, c) for d, c in rows if d.get(v, 0) > 0]
        neg = [(d, c) for d, c in rows if d.get(v, 0) < 0]
        rest = [(d, c) for d, c in rows if d.get(v, 0) == 0]
        if len(pos) * len(neg) + len(rest) > cap:
            return False
        for dp, cp in pos:
            kp = dp[v]
            for dn, cn in neg:
                kn = -dn[v]
                d: Dict[Any, int] = {}
                for a, k in dp.items():
                    if a != v:
                        d[a] = k * kn
                for a, k in dn.items():
                    if a != v:
                        nk = d.get(a, 0) + k * kp
                        if nk:
                            d[a] = nk
                        elif a in d:
                            del d[a]
                rest.append((d, cp * kn + cn * kp))
        rows = rest


def _gcd(a: int, b: int) -> int:
    while b:
        a, b = b, a % b
    return a


# ---------------------------------------------------------------- substitution
def subst(x: Any, m: Dict[Any, "Aff"]) -> Any:
    """Replace atoms by affine forms, recursively inside atoms / conditions."""
    if isinstance(x, Aff):
        out = Aff.const(x.c)
        for a, k in x.t:
            if a in m:
                out = out + m[a].scale(k)
            else:
                na = subst(a, m)
                out = out + (na.scale(k) if isinstance(na, Aff) else Aff.atom(na, k))
        return out
    if isinstance(x, tuple):
        if x in m:
            return m[x]
        return tuple(subst(y, m) for y in x)
    return x


def atoms_in(x: Any, acc: Optional[List[Any]] = None) -> List[Any]:
    """All atoms occurring (recursively) in a term / condition."""
    if acc is None:
        acc = []
    if isinstance(x, Aff):
        for a, _ in x.t:
            if a not in acc:
                acc.append(a)
            atoms_in(a, acc)
    elif isinstance(x, tuple):
        for y in x:
            atoms_in(y, acc)
    return acc
