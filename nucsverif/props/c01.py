"""C01 -- every reported solution satisfies every posted constraint (engine half: every constraint is executed
on the final tuple before 'solved' is reported, and the reported vector is the one the constraints saw)."""
from ..rules import capacity, marks, branching, engine, model, optimize, process, propagators, search, shaving, kinds, bounds, dispatch

EXPLANATION = (
    "Static analysis, no execution: the engine half of 'reported => satisfies'. Abstract interpretation (affine forms, path-sensitive, loops summarised) of pop_propagator, bound_consistency_algorithm (both dispatch modes), solve_one, is_solved, get_solution, decrease_max/increase_min, reset, Problem.init and the multiprocessing parent decides: 'solved' is returned only after the queue scan found no flagged propagator (incl. the one it skips) and is_solved compared MIN/MAX of all shared domains at the current level; a vector is returned only under PROBLEM_BOUND and equals stack[top, dom_indices, MIN] + dom_offsets; every write-back store is a strict tightening with an emptiness test, is announced with exactly the bits of the stored bounds and GROUND when the stored domain may be a single value; the wake-up table joins the events of variables sharing a domain; each filtering function's bound dependences are covered by its declared triggers; the enabled flags are cleared only for the propagator that answered PROP_ENTAILMENT at the level current at entry; no function outside the protocol writes the domain stack; the parent forwards exactly what a worker sent. Does not decide what a constraint answers when executed (C06). Further clauses: the wake-up primitive scans every constraint, never clears a flag and passes over a constraint only when it is disabled or does not watch an announced event; only pop_propagator clears a queue flag, and never on a path that reports 'empty'; the enabled-flags row consulted by a wake-up is the current level's (or one below it); a restart and a new solver leave every constraint queued; every decision announces the bounds it moved (return mask and replay records of all value heuristics) and every new level is a copy of the level branched from; a block that enforces a + k <= b answers 'entailed' only under a.MAX + k <= b.MIN; Optional[int] API arguments are tested with `is None`; the protocol constants are a proper vocabulary (distinct event bits, distinct statuses). Round 3: the write-back compares both bounds with the filtered view on every iteration that stores nothing; no value is used both as a variable index and as a shared-domain index (interprocedural, incl. counts and returned positions); interval sums over signed coefficients are symmetric; no 32-bit element-wise arithmetic in filtering functions; what shaving hands back is a propagated state (un-probing re-queues, status forwarding). Round 6: bounds derived by division in the linear constraints agree with the interval accumulators they come from (own contribution added back, stored on the other side, sign of the quotient, rounded towards the inside: R-AFFINE-BOUND); both bounds of a count reach a failure exit (R-TWO-SIDED); a mark array is cleared between a verdict and the next marking pass (R-MARK-REUSE, the two reachability tests of the connectivity constraint); a filtering function never updates its parameters in place; every constraint column of the wake-up table is filled from the trigger function of that very constraint, called in that iteration with its own arity and parameters; every posted constraint stays posted (who may write the list of constraints); domain values and view offsets have one integer type in every array that carries them; no division by a possibly-zero quantity behind a function pointer."
)


def check(ctx, prog):
    dispatch.rule_swallowed_raise(ctx, prog)  # scope: no division by a possibly-zero quantity behind a function pointer (the error is discarded, the status is arbitrary)
    model.rule_posted_kept(ctx, prog)  # every posted constraint stays posted (who may write the list of constraints)
    propagators.rule_prop_effects(ctx, prog)  # a filtering function never stores into its parameters (a view of the problem's table: the next call sees another constraint)
    capacity.rule_value_width(ctx, prog)  # domain values and view offsets have one integer type in all arrays that carry them
    thorough = ctx.tier == "thorough"
    engine.rule_queue_drain(ctx, prog)
    optimize.rule_is_solved(ctx, prog)
    search.rule_solve_one(ctx, prog, want=("R-SOLUTION", "R-HANDOVER"))
    optimize.rule_offset_primitives(ctx, prog)
    engine.rule_writeback(ctx, prog)
    model.rule_trigger_join(ctx, prog)
    propagators.rule_triggers(ctx, prog)
    engine.rule_flags_writers(ctx, prog, thorough=thorough)
    engine.rule_stack_writers(ctx, prog, thorough=thorough)
    optimize.rule_reset(ctx, prog)
    process.rule_marker_parent(ctx, prog)
    engine.rule_wakeup(ctx, prog)
    model.rule_optional_zero(ctx, prog)
    model.rule_constants(ctx, prog, want=("events", "status", "axes"))
    branching.check_value_heuristics(ctx, prog)  # scope: R-BRANCH-EVENTS (a decision whose moved bounds are not announced leaves watchers asleep)
    propagators.rule_enforce_entail(ctx, prog)
    propagators.rule_mirror_entail(ctx, prog)
    propagators.rule_vector_width(ctx, prog)
    propagators.rule_interval_sum(ctx, prog)
    propagators.rule_affine_bound(ctx, prog)  # bounds derived by division: own contribution added back, stored on the right side, rounded towards the inside
    engine.rule_queue_writers(ctx, prog, thorough=thorough)
    shaving.rule_shave_bound(ctx, prog)  # scope: the un-probing re-queues the watchers of the bound it removed
    shaving.rule_shaving_loop(ctx, prog)  # scope: what shaving hands back is a propagated state with the status of its last pass
    propagators.rule_two_sided(ctx, prog)  # both bounds of a count reach a failure exit
    marks.rule_mark_reuse(ctx, prog)  # a mark array is cleared between a verdict and the next marking pass (the second reachability test of scc)
    kinds.rule_count_kind(ctx, prog)
    kinds.rule_index_kind(ctx, prog)  # a number is a variable index or a shared-domain index, not both
    bounds.rule_clamp_order(ctx, prog)  # an index variable outside the list must not be used as an index before the clamp (invalid (i, v) pairs accepted)
    model.rule_split(ctx, prog)  # scope: the parts enumerated by the multiprocessing solver stay inside (and exactly cover) the declared domain
    dispatch.rule_status_used(ctx, prog)  # the verdict of a consistency algorithm / filtering function is never dropped
    model.rule_problem_readonly(ctx, prog)  # (the engine side: no store through a model array)
