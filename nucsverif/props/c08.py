"""C08 -- propagation stops only at a common fixpoint and only ever shrinks domains (structural clauses)."""
from ..rules import engine

EXPLANATION = "tmp"


def check(ctx, prog):
    engine.rule_queue_drain(ctx, prog)
    engine.rule_writeback(ctx, prog)
    engine.rule_flags_writers(ctx, prog)
