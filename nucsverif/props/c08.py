"""C08 -- propagation stops only at a common fixpoint and only ever shrinks domains (structural clauses)."""
from ..rules import branching, engine, model, optimize, propagators, search, shaving

EXPLANATION = (
    "Static analysis of the fixpoint protocol: (i) wake-up sufficiency by bound-dependency analysis of every registered filtering function against the per-position mask derived from its trigger function (sign-split on coefficients, self-dependences and entailment guards excluded, ground-guarded reads counted as GROUND); 16 propagators watch MIN|MAX everywhere, 5 narrow ones are analysed; (ii) every write-back store announced with the exact bits; (iii) strict-tightening stores and emptiness test (domains only shrink, non-empty on 'consistent'); (iv) the wake-up table joins events; (v) a pass ends only when no enabled constraint is flagged. Does not decide that the fixpoint is the largest one. Also: the wake-up primitive (full scan, no clearing, skip only if disabled or not watching); only pop_propagator clears a queue flag; a restart (reset) and a new solver leave every constraint queued; decisions announce the bounds they move; the event constants are distinct bits and the combined masks their unions. Round 3: effect calls (helpers filling scratch arrays) are followed by the dependence analysis; write-back completeness; shaving's un-probing and status clauses. Round 6: the two halves of an enforced ordering a + k <= b use the same k; the candidate test of the aggregate constraints is not bypassed for a variable whose bound was just cut; every column of the wake-up table comes from the constraint's own trigger call (no memo per algorithm and arity)."
)


def check(ctx, prog):
    propagators.rule_triggers(ctx, prog)
    propagators.rule_prop_effects(ctx, prog)
    engine.rule_queue_drain(ctx, prog)
    engine.rule_writeback(ctx, prog, want=("R-EVENTS-EXACT", "R-WRITEBACK-MONO", "R-ANNOUNCE"))
    model.rule_trigger_join(ctx, prog)
    engine.rule_flags_writers(ctx, prog, thorough=ctx.tier == "thorough")
    engine.rule_wakeup(ctx, prog)
    model.rule_constants(ctx, prog, want=("events", "status"))
    optimize.rule_reset(ctx, prog)  # a restart leaves every constraint queued
    engine.rule_stack_writers(ctx, prog, thorough=ctx.tier == "thorough")  # incl. the initial queue of a new solver
    branching.check_value_heuristics(ctx, prog)  # scope: R-BRANCH-EVENTS only
    engine.rule_queue_writers(ctx, prog, thorough=ctx.tier == "thorough")
    search.rule_solve_one(ctx, prog, want=("R-HANDOVER",))
    shaving.rule_shave_bound(ctx, prog)  # scope: the un-probing re-queues the watchers of the bound it removed
    propagators.rule_sole_candidate(ctx, prog)  # over-pruning: the pass ends below the largest common fixpoint
    propagators.rule_enforce_entail(ctx, prog)  # scope: the two halves of an enforced ordering a + k <= b use the same k (a bound left without support)
    shaving.rule_shaving_loop(ctx, prog)  # scope: what shaving hands back is a propagated state with the status of its last pass
