"""C18 -- a dying worker process cannot hang the multiprocessing solver (necessary conditions)."""
from ..rules import process

EXPLANATION = "tmp"


def check(ctx, prog):
    process.rule_liveness(ctx, prog)
