"""C18 -- a dying worker process cannot hang the multiprocessing solver (necessary conditions)."""
from ..rules import process

EXPLANATION = (
    'Static analysis of three necessary conditions for not hanging, on both receive loops: every Process created is retained in a container, every read of the result queue is bounded in time (timeout / non-blocking), and some exit edge of the wait (raise/return/break) depends on a liveness query of the process handles. Does not decide the bound on the time. Also: no join without a timeout on a path that can raise; the completion flags that excuse finished workers are created all-false inside the call (flags kept on the object would excuse a worker that dies during a later call) and set on the marker path. Round 3: no SIGCHLD disposition anywhere in the package; the error raised by the liveness test leaves solve() / optimize(); no one-shot iterator bound before the waiting loop and traversed inside it; the completion flags are recognised also when the filter is hoisted out of the loop. Round 6: no unbounded acquire() / wait() in the parent on a synchronisation object that is handed to the workers.'
)


def check(ctx, prog):
    process.rule_liveness(ctx, prog)
    process.rule_marker_parent(ctx, prog)  # scope: only the freshness of the completion flags belongs to C18
    process.rule_worker_threads(ctx, prog)
