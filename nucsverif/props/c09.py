"""C09 -- branching partitions the chosen domain; backtracking restores the saved state."""
from ..rules import branching, model, search, shaving, capacity

EXPLANATION = (
    'Static analysis (abstract interpretation over affine forms, no execution): every registered value heuristic is interpreted from the symbolic pre-state D[T,d]=[lo,hi], lo<hi; on each abstract path the sub-ranges left at levels T..T+k must form the chain lo=l0, u_i+1=l_{i+1}, u_last=hi with every sub-range provably non-empty (Fourier-Motzkin over the path facts and the floor-division axiom), no store may address another domain or a level below T, the returned mask and each recorded replay mask must contain the bit of every bound that differs from the pre-state and GROUND whenever the sub-range may be a single value; cp_put, backtrack and cp_init are checked against the copy-on-push / untouched-on-pop / replay-saved-events oracle. Also: the decision\'s events are handed over unmodified to the wake-up on the new top\'s flags row; every new level starts as a copy of the level branched from (flags row and all other domains); the event constants are distinct bits. Round 3: the un-probing of shaving re-queues the watchers of the removed bound; all arrays that carry shared-domain indices have one integer type. Round 4: the chosen value starts inside [lo, hi] and is only assigned the index of a range provably inside [lo, hi] (fix 31b7d71: it started at -1 on the pinned tree).'
)


def check(ctx, prog):
    branching.check_value_heuristics(ctx, prog)
    ctx.rule("R-PUSH-POP")
    branching.check_choice_points(ctx, prog)
    model.rule_constants(ctx, prog, want=("events", "axes"))
    search.rule_solve_one(ctx, prog, want=("R-HANDOVER",))
    shaving.rule_shave_bound(ctx, prog)  # scope: the un-probing re-queues the watchers of the bound it removed
    capacity.rule_index_width(ctx, prog)  # the arrays that carry shared-domain indices have one integer type
