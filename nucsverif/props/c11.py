"""C11 -- the multiprocessing solver equals the sequential solver for every interleaving (reducer shape)."""
from ..rules import dispatch, counters, optimize, process, search

EXPLANATION = (
    "Static analysis of the reducer's shape: each worker exit path sends exactly one completion marker (worker id, None, statistics) as its last message and none from an iteration that goes on; the parent's counter starts at len(solvers), is decremented exactly on a marker, the loop runs exactly while it is positive and is not left early; every solution message is yielded once unmodified / compared with cmp(new[v], incumbent[v]) and kept iff there is no incumbent or cmp holds; minimize<->('minimize_and_queue', lt), maximize<->('maximize_and_queue', gt); each message overwrites the statistics slot of its own worker; processes are started with their own index and the shared queue. Order-independence follows from this shape; equality with the sequential multiset needs C02/C12. Also: a per-worker 'finished' list consulted by the liveness test is created all-false inside the call and set on the marker path; the 13 aggregated statistics use sum (max for depth) of the counter with the same name. Round 3: every solution of a part is delivered exactly once by the worker; no join of a worker that may still be writing; the function addresses are taken per call in the process that uses them; get_statistics may be a comprehension over a constant label table."
)


def check(ctx, prog):
    process.rule_marker_worker(ctx, prog)
    process.rule_marker_parent(ctx, prog)
    process.rule_keepbest(ctx, prog)
    counters.rule_stats_map(ctx, prog)
    optimize.rule_tighten(ctx, prog)  # scope: the *_and_queue worker entry points
    process.rule_liveness(ctx, prog)  # scope: no join of a worker that may still be writing (the call returns once every worker has finished)
    dispatch.rule_dispatch(ctx, prog)  # scope: the function addresses are taken per call in the process that uses them
    search.rule_resume(ctx, prog)  # scope: a worker delivers every solution of its part exactly once
    dispatch.rule_global_state(ctx, prog)  # scope: no state shared between the solvers of the parts
    process.rule_queue_lossless(ctx, prog)
    process.rule_no_dedup(ctx, prog)
