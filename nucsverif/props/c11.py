"""C11 -- the multiprocessing solver equals the sequential solver for every interleaving (reducer shape)."""
from ..rules import process

EXPLANATION = "tmp"


def check(ctx, prog):
    process.rule_marker_worker(ctx, prog)
    process.rule_marker_parent(ctx, prog)
    process.rule_keepbest(ctx, prog)
