"""C03 -- minimise/maximise return a feasible optimum, or nothing exactly when infeasible (structural clauses)."""
from ..rules import optimize

EXPLANATION = "tmp"


def check(ctx, prog):
    optimize.rule_tighten(ctx, prog)
    optimize.rule_offset_primitives(ctx, prog)
    optimize.rule_reset(ctx, prog)
    optimize.rule_is_solved(ctx, prog)
