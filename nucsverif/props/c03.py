"""C03 -- minimise/maximise return a feasible optimum, or nothing exactly when infeasible (structural clauses)."""
from ..rules import branching, model, optimize, process, dispatch, search

EXPLANATION = (
    "Static analysis of branch-and-bound by restart: in optimize and optimize_and_queue every improving iteration does solve -> reset(this solver's stacks) -> tighten(stack, top, dom_indices, dom_offsets, variable_idx, incumbent[variable_idx]); an exit edge after the tightening reads both bounds of the objective's shared domain (emptiness guard); the incumbent is recorded / queued and the last one returned; minimize<->decrease_max and maximize<->increase_min; decrease_max stores value-1-offset into (dom_indices[var], MAX), increase_min value+1-offset into (.., MIN); reset = cp_init from the problem's initial domains + full re-trigger; is_solved over all domains. Not optimality as a value. Also: the multiprocessing reducer keeps the best with the comparison that matches the direction; cp_init (what a restart re-establishes) resets top, domains and the enabled flags. Round 3: a maybe-None optimisation result is tested against None before it is subscripted. Round 4: no solver code stores into the problem object (an objective bound left in the model makes the next optimisation of the same problem return None)."
)


def check(ctx, prog):
    optimize.rule_tighten(ctx, prog)
    optimize.rule_offset_primitives(ctx, prog)
    optimize.rule_reset(ctx, prog)
    optimize.rule_domain_source(ctx, prog)
    optimize.rule_is_solved(ctx, prog)
    process.rule_keepbest(ctx, prog)
    model.rule_optional_zero(ctx, prog)
    branching.check_choice_points(ctx, prog)  # scope: cp_init only (what a restart re-establishes)
    optimize.rule_optional_result(ctx, prog)
    process.rule_liveness(ctx, prog)  # scope: the distributed optimisation does not join a worker that may still be writing
    model.rule_problem_readonly(ctx, prog)  # an optimisation leaves the model as it found it
    dispatch.rule_status_used(ctx, prog)  # the verdict of a consistency algorithm / filtering function is never dropped
    search.rule_solve_one(ctx, prog, want=("R-CAPACITY",))  # an overflow in a worker's optimisation is not answered as 'no better solution'
