"""C13 -- the solution set does not depend on how the model is written down (encoding coherence)."""
from ..rules import capacity, model, optimize, engine, kinds

EXPLANATION = (
    "Static analysis of encoding coherence in Problem.init (abstractly interpreted, Python level): stable in-place sort before every derivation loop with a key reading only the constraint tuple; algorithms[p], cumulative var/param bounds, props_dom_indices / props_dom_offsets slices filled from dom_indices_arr / dom_offsets_arr at the same prop_vars and the same [start:end], props_parameters, triggers obtained from the constraint's own trigger function and joined with |=; derived attributes re-created from fresh allocations; plus the offset round trip view = shared + o / write-back = view - o / solution = shared + o / tightening = value -/+ 1 - o. Not invariance of solution sets under rewrites. Also: the wake-up table is filled cell by cell (a fancy-indexed |= over a repeated index keeps the last write); where one constraint sees one shared domain through several views, the views are intersected with an emptiness test and the constraint is re-run after its own write-back (queue drain, queue writers); Optional[int] API arguments (dom_index, dom_offset) are tested with `is None`; domain lists written as one object or as several behave alike (R-DOMAIN-LISTS: an in-place store into a [min, max] list requires every writer of the domain list to store lists created on the spot). Round 3: index kinds incl. counts (the attribute sizing the shared-domain axes is a number of shared domains), returned positions and a variable index validated against the other count; init() never reads a posting-order list by position after the sort and a guarded sort is invalidated by every mutator; write-back completeness. Round 4: an Optional argument is only given its default under a test of that very argument against None; an integer taken from a list-of-integers argument is never tested for truth (0 is a value); no solver code stores into the problem object. Round 6: R-POSTED-KEPT; R-VALUE-WIDTH (the per-constraint copy of the view offsets has the integer type of the domain stack and of the offset table); the own-call clause of the wake-up table."
)


def check(ctx, prog):
    model.rule_posted_kept(ctx, prog)  # every posted constraint stays posted (who may write the list of constraints)
    capacity.rule_value_width(ctx, prog)  # domain values and view offsets have one integer type in all arrays that carry them
    model.rule_init_coherence(ctx, prog)
    model.rule_trigger_join(ctx, prog)
    model.rule_optional_zero(ctx, prog)
    model.rule_domain_lists(ctx, prog)
    optimize.rule_offset_primitives(ctx, prog)
    engine.rule_writeback(ctx, prog, want=("R-OFFSET-ROUNDTRIP", "R-WRITEBACK-MONO"))
    # one constraint seeing one shared domain through several views is where the shared-domain encoding differs from the
    # separate-variables encoding: the views must be intersected (R-WRITEBACK-MONO) and the constraint re-run after its own write-back
    engine.rule_queue_drain(ctx, prog)
    engine.rule_queue_writers(ctx, prog, thorough=ctx.tier == "thorough")
    # a constraint over already-fixed values is only ever checked because a new solver starts with every constraint queued: the same model written
    # with the fixed values folded into the constraints would be checked by construction
    engine.rule_stack_writers(ctx, prog, thorough=ctx.tier == "thorough")
    kinds.rule_count_kind(ctx, prog)
    kinds.rule_index_kind(ctx, prog)  # a number is a variable index or a shared-domain index, not both
    model.rule_optional_override(ctx, prog)
    model.rule_problem_readonly(ctx, prog)
