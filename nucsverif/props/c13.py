"""C13 -- the solution set does not depend on how the model is written down (encoding coherence)."""
from ..rules import model, optimize, engine

EXPLANATION = "tmp"


def check(ctx, prog):
    model.rule_init_coherence(ctx, prog)
    model.rule_trigger_join(ctx, prog)
    optimize.rule_offset_primitives(ctx, prog)
    engine.rule_writeback(ctx, prog, want=("R-OFFSET-ROUNDTRIP",))
