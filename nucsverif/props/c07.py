"""C07 -- a constraint is declared entailed only when it can no longer be violated (history clause + status vocabulary)."""
from ..rules import branching, engine, model, propagators, search, shaving

EXPLANATION = (
    "Static analysis of the history clause: the only writers of the enabled-constraints stack are cp_init (row 0 <- True), cp_put (row t+1 <- row t) and the propagation loop's entailment branch (flag of the popped propagator, at the level current at entry, only under status == PROP_ENTAILMENT); backtrack exposes the saved row untouched; every wake-up consults the row of the level current at that site; every return of every registered filtering function is one of the three PROP_* constants. Does not decide that an entailment guard implies the relation on the whole box. Also: a block that enforces a + k <= b answers 'entailed' only under a.MAX + k <= b.MIN (agreement of two beliefs stated in the same block, e.g. the strict case of lexicographic_leq); the three PROP_* answers are pairwise distinct; the wake-up primitive and every wake-up site (write-back, decision hand-over, backtrack replay) consult the enabled-flags row of the current level or of a level below it; every new level pushed by a value heuristic gets a copy of the flags row. Round 3: index / counter / table families of entailment guards decided as entailments of the path facts (index row a single value; the two counters equal; one table row left), a row copied into another's needs to be a single value, interval-sum symmetry, no 32-bit vector arithmetic. Round 6: un-probing (shaving) wakes against the restored level's row; a filtering function never updates its parameters in place; every posted constraint stays posted (a presolve that drops a constraint judged entailed by the initial domains judges one box, not the constraint)."
)


def check(ctx, prog):
    model.rule_posted_kept(ctx, prog)  # every posted constraint stays posted (who may write the list of constraints)
    propagators.rule_prop_effects(ctx, prog)  # a filtering function never stores into its parameters (a view of the problem's table: the next call sees another constraint)
    engine.rule_flags_writers(ctx, prog, thorough=ctx.tier == "thorough")
    ctx.rule("R-PUSH-POP")
    branching.check_choice_points(ctx, prog)
    propagators.rule_status_vocab(ctx, prog)
    model.rule_constants(ctx, prog, want=("status",))
    propagators.rule_enforce_entail(ctx, prog)
    propagators.rule_mirror_entail(ctx, prog)
    propagators.rule_entail_guard(ctx, prog)
    propagators.rule_vector_width(ctx, prog)
    propagators.rule_interval_sum(ctx, prog)
    engine.rule_wakeup(ctx, prog)
    engine.rule_writeback(ctx, prog, want=("R-FLAGS-WRITERS",))
    search.rule_solve_one(ctx, prog, want=("R-HANDOVER",))
    shaving.rule_shave_bound(ctx, prog)  # scope: the probe's propagation runs on a pushed level that is discarded
