"""C17 -- reported statistics are exact counts obeying conservation laws."""
from ..rules import counters, model, process, search

EXPLANATION = (
    'Static analysis: for each of the 13 counters the set of statements modifying statistics[<folded index>] on the abstract paths of the propagation loop, shaving loop, backtrack and solve_one equals its event site: +1 exactly once on every path where the event happens and on no other (entry of a pass, each indirect filtering call, failing return, entailed status, no-store iteration through the flag protocol, solution return, value-heuristic call, max-update of depth, pop, probe, probe outcome); nobody else writes the array; labels map to the index of the same name in both get_statistics, sum for all but depth (max); each worker message overwrites its own slot. Also: the statistics indices are a permutation of 0..STATS_MAX-1 and the labels are distinct. Round 3: written-out increments (s[k] = s[k] + 1) are increments; get_statistics may be table-driven; aggregators identified by what they compute (sum / max), not by name.'
)


def check(ctx, prog):
    counters.rule_counters_bc(ctx, prog)
    counters.rule_counters_shaving(ctx, prog)
    counters.rule_counters_backtrack(ctx, prog)
    counters.rule_backtrack_resumes(ctx, prog)
    search.rule_solve_one(ctx, prog, want=("R-COUNTER",))
    counters.rule_counter_writers(ctx, prog, thorough=ctx.tier == "thorough")
    counters.rule_stats_map(ctx, prog)
    model.rule_constants(ctx, prog, want=("stats",))
    process.rule_marker_parent(ctx, prog)
