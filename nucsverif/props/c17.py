"""C17 -- reported statistics are exact counts obeying conservation laws."""
from ..rules import counters, process, search

EXPLANATION = "tmp"


def check(ctx, prog):
    counters.rule_counters_bc(ctx, prog)
    counters.rule_counters_shaving(ctx, prog)
    counters.rule_counters_backtrack(ctx, prog)
    search.rule_solve_one(ctx, prog, want=("R-COUNTER",))
    counters.rule_counter_writers(ctx, prog, thorough=ctx.tier == "thorough")
    counters.rule_stats_map(ctx, prog)
    process.rule_marker_parent(ctx, prog)
