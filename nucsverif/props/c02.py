"""C02 -- enumeration yields each solution exactly once (structural clauses)."""
from ..rules import branching, engine, model, optimize, search, shaving, propagators, kinds, dispatch

EXPLANATION = (
    'Static analysis of the enumeration machinery: typestate over the generators solve / solve_and_queue (one search per iteration; a solution is delivered exactly once and followed by exactly one backtrack; the loop ends iff no solution or no alternative), solve_one (vector only under PROBLEM_BOUND, None only after a failed backtrack on an inconsistent state, heuristic answers handed over unmodified), partition algebra and event masks of all 5 registered value heuristics from the symbolic pre-state [lo,hi], and the push/pop/init oracle of the choice-point stack. Decides these shapes for all problems; not the equality of multisets across strategies. Also run here, because \'exactly the satisfying assignments, with every consistency algorithm\' needs them: the engine\'s soundness clauses (queue drain, write-back events and intersection, wake-up primitive, queue writers, wake-up table join, solution = shared + offset), the shaving rules (probe value, refutation test, restore arithmetic, re-propagation, progress) and \'a variable heuristic answers an element of decision_domains\'; min-cost scans the whole domain and its partition is decided under the contract that an admissible value exists. One filtering clause is decided here (R-SOLE-CANDIDATE): max_eq / min_eq count the variables that can still be the aggregate against the very bound of y they then force on the sole candidate (fix fd3e7f8: on the pinned tree the scan compared with the other bound and solutions were removed). Round 3: write-back completeness; index kinds; the shaving scan\'s cursor cannot move back. Round 4: the default decision set is the range over all shared domains (is_solved scans them all); the parts of split move with a translation of the domain. Round 6: R-AFFINE-BOUND (bounds derived by division), R-SOLE-CANDIDATE candidate-test-bypassed, R-POSTED-KEPT, the own-call clause of the wake-up table, the bound selector of shaving stays MIN / MAX, no division by a possibly-zero quantity behind a function pointer.'
)


def check(ctx, prog):
    dispatch.rule_status_exhaustive(ctx, prog)  # every status a consistency algorithm can answer is one solve_one's dispatch names
    dispatch.rule_swallowed_raise(ctx, prog)  # scope: no division by a possibly-zero quantity behind a function pointer (the error is discarded, the status is arbitrary)
    model.rule_posted_kept(ctx, prog)  # every posted constraint stays posted (who may write the list of constraints)
    search.rule_resume(ctx, prog)
    search.rule_sentinel(ctx, prog)  # scope: the answer of a variable heuristic is a decision domain
    search.rule_solve_one(ctx, prog, want=("R-SOLUTION", "R-HANDOVER"))
    branching.check_value_heuristics(ctx, prog)
    branching.check_choice_points(ctx, prog)
    # 'exactly the satisfying assignments, for every shipped consistency algorithm': the engine's soundness clauses and shaving
    engine.rule_queue_drain(ctx, prog)
    engine.rule_writeback(ctx, prog, want=("R-EVENTS-EXACT", "R-WRITEBACK-MONO", "R-ANNOUNCE"))
    engine.rule_wakeup(ctx, prog)
    engine.rule_queue_writers(ctx, prog, thorough=ctx.tier == "thorough")
    engine.rule_stack_writers(ctx, prog, thorough=ctx.tier == "thorough")  # incl. the initial queue of a new solver: a constraint never queued is never checked
    model.rule_trigger_join(ctx, prog)
    model.rule_optional_zero(ctx, prog)
    optimize.rule_offset_primitives(ctx, prog)
    shaving.rule_shave_bound(ctx, prog)
    shaving.rule_shaving_loop(ctx, prog)
    propagators.rule_sole_candidate(ctx, prog)  # the one filtering clause decided here: a 'sole candidate' is counted against the bound it is forced to
    propagators.rule_affine_bound(ctx, prog)  # the second: bounds derived by division (own contribution, side, sign, rounding)
    kinds.rule_index_kind(ctx, prog)  # a number is a variable index or a shared-domain index, not both
    kinds.rule_count_kind(ctx, prog)  # positions appended to the variable -> domain table are counted in the list of shared domains
    model.rule_split(ctx, prog)  # scope: the parts enumerated by the multiprocessing solver stay inside (and exactly cover) the declared domain
    model.rule_decision_cover(ctx, prog)
    optimize.rule_is_solved(ctx, prog)  # is_solved looks at every shared domain
