"""C02 -- enumeration yields each solution exactly once (structural clauses)."""
from ..rules import branching, search

EXPLANATION = "tmp"


def check(ctx, prog):
    search.rule_resume(ctx, prog)
    search.rule_solve_one(ctx, prog, want=("R-SOLUTION", "R-HANDOVER"))
    branching.check_value_heuristics(ctx, prog)
    branching.check_choice_points(ctx, prog)
