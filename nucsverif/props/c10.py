"""C10 -- shaving is a sound strengthening of bound consistency (structural clauses)."""
from ..rules import shaving, capacity, search, dispatch

EXPLANATION = (
    "Static analysis of shave_bound and the shaving loop with a summary of the propagation pass (stores only at its entry level): the stack pointer is left as found on all 4 paths; the probe is the single bound value on a temporary level, announced with the moved bound and GROUND on that level's flags row; 'shaved' is returned iff the probe's status is PROBLEM_INCONSISTENT; on the kept path the saved alternative equals the pre-probe domain, on the refuted path it is moved by exactly one; exactly one backtrack after the probe; an iteration following a successful shave starts with a propagation pass whose non-UNBOUND status is returned as is; the probed domain is the tested answer of the variable heuristic; a probe is made only when a level is free. Not equality with plain bound consistency results. Also: the probing loop's progress (no round without a probe, a failed probe advances the cursor/bound pair). Round 3: the scan cursor is set from an answer chosen among the decision domains whose value is >= the cursor; the scan stops on first_not_instantiated's 'none left' answer (sentinel clauses). Round 6: the bound selector handed to shave_bound stays MIN / MAX (inductive over the probing loop); no division by a possibly-zero quantity in the shaving algorithm (a ZeroDivisionError behind the function pointer is discarded and the status is arbitrary)."
)


def check(ctx, prog):
    dispatch.rule_status_exhaustive(ctx, prog)  # every status a consistency algorithm can answer is one solve_one's dispatch names
    dispatch.rule_swallowed_raise(ctx, prog)  # scope: no division by a possibly-zero quantity behind a function pointer (the error is discarded, the status is arbitrary)
    shaving.rule_shave_bound(ctx, prog)
    shaving.rule_shaving_loop(ctx, prog)
    capacity.rule_probe_guard(ctx, prog)
    search.rule_sentinel(ctx, prog)  # scope: the scan of the shaving loop stops on first_not_instantiated's 'none left' answer
    dispatch.rule_status_used(ctx, prog)  # the verdict of a consistency algorithm / filtering function is never dropped
