"""C10 -- shaving is a sound strengthening of bound consistency (structural clauses)."""
from ..rules import shaving, capacity

EXPLANATION = "tmp"


def check(ctx, prog):
    shaving.rule_shave_bound(ctx, prog)
    shaving.rule_shaving_loop(ctx, prog)
    capacity.rule_probe_guard(ctx, prog)
