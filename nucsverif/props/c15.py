"""C15 -- results are reproducible, mode-independent and independent of earlier solver use (structural clauses)."""
from ..rules import dispatch, model, optimize

EXPLANATION = (
    "Static analysis: for the 4 registries the interpreted branch REG[i] and the compiled branch function_from_address(TYPE_REG, addrs[i]) use the same registry, index, address array (traced from get_function_addresses through the 4 unpacking sites into solve_one's parameters) and argument list, and every member has the signature's arity; every argument carrying an engine array is bound to the parameter named after that array at all 225 resolved call edges; no module-level mutable object is written by a function other than a registry's append-only register_*; no global statement, nondeterminism source or environment dependence in library code; mutable default arguments are only read/copied; solver constructors do not write the problem; init() re-creates everything it derives. Not run-to-run equality itself. Also: Solver.__init__ calls problem.init() on every path with a problem; no memoising decorator or annotated module-level cache; a difference whose left operand is read from an unsigned engine array is never tested against a negative value (int64 when compiled, wraps when interpreted); the wake-up table is accumulated over zeros. Round 3: a sort of the constraints skipped under a flag requires every mutator of the constraint list to reset the flag; no raise behind a function pointer (interpreted mode raises, compiled mode carries on); the address arrays reach solve_one from get_function_addresses() in the calling function. Round 4: no solver code stores into the problem object; a sort whose order is observable is stable in both modes; a sentinel is never stored into a narrower cell. Round 6: the solver's configuration arrays are private copies of the caller's (np.asarray aliases); no bitwise complement of a scalar truth value in jitted code (~True is False when compiled, -2 when interpreted); no division by a possibly-zero quantity behind a function pointer (raises when compiled, inf / nan when interpreted)."
)


def check(ctx, prog):
    dispatch.rule_dispatch(ctx, prog)
    dispatch.rule_arg_roles(ctx, prog)
    dispatch.rule_global_state(ctx, prog)
    model.rule_init_coherence(ctx, prog)
    dispatch.rule_reinit(ctx, prog)
    optimize.rule_domain_source(ctx, prog)
    dispatch.rule_mode_arith(ctx, prog)
    dispatch.rule_swallowed_raise(ctx, prog)
    dispatch.rule_mode_sort(ctx, prog)
    dispatch.rule_sentinel_store(ctx, prog)
    model.rule_problem_readonly(ctx, prog)
