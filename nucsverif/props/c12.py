"""C12 -- splitting a problem partitions its search space (structural clauses)."""
from ..rules import model

EXPLANATION = "tmp"


def check(ctx, prog):
    model.rule_split(ctx, prog)
