"""C12 -- splitting a problem partitions its search space (structural clauses)."""
from ..rules import model, optimize, process, kinds, search, dispatch

EXPLANATION = (
    "Static analysis of Problem.split: the number of parts is provably bounded by the domain size before the loop (clamp), each part is a deep copy and the only store goes through the copy to shr_domains_lst[var_idx], consecutive parts are adjacent (next min = this max + 1, on every path of the size/remainder branch), the first part starts at the domain minimum. The identity 'last part ends at the maximum' is arithmetic, declared undecided. Now also decided: every return path returns a fresh list holding only deep copies made by the loop; the part sizes are s//k + [i < s%k] (threshold exact, off-by-constant is a violation), which by the lemma sum_{i<k}(q + [i<r]) = kq + r (lemmas/SplitSizes.lean) makes the last part end at the domain maximum. Also: the parent of the multiprocessing solver forwards every solution a part sent and records each part's completion marker (a part that finished is not reported dead); in-place narrowing of a part's domain list requires every writer of the domain list to store fresh lists. Round 3: copy / pickle hooks do not edit the original; the split variable is one index kind throughout; a part that is never started or wrongly taken for dead is missing from the union (spawn / marker clauses). Round 6: each part sends one completion marker, as its last message (a marker-shaped message sent early ends the collection of that part)."
)


def check(ctx, prog):
    model.rule_split(ctx, prog)
    optimize.rule_domain_source(ctx, prog)  # what split writes is what a solver reads
    process.rule_marker_parent(ctx, prog)  # scope: the parent delivers the union of the parts' solutions (forwarding, completion recorded)
    process.rule_marker_worker(ctx, prog)  # scope: one completion marker per part, as its last message (an early one ends the collection of that part)
    kinds.rule_count_kind(ctx, prog)
    kinds.rule_index_kind(ctx, prog)  # the split variable is one index kind throughout (what is read is what is written)
    search.rule_resume(ctx, prog)  # scope: a worker delivers every solution of its part exactly once
    dispatch.rule_global_state(ctx, prog)  # scope: no state shared between the solvers of the parts
    process.rule_queue_lossless(ctx, prog)
    model.rule_parts_used(ctx, prog)
