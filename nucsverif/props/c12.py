"""C12 -- splitting a problem partitions its search space (structural clauses)."""
from ..rules import model, optimize

EXPLANATION = (
    "Static analysis of Problem.split: the number of parts is provably bounded by the domain size before the loop (clamp), each part is a deep copy and the only store goes through the copy to shr_domains_lst[var_idx], consecutive parts are adjacent (next min = this max + 1, on every path of the size/remainder branch), the first part starts at the domain minimum. The identity 'last part ends at the maximum' is arithmetic, declared undecided. Now also decided: every return path returns a fresh list holding only deep copies made by the loop; the part sizes are s//k + [i < s%k] (threshold exact, off-by-constant is a violation), which by the lemma sum_{i<k}(q + [i<r]) = kq + r (lemmas/SplitSizes.lean) makes the last part end at the domain maximum."
)


def check(ctx, prog):
    model.rule_split(ctx, prog)
    optimize.rule_domain_source(ctx, prog)  # what split writes is what a solver reads
