"""C04 -- propagation and search terminate on every finite problem (structural clauses)."""
from ..rules import engine, search

EXPLANATION = "tmp"


def check(ctx, prog):
    engine.rule_writeback(ctx, prog, want=("R-EVENTS-EXACT", "R-WRITEBACK-MONO"))
    search.rule_sentinel(ctx, prog)
