"""C04 -- propagation and search terminate on every finite problem (structural clauses)."""
from ..rules import engine, search, variants, branching, optimize, scratch, shaving, dispatch

EXPLANATION = (
    "Static analysis of the progress measures: no event is announced by the write-back without a strict shrink of a stored bound (R-EVENTS-EXACT, R-WRITEBACK-MONO), so a propagator is re-queued only after progress; each registered variable heuristic answers the 'nothing to branch on' value only when no decision domain is open (first-iteration-state analysis + Houdini order invariants); every `while` loop of jitted code gets a derived termination argument (guard quantity strictly decreasing, monotone pointer chase, guarded counter sum) or is listed as undecided with its reason; every branch of every value heuristic strictly shrinks the domain. Not termination of the Hall-interval pointer chases (listed). Also: the optimisation loop's termination clauses (reset before tighten, strict move past the incumbent, emptiness guard); the shaving loop's variant (an iteration that goes round again has probed; a failed probe advances the (cursor, bound) pair); gcc's preconditions (R-HALL-PRECOND: a variable whose bounds were moved before the ranking never reaches it with crossed bounds; every one of the four sibling passes that merges an interval when its capacity reaches zero singles out, when it initialises its pointers, the intervals whose capacity is zero from the start -- fixes 0d60ece, a67ad7b); min-cost branches on a scanned value of the whole domain. Round 3: every value heuristic pushes on every path (also for an instantiated domain); the shaving scan is given the decision domains whose value is >= the cursor; no raise in the call-graph closure of the value / variable heuristics (the push primitive's provably dead defensive check excepted)."
)


def check(ctx, prog):
    engine.rule_writeback(ctx, prog, want=("R-EVENTS-EXACT", "R-WRITEBACK-MONO"))
    search.rule_sentinel(ctx, prog)
    variants.rule_loop_variants(ctx, prog)
    branching.check_value_heuristics(ctx, prog)
    optimize.rule_tighten(ctx, prog)
    optimize.rule_offset_primitives(ctx, prog)
    shaving.rule_shaving_loop(ctx, prog)
    scratch.rule_hall_precondition(ctx, prog)
    scratch.rule_hall_intervals(ctx, prog)
    dispatch.rule_swallowed_raise(ctx, prog)
