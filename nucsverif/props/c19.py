"""C19 -- exceeding a configured capacity is reported, never silently corrupting (structural clauses)."""
from ..rules import capacity, dispatch, process, search

EXPLANATION = (
    "Static analysis of capacity guards: the constructor path that allocates the stacks entails 1 <= stack_max_height <= 2^bits of the level pointer's dtype; before the indirect value-heuristic call solve_one's path facts entail top + P < len(stack) with P the largest net push of any registered value heuristic (derived: 2); the shaving probe is reached only under top + 1 < len(stack). uint16 cumulative constraint offsets are listed as undecided (NumPy raises on the inconsistent slice, not claimed). Also: no index array is produced by a wrapping conversion to an 8/16-bit type (astype, array-of-array) -- np.array(list, dtype=narrow) raises on overflow. Round 3: an assert is no refusal (stripped under python -O); the overflow is reported from solve_one itself (a check in the push primitive is behind a function pointer); one integer width for all arrays carrying shared-domain indices. Round 4: an error raised by the search is not replaced by a normal return (no exit inside finally, no swallowed search error); a value taken from a NumPy array is not narrowed by an unchecked conversion. Round 6: R-VALUE-WIDTH (an offset beyond a narrower copy's range is stored modulo 2**bits without an error)."
)


def check(ctx, prog):
    dispatch.rule_status_exhaustive(ctx, prog)  # every status a consistency algorithm can answer is one solve_one's dispatch names
    capacity.rule_value_width(ctx, prog)  # domain values and view offsets have one integer type in all arrays that carry them
    capacity.rule_stack_height(ctx, prog, want=("R-CAPACITY",))
    search.rule_solve_one(ctx, prog, want=("R-CAPACITY",))
    capacity.rule_probe_guard(ctx, prog)
    capacity.rule_narrow_convert(ctx, prog)
    process.rule_marker_worker(ctx, prog)  # scope: a worker whose search overflowed does not announce completion
    dispatch.rule_mode_arith(ctx, prog)  # scope: the capacity guards hold in both execution modes
    dispatch.rule_swallowed_raise(ctx, prog)
    capacity.rule_index_width(ctx, prog)  # the arrays that carry shared-domain indices have one integer type
    capacity.rule_error_propagates(ctx, prog)
