"""C19 -- exceeding a configured capacity is reported, never silently corrupting (structural clauses)."""
from ..rules import capacity, search

EXPLANATION = "tmp"


def check(ctx, prog):
    capacity.rule_stack_height(ctx, prog, want=("R-CAPACITY",))
    search.rule_solve_one(ctx, prog, want=("R-CAPACITY",))
    capacity.rule_probe_guard(ctx, prog)
