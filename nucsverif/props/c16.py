"""C16 -- no in-contract input makes the engine read or write outside its arrays (structural clauses)."""
from ..rules import bounds, capacity, search

EXPLANATION = (
    "Static analysis: 27 computed-index accesses (clamped element indices, range/enumerate loops over views, scc) are proved within their extent from path facts by Fourier-Motzkin; losing one of these proofs is a violation; 18 value-dependent sites are listed as undecided with a reason. Allocation-shape agreement of the three stacks, queue and flags; the stack height fits the 8-bit level pointer; value heuristics (max net push derived = 2) and the shaving probe are guarded by top + P < len(stack). The Hall-interval propagators' pointer arrays are not decided."
)


def check(ctx, prog):
    bounds.rule_extents(ctx, prog)
    bounds.rule_narrow_scratch(ctx, prog)
    capacity.rule_stack_height(ctx, prog, want=("R-SHAPES", "R-CAPACITY"))
    search.rule_solve_one(ctx, prog, want=("R-CAPACITY",))
    capacity.rule_probe_guard(ctx, prog)
