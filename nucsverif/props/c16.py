"""C16 -- no in-contract input makes the engine read or write outside its arrays (structural clauses)."""
from ..rules import model, shaving, bounds, capacity, dispatch, scratch, search, kinds

EXPLANATION = (
    "Static analysis: (1) 27 computed-index accesses of the simple propagators and queue primitives (clamped element indices, range/enumerate loops over views, scc) are proved within their extent from path facts by Fourier-Motzkin; losing one of these proofs is a violation; 18 value-dependent sites are listed as undecided with a reason. (2) R-SCRATCH, assume/guarantee over the Hall-interval propagators (alldifferent, gcc): the caller is interpreted without inlining, every helper is then interpreted under exactly the array shapes the caller allocates (2n+2, (n,2), (2,m+6), argsort results = permutations of 0..n-1) and the contract 0 <= nb <= 2n of update_bounds, itself established by inductive invariants (nb <= i+j, i <= n, j <= n-1); every subscript whose index is a shape quantity (loop indices, counters, scalar parameters, permutation elements) must be provably inside its array (about 120 sites); subscripts indexed by pointer-array contents (t[z], h[x], sets[...], ranks[...] values) are listed as undecided. (3) Allocation-shape agreement of the three stacks, queue and flags; the stack height fits the 8-bit level pointer; value heuristics (max net push derived = 2) and the shaving probe are guarded by top + P < len(stack). R-EXTENT and R-SCRATCH keep no table of source texts: an index made of loop indices, counters, lengths and permutation elements is a shape index and must be proved; sentinel-initialised selections, counters of data-driven loops and indices bounded by another parameter array's length are classified structurally as undecided. Round 3: a cell clamped to a list's index range is not used as an index of that list before the clamp; example kernels: a value-driven index tested against the size of its array must be proved below it; index kinds. Round 6: the bound selector of shaving stays in the extent of the bound axis; a scalar parameter that a caller starts from a negative sentinel does not index an array on a path that does not exclude it; an index applied to a slice of a cost table is resolved to its absolute column and held to the scanned range."
)


def check(ctx, prog):
    bounds.rule_extents(ctx, prog)
    bounds.rule_narrow_scratch(ctx, prog)
    bounds.rule_clamp_order(ctx, prog)
    scratch.rule_scratch(ctx, prog)
    scratch.rule_call_chains(ctx, prog)
    scratch.rule_example_kernels(ctx, prog)
    capacity.rule_stack_height(ctx, prog, want=("R-SHAPES", "R-CAPACITY"))
    search.rule_solve_one(ctx, prog, want=("R-CAPACITY",))
    capacity.rule_probe_guard(ctx, prog)
    search.rule_cost_table(ctx, prog)
    dispatch.rule_mode_arith(ctx, prog)  # scope: the capacity guards hold in both execution modes
    shaving.rule_shaving_loop(ctx, prog)  # scope: the bound selector handed to shave_bound stays MIN / MAX (it indexes an axis of extent 2)
    kinds.rule_index_kind(ctx, prog)  # a number is a variable index or a shared-domain index, not both
    kinds.rule_count_kind(ctx, prog)  # ... and a count of variables is not a count of shared domains (positions appended to the variable -> domain table)
    model.rule_init_coherence(ctx, prog)  # scope: the wake-up table has one row per shared domain (clause triggers-extent only)
