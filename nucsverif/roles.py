"""Interprocedural role propagation ("which engine array reaches which parameter").

Seeds are the attributes of the solver / problem objects (self.shr_domains_stack,
self.problem.triggers, ...).  Roles flow through positional / keyword arguments of every
resolvable call: direct calls, and indirect calls through a registry (the callee set is
the registry's member list).  The result maps (function, parameter) -> set of roles and
records every call edge, so rules can (a) enumerate all writers of an engine array
whatever the parameter is called locally, (b) detect an argument bound to a parameter of
another role."""
from __future__ import annotations

import ast
from dataclasses import dataclass, field
from typing import Any, Dict, List, Optional, Set, Tuple

from .program import FuncInfo, Program


@dataclass
class CallEdge:
    caller: FuncInfo
    callee: FuncInfo
    node: ast.Call
    via: str  # "direct" | registry list name
    arg_roles: List[Set[str]] = field(default_factory=list)  # per callee parameter position
    arg_src: List[str] = field(default_factory=list)


class Roles:
    def __init__(self, prog: Program, seed_classes: Tuple[str, ...] = ("BacktrackSolver", "MultiprocessingSolver", "Solver", "Problem")):
        self.prog = prog
        self.roles: Dict[str, Dict[str, Set[str]]] = {}
        self.edges: List[CallEdge] = []
        self.local_regs: Dict[str, Dict[str, str]] = {}  # fq -> local name -> registry list
        self._compute()

    # ------------------------------------------------------------------ helpers
    def of(self, fn: FuncInfo, param: str) -> Set[str]:
        return self.roles.get(fn.fq, {}).get(param, set())

    def params_with_role(self, fn: FuncInfo, role: str) -> List[str]:
        return [p for p in fn.params if role in self.of(fn, p)]

    def functions_with_role(self, role: str) -> List[Tuple[FuncInfo, str]]:
        out = []
        for f in self.prog.all_functions():
            for p in f.params:
                if role in self.of(f, p):
                    out.append((f, p))
        return out

    def _registry_locals(self, fn: FuncInfo) -> Dict[str, str]:
        """local name -> registry list name, for `x = REG[i]` / `x = REG[i] if .. else function_from_address(..)`."""
        out: Dict[str, str] = {}
        regs = {nm for (_, nm) in self.prog.registries}
        addr_params = {}  # address-array parameter -> registry (by build_function_address_list order), filled by dispatch rule
        for n in ast.walk(fn.node):
            if isinstance(n, ast.Assign) and len(n.targets) == 1 and isinstance(n.targets[0], ast.Name):
                for sub in ast.walk(n.value):
                    if isinstance(sub, ast.Subscript) and isinstance(sub.value, ast.Name) and sub.value.id in regs:
                        out[n.targets[0].id] = sub.value.id
        return out

    def expr_roles(self, fn: FuncInfo, e: ast.expr, env: Dict[str, Set[str]]) -> Set[str]:
        if isinstance(e, ast.Name):
            if e.id in env:
                return set(env[e.id])
            r = self.prog.resolve(fn.module, e.id)
            if r and r[0] == "func":
                return {"fn:" + r[1].fq}
            return set()
        if isinstance(e, ast.Attribute):
            # self.x / self.problem.x / problem.x
            chain = []
            cur: ast.expr = e
            while isinstance(cur, ast.Attribute):
                chain.append(cur.attr)
                cur = cur.value
            if isinstance(cur, ast.Name) and cur.id in ("self", "problem", "solver"):
                return {chain[0]}
            return set()
        if isinstance(e, ast.Subscript):
            base = self.expr_roles(fn, e.value, env)
            return {r if r.endswith("[]") else r + "[]" for r in base}
        if isinstance(e, ast.Call) and isinstance(e.func, ast.Attribute) and e.func.attr in ("array", "copy", "asarray"):
            if e.args:
                return self.expr_roles(fn, e.args[0], env)
        return set()

    def _compute(self) -> None:
        prog = self.prog
        fns = prog.all_functions()
        for f in fns:
            self.roles[f.fq] = {p: set() for p in f.params}
            self.local_regs[f.fq] = self._registry_locals(f)
        # collect call sites once
        sites: List[Tuple[FuncInfo, ast.Call, List[Tuple[FuncInfo, str]]]] = []
        for f in fns:
            for n in ast.walk(f.node):
                if not isinstance(n, ast.Call):
                    continue
                callees: List[Tuple[FuncInfo, str]] = []
                if isinstance(n.func, ast.Name):
                    nm = n.func.id
                    if nm in self.local_regs[f.fq]:
                        reg = prog.registry(self.local_regs[f.fq][nm])
                        for ent in list(reg.entries) + list(reg.extra):
                            if isinstance(ent, FuncInfo):
                                callees.append((ent, reg.list_name))
                    elif nm in f.params:
                        callees.append((None, "param:" + nm))  # resolved during propagation
                    else:
                        r = prog.resolve(f.module, nm)
                        if r and r[0] == "func":
                            callees.append((r[1], "direct"))
                elif isinstance(n.func, ast.Attribute) and isinstance(n.func.value, ast.Name) and n.func.value.id == "self" and f.cls:
                    m = prog.modules[f.module].classes.get(f.cls, {}).get(n.func.attr)
                    if m is not None:
                        callees.append((m, "direct"))
                if callees:
                    sites.append((f, n, callees))
        # propagate to a fixpoint
        for _ in range(12):
            changed = False
            self.edges = []
            for f, n, callees in sites:
                env: Dict[str, Set[str]] = {p: set(self.roles[f.fq][p]) for p in f.params}
                # locals assigned from roleful expressions (single pass, source order)
                for st in ast.walk(f.node):
                    if isinstance(st, ast.Assign) and len(st.targets) == 1 and isinstance(st.targets[0], ast.Name):
                        rr = self.expr_roles(f, st.value, env)
                        if rr and st.targets[0].id not in f.params:
                            env.setdefault(st.targets[0].id, set()).update(rr)
                resolved: List[Tuple[FuncInfo, str]] = []
                for callee, via in callees:
                    if callee is None:
                        for role in self.roles[f.fq].get(via[6:], set()):
                            if role.startswith("fn:"):
                                mod, qn = role[3:].split(":", 1)
                                try:
                                    resolved.append((prog.func(mod, qn), via))
                                except Exception:
                                    pass
                    else:
                        resolved.append((callee, via))
                for callee, via in resolved:
                    ps = callee.params
                    offset = 1 if (callee.cls and ps and ps[0] == "self") else 0
                    edge = CallEdge(f, callee, n, via, [set() for _ in ps], ["" for _ in ps])
                    for i, a in enumerate(n.args):
                        j = i + offset
                        if j < len(ps):
                            rr = self.expr_roles(f, a, env)
                            edge.arg_roles[j] = rr
                            edge.arg_src[j] = ast.unparse(a)
                    for kw in n.keywords:
                        if kw.arg in ps:
                            j = ps.index(kw.arg)
                            edge.arg_roles[j] = self.expr_roles(f, kw.value, env)
                            edge.arg_src[j] = ast.unparse(kw.value)
                    self.edges.append(edge)
                    for j, rr in enumerate(edge.arg_roles):
                        tgt = self.roles[callee.fq][ps[j]]
                        new = rr - tgt
                        if new:
                            tgt.update(new)
                            changed = True
            if not changed:
                break


def get_roles(prog: Program) -> Roles:
    r = getattr(prog, "_roles", None)
    if r is None:
        r = Roles(prog)
        prog._roles = r  # type: ignore[attr-defined]
    return r
