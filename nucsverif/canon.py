"""Behaviour-preserving canonicalisation applied to every module right after parsing, so that every rule reads one spelling of a test.

  not (a < b)                ->  a >= b        (single two-operand comparison; the operands are integers or None throughout this package)
  c = <test>; if c: ...      ->  if <test>: ...   (c a boolean temporary: assigned once, read once, by the very next statement's test)
  c = <test>; if not c: ...  ->  if not <test>: ...

  if c: ...; return  else: S ->  if c: ...; return   followed by S   (likewise continue / break / raise: an else after a branch that leaves is flattened)

All rewrites keep the meaning of the program; node positions are those of the original test, so reports still name the source line."""
from __future__ import annotations

import ast
from typing import Dict, List

_NEG = {ast.Lt: ast.GtE, ast.Gt: ast.LtE, ast.LtE: ast.Gt, ast.GtE: ast.Lt, ast.Eq: ast.NotEq, ast.NotEq: ast.Eq,
        ast.Is: ast.IsNot, ast.IsNot: ast.Is, ast.In: ast.NotIn, ast.NotIn: ast.In}


class _NotCmp(ast.NodeTransformer):
    def visit_UnaryOp(self, n: ast.UnaryOp):
        self.generic_visit(n)
        if isinstance(n.op, ast.Not) and isinstance(n.operand, ast.Compare) and len(n.operand.ops) == 1 and type(n.operand.ops[0]) in _NEG:
            c = n.operand
            return ast.copy_location(ast.Compare(left=c.left, ops=[_NEG[type(c.ops[0])]()], comparators=c.comparators), c)
        return n


def _inline_bool_temps(fn: ast.AST) -> None:
    loads: Dict[str, int] = {}
    stores: Dict[str, int] = {}
    for x in ast.walk(fn):
        if isinstance(x, ast.Name):
            d = stores if isinstance(x.ctx, (ast.Store, ast.Del)) else loads
            d[x.id] = d.get(x.id, 0) + 1
        elif isinstance(x, (ast.Global, ast.Nonlocal)):
            for nm in x.names:
                stores[nm] = stores.get(nm, 0) + 2
        elif isinstance(x, ast.arg):
            stores[x.arg] = stores.get(x.arg, 0) + 2

    def block(stmts: List[ast.stmt]) -> List[ast.stmt]:
        out: List[ast.stmt] = []
        i = 0
        while i < len(stmts):
            st = stmts[i]
            nxt = stmts[i + 1] if i + 1 < len(stmts) else None
            if isinstance(st, ast.Assign) and len(st.targets) == 1 and isinstance(st.targets[0], ast.Name) and isinstance(st.value, (ast.Compare, ast.BoolOp, ast.UnaryOp)) \
                    and isinstance(nxt, (ast.If, ast.While)) is True and isinstance(nxt, ast.If):
                nm = st.targets[0].id
                t = nxt.test
                neg = isinstance(t, ast.UnaryOp) and isinstance(t.op, ast.Not)
                core = t.operand if neg else t
                if isinstance(core, ast.Name) and core.id == nm and loads.get(nm, 0) == 1 and stores.get(nm, 0) == 1 \
                        and not (isinstance(st.value, ast.UnaryOp) and not isinstance(st.value.op, ast.Not)):
                    nxt.test = ast.copy_location(ast.UnaryOp(op=ast.Not(), operand=st.value), st.value) if neg else st.value
                    i += 1
                    continue
            out.append(st)
            i += 1
        return out

    for x in ast.walk(fn):
        for fld in ("body", "orelse", "finalbody"):
            v = getattr(x, fld, None)
            if isinstance(v, list) and v and isinstance(v[0], ast.stmt):
                setattr(x, fld, block(v))
        for h in getattr(x, "handlers", []) or []:
            h.body = block(h.body)


def _flatten_else_after_exit(tree: ast.AST) -> None:
    def block(stmts: List[ast.stmt]) -> List[ast.stmt]:
        out: List[ast.stmt] = []
        for st in stmts:
            out.append(st)
            if isinstance(st, ast.If) and st.orelse and st.body and isinstance(st.body[-1], (ast.Return, ast.Continue, ast.Break, ast.Raise)):
                rest = st.orelse
                st.orelse = []
                out.extend(block(rest))
        return out

    for x in ast.walk(tree):
        for fld in ("body", "orelse", "finalbody"):
            v = getattr(x, fld, None)
            if isinstance(v, list) and v and isinstance(v[0], ast.stmt):
                setattr(x, fld, block(v))
        for h in getattr(x, "handlers", []) or []:
            h.body = block(h.body)


def _neg(e: ast.expr) -> ast.expr:
    if isinstance(e, ast.Compare) and len(e.ops) == 1 and type(e.ops[0]) in _NEG:
        return ast.copy_location(ast.Compare(left=e.left, ops=[_NEG[type(e.ops[0])]()], comparators=e.comparators), e)
    if isinstance(e, ast.UnaryOp) and isinstance(e.op, ast.Not):
        return e.operand
    return ast.copy_location(ast.UnaryOp(op=ast.Not(), operand=e), e)


def _demorgan_exits(tree: ast.AST) -> None:
    """if A or B: <leave>   ->   if not (not A and not B): <leave>      (<leave> = a lone continue / break / return / raise, no else)
    The guard-clause spelling of `if notA and notB: <rest of the block>`; the rules read the conjunction (as they do for the other spelling)."""
    for x in ast.walk(tree):
        if isinstance(x, ast.If) and not x.orelse and len(x.body) == 1 and isinstance(x.body[0], (ast.Continue, ast.Break, ast.Return, ast.Raise)) \
                and isinstance(x.test, ast.BoolOp) and isinstance(x.test.op, ast.Or):
            conj = ast.copy_location(ast.BoolOp(op=ast.And(), values=[_neg(v) for v in x.test.values]), x.test)
            x.test = ast.copy_location(ast.UnaryOp(op=ast.Not(), operand=conj), x.test)


def canonicalise(tree: ast.Module) -> ast.Module:
    _demorgan_exits(tree)
    _flatten_else_after_exit(tree)
    for x in ast.walk(tree):
        if isinstance(x, (ast.FunctionDef, ast.AsyncFunctionDef)):
            _inline_bool_temps(x)
    tree = _NotCmp().visit(tree)
    ast.fix_missing_locations(tree)
    return tree
