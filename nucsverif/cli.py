"""Command line: python -m nucsverif check <property id> [--tier quick|thorough] [--repo /repo]"""
from __future__ import annotations

import argparse
import importlib
import os
import sys
import traceback

from . import REPO_DEFAULT
from .core import Ctx, finish
from .program import AnalysisError, Program


def _guard_rules() -> None:
    """Every rule entry point (rules.*.rule_* / check_*) called with a Ctx records an AnalysisError on that Ctx instead of aborting the whole
    check: a rule that can no longer read the code must not hide a definite violation found by another rule (exit 1 wins over exit 2)."""
    import functools
    import pkgutil

    from . import rules as rules_pkg

    for mi in pkgutil.iter_modules(rules_pkg.__path__):
        m = importlib.import_module(f"nucsverif.rules.{mi.name}")
        for name in dir(m):
            fn = getattr(m, name)
            if callable(fn) and (name.startswith("rule_") or name.startswith("check_")) and getattr(fn, "__module__", None) == m.__name__ \
                    and not getattr(fn, "_guarded", False):
                def make(f):
                    @functools.wraps(f)
                    def wrapper(*a, **k):
                        ctx = a[0] if a and isinstance(a[0], Ctx) else None
                        try:
                            return f(*a, **k)
                        except AnalysisError as e:
                            if ctx is None:
                                raise
                            ctx.analysis_errors.append(str(e))
                            return None
                    wrapper._guarded = True  # type: ignore[attr-defined]
                    return wrapper
                setattr(m, name, make(fn))


def run_check(prop: str, tier: str, repo: str) -> int:
    try:
        _guard_rules()
        mod = importlib.import_module(f"nucsverif.props.{prop.lower()}")
    except ModuleNotFoundError:
        print(f"ANALYSIS-ERROR property={prop}: no check registered")
        return 2
    try:
        extra = ("tests",) if tier == "thorough" and getattr(mod, "WANTS_TESTS", False) else ()
        prog = Program(repo, extra_dirs=extra)
        ctx = Ctx(prog, prop, tier, repo)
        mod.check(ctx, prog)
        rc = finish(ctx, mod.EXPLANATION)
        if rc == 0 and tier == "thorough" and not os.environ.get("NUCSVERIF_NO_SELFTEST"):
            from .selftest import run_selftest

            rc = run_selftest(prop, mod, repo)
        return rc
    except AnalysisError as e:
        print(f"ANALYSIS-ERROR property={prop}: {e}")
        return 2
    except Exception:
        traceback.print_exc()
        print(f"ANALYSIS-ERROR property={prop}: internal error in the analyser (see traceback)")
        return 2


def main(argv=None) -> int:
    ap = argparse.ArgumentParser(prog="nucsverif")
    sub = ap.add_subparsers(dest="cmd", required=True)
    c = sub.add_parser("check")
    c.add_argument("prop")
    c.add_argument("--tier", default=os.environ.get("VERIF_TIER", "quick"), choices=["quick", "thorough"])
    c.add_argument("--repo", default=os.environ.get("NUCS_REPO", REPO_DEFAULT))
    r = sub.add_parser("replay")
    r.add_argument("path")
    r.add_argument("--repo", default=os.environ.get("NUCS_REPO", REPO_DEFAULT))
    a = ap.parse_args(argv)
    if a.cmd == "check":
        return run_check(a.prop.upper(), a.tier, a.repo)
    if a.cmd == "replay":
        import json

        with open(a.path) as f:
            rec = json.load(f)
        return run_check(rec["property"], rec.get("tier", "quick"), a.repo)
    return 2
