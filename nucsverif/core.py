"""Check context: obligations, violations, known findings, evidence, exit codes."""
from __future__ import annotations

import json
import os
import sys
import time
from dataclasses import dataclass, field
from typing import Any, Dict, List, Optional, Tuple

from .program import AnalysisError, Program
from .scope import in_scope

VERIF = os.path.dirname(os.path.dirname(os.path.abspath(__file__)))


@dataclass
class Finding:
    rule: str
    key: str  # rule|file|function|construct  (no line numbers)
    loc: str  # file:line (diagnostic only)
    message: str
    detail: Dict[str, Any] = field(default_factory=dict)


class Ctx:
    def __init__(self, prog: Program, prop: str, tier: str, repo: str):
        self.prog = prog
        self.prop = prop
        self.tier = tier
        self.repo = repo
        self.t0 = time.time()
        self.findings: List[Finding] = []
        self.obligations: List[Tuple[str, str, bool, bool]] = []  # (rule, instance, discharged, nontrivial)
        self.samples: List[Any] = []
        self.undecided: List[Dict[str, str]] = []
        self.floors: List[Tuple[str, int, int]] = []  # (rule, found, minimum)
        self.assumptions: List[str] = []
        self.functions: set = set()
        self.notes: List[str] = []
        self.rules_run: List[str] = []
        self.extra: Dict[str, Any] = {"front_end": {
            "canonicalisation": "negated comparisons, boolean temporaries, else-after-exit, disjunctive guard clauses (nucsverif/canon.py)",
            "inlined_new_helpers": list(getattr(prog, "inlined_helpers", [])),
            "inlining_rule": "functions / methods whose names the reference tree does not have are inlined at their call sites before the rules run (nucsverif/inline.py); identity on the reference tree"}}
        self.out_of_scope: List[Dict[str, str]] = []
        self.analysis_errors: List[str] = []  # rules that could not read the code (exit 2 unless another rule reports a definite violation)

    # -- recording -----------------------------------------------------------
    def ok(self, rule: str, instance: str, nontrivial: bool = True, sample: Any = None) -> None:
        self.obligations.append((rule, instance, True, nontrivial))
        if sample is not None and sum(1 for s in self.samples if s.get("rule") == rule) < 3:
            self.samples.append({"rule": rule, "instance": instance, "facts": sample})

    def violation(self, rule: str, file: str, function: str, construct: str, loc: str, message: str, **detail: Any) -> None:
        key = f"{rule}|{file}|{function}|{construct}"
        if not in_scope(self.prop, rule, function, construct, file):
            # a genuine rule failure, but not a necessary condition of THIS property (see scope.py): reported by the properties it belongs to
            if not any(o["key"] == key for o in self.out_of_scope):
                self.out_of_scope.append({"key": key, "loc": loc, "message": message})
            return
        self.obligations.append((rule, f"{function}:{construct}", False, True))
        if any(f.key == key for f in self.findings):
            return
        self.findings.append(Finding(rule, key, loc, message, detail))

    def undecided_site(self, rule: str, instance: str, reason: str) -> None:
        self.undecided.append({"rule": rule, "instance": instance, "reason": reason})

    def floor(self, rule: str, found: int, minimum: int) -> None:
        self.floors.append((rule, found, minimum))

    def fn(self, *fqs: str) -> None:
        self.functions.update(fqs)

    def assume(self, text: str) -> None:
        if text not in self.assumptions:
            self.assumptions.append(text)

    def rule(self, name: str) -> None:
        if name not in self.rules_run:
            self.rules_run.append(name)


def load_known() -> Dict[str, Any]:
    path = os.path.join(VERIF, "known_findings.json")
    if not os.path.exists(path):
        return {"known": [], "fixed": []}
    with open(path) as f:
        return json.load(f)


def finish(ctx: Ctx, level_explanation: str, out=sys.stdout) -> int:
    """Print the verdict, write evidence and replays, return the exit code."""
    known = load_known()
    known_keys = {(k["property"], k["key"]): k for k in known.get("known", [])}
    violations: List[Finding] = []
    known_hits: List[Tuple[Finding, Dict[str, Any]]] = []
    for f in ctx.findings:
        k = known_keys.get((ctx.prop, f.key))
        if k is not None:
            known_hits.append((f, k))
        else:
            violations.append(f)
    OUT = os.environ.get("NUCSVERIF_OUT") or VERIF  # self-tests / patch evaluation redirect their output
    os.makedirs(os.path.join(OUT, "replays"), exist_ok=True)
    os.makedirs(os.path.join(OUT, "evidence"), exist_ok=True)
    for f, k in known_hits:
        print(f"KNOWN-FINDING: property={ctx.prop} {k.get('what', f.message)} [{f.key}]", file=out)
    replay_paths = []
    for o in ctx.out_of_scope:
        print(f"NOTE property={ctx.prop}: a rule instance outside this property's scope fails (reported by the properties it is a necessary condition of): {o['key']}", file=out)
    for i, f in enumerate(violations):
        rp = os.path.join(OUT, "replays", f"{ctx.prop}-{f.rule}-{i}.json")
        with open(rp, "w") as fh:
            json.dump({"property": ctx.prop, "rule": f.rule, "key": f.key, "loc": f.loc, "message": f.message,
                       "detail": _jsonable(f.detail), "tier": ctx.tier}, fh, indent=1)
        replay_paths.append(rp)
        print(f"  {f.loc}: [{f.rule}] {f.message}  <{f.key}>", file=out)
        print(f"VIOLATION property={ctx.prop} replay={rp}", file=out)
    floor_fail = [(r, n, m) for r, n, m in ctx.floors if n < m]
    # an instance count that drops because the code was restructured, while the same rule reports a definite failure that belongs to another
    # property's scope, is not an analyser problem for THIS property: the owning property reports the violation
    oos_rules = {o["key"].split("|")[0] for o in ctx.out_of_scope}
    floor_fail = [(r, n, m) for r, n, m in floor_fail if r.split(":")[0] not in oos_rules]
    n_obl = len(ctx.obligations)
    n_dis = sum(1 for o in ctx.obligations if o[2])
    distinct_nt = len({(o[0], o[1]) for o in ctx.obligations if o[3]})
    wall = time.time() - ctx.t0
    ev = {
        "property_id": ctx.prop,
        "tier": ctx.tier,
        "seed": int(os.environ.get("VERIF_SEED", "0") or 0),
        "level": "other",
        "coverage": {
            "explanation": level_explanation,
            "evaluations": max(1, n_obl),
            "distinct_nontrivial": distinct_nt,
            "rule": "one evaluation per rule instance (obligation) derived from the current source; an instance is "
            "non-trivial when the rule had to inspect at least one store, call, branch or return to decide it; "
            "distinct = distinct (rule, function:construct) pairs",
            "obligations": n_obl,
            "discharged": n_dis,
            "samples": ctx.samples[:12] if ctx.samples else [{"note": "no sample recorded"}],
            "rules": ctx.rules_run,
            "functions_analysed": sorted(ctx.functions),
            "modules_parsed": len(ctx.prog.modules),
            "instance_floors": [{"rule": r, "found": n, "minimum": m} for r, n, m in ctx.floors],
            "undecided_listed_not_claimed": ctx.undecided[:80],
            "known_findings_reported": [f.key for f, _ in known_hits],
            "violations": [{"key": f.key, "loc": f.loc, "message": f.message} for f in violations],
            "out_of_scope_findings": ctx.out_of_scope,
            "analysis_errors": ctx.analysis_errors,
            "checker_cmd": f"/venv/bin/python -m nucsverif check {ctx.prop} --tier {ctx.tier}",
            "trusted_base": ["CPython ast module", "nucsverif program model / abstract interpreter", "rule tables under /verif/nucsverif/props"],
            "exhaustive": True,
            **ctx.extra,
        },
        "assumptions": ctx.assumptions,
        "wall_s": round(wall, 3),
        "violations": len(violations),
    }
    with open(os.path.join(OUT, "evidence", f"{ctx.prop}.json"), "w") as fh:
        json.dump(_jsonable(ev), fh, indent=1)
    if violations:
        for a in ctx.analysis_errors:
            print(f"NOTE property={ctx.prop}: a rule could not read the code (would be exit 2 on its own): {a}", file=out)
        return 1
    if ctx.analysis_errors:
        for a in ctx.analysis_errors:
            print(f"ANALYSIS-ERROR property={ctx.prop}: {a}", file=out)
        return 2
    if floor_fail:
        for r, n, m in floor_fail:
            print(f"ANALYSIS-ERROR property={ctx.prop} rule {r}: {n} instances found, at least {m} confirmed by hand "
                  f"on the pinned tree (an anchor vanished or the model no longer matches the code)", file=out)
        return 2
    print(f"OK property={ctx.prop} tier={ctx.tier} obligations={n_obl} discharged={n_dis} "
          f"known_findings={len(known_hits)} functions={len(ctx.functions)} wall={wall:.2f}s", file=out)
    return 0


def _jsonable(x: Any) -> Any:
    if isinstance(x, dict):
        return {str(k): _jsonable(v) for k, v in x.items()}
    if isinstance(x, (list, tuple, set)):
        return [_jsonable(v) for v in x]
    if isinstance(x, (str, int, float, bool)) or x is None:
        return x
    return str(x)
