"""Which rule instances are necessary conditions of which property.

Several properties share a rule function (e.g. the value-heuristic analysis serves C02, C04, C09).  A rule
instance that fails is reported as a VIOLATION only by the properties for which *that instance* is a
necessary condition: a statistics slot has nothing to do with C01, a missing GROUND announcement does not
affect termination (C04), an off-by-one in the objective tightening does not make a reported solution
invalid (C01).  Everything else is recorded in the evidence under `out_of_scope_findings` and printed as a
NOTE, never as a violation of the property being checked.

Entries: (rule, substring of the function name or None, prefix of the construct or None, properties).
First match wins; no match = in scope for every property that runs the rule.
"""
from __future__ import annotations

from typing import List, Optional, Set, Tuple

Entry = Tuple  # (rule, function substring, construct prefix, properties[, file substring])

TABLE: List[Entry] = [
    # ---- propagation loop -------------------------------------------------------------------------------
    # an event without a change re-queues watchers for nothing: a progress (termination) matter only
    ("R-EVENTS-EXACT", None, "MIN-event-without-store", {"C04"}),
    ("R-EVENTS-EXACT", None, "MAX-event-without-store", {"C04"}),
    ("R-EVENTS-EXACT", None, "GROUND-event-without-change", {"C04"}),
    # a change without its event leaves a watcher asleep: validity / fixpoint, not termination
    ("R-EVENTS-EXACT", None, None, {"C01", "C02", "C08"}),
    ("R-WRITEBACK-MONO", None, "no-emptiness-check", {"C01", "C02", "C08", "C13"}),
    ("R-WRITEBACK-MONO", None, "tightening-untested", {"C01", "C02", "C08", "C13"}),  # a dropped tightening is not a termination matter
    ("R-WRITEBACK-MONO", None, None, {"C01", "C02", "C08", "C04", "C13"}),
    ("R-QUEUE-DRAIN", None, None, {"C01", "C02", "C08", "C13"}),
    ("R-QUEUE-WRITERS", None, None, {"C01", "C02", "C08", "C13"}),
    ("R-OFFSET-ROUNDTRIP", "bound_consistency", None, {"C01", "C02", "C13", "C08"}),
    ("R-ANNOUNCE", "bound_consistency", None, {"C01", "C02", "C08"}),
    ("R-TRIGGER-JOIN", None, None, {"C01", "C02", "C08", "C13"}),
    # the tightening primitives: a wrong bound gives a wrong optimum / no termination, never an invalid assignment
    # (C04: a bound that does not move strictly past the incumbent lets the same solution be found for ever)
    ("R-OFFSET-ROUNDTRIP", "decrease_max", "value-strictness", {"C03", "C04"}),
    ("R-OFFSET-ROUNDTRIP", "increase_min", "value-strictness", {"C03", "C04"}),
    ("R-OFFSET-ROUNDTRIP", "decrease_max", "cell-bound", {"C03", "C04"}),
    ("R-OFFSET-ROUNDTRIP", "increase_min", "cell-bound", {"C03", "C04"}),
    ("R-OFFSET-ROUNDTRIP", "decrease_max", None, {"C03", "C13", "C04"}),
    ("R-OFFSET-ROUNDTRIP", "increase_min", None, {"C03", "C13", "C04"}),
    ("R-OFFSET-ROUNDTRIP", "get_solution", None, {"C01", "C03", "C13", "C02"}),
    # the two halves of one enforced ordering use different offsets: weaker filtering (not the largest fixpoint), nothing invalid is reported
    ("R-ENFORCE-ENTAIL", None, "enforce-halves-disagree", {"C08"}),
    ("R-ENFORCE-ENTAIL", None, None, {"C01", "C07"}),
    # ---- search loop -------------------------------------------------------------------------------------
    # the worker side of the enumeration: every solution of a part is delivered once (C11 / C12: the union reaches the caller)
    ("R-RESUME", "solve_and_queue", None, {"C02", "C11", "C12"}),
    ("R-RESUME", None, None, {"C02"}),
    ("R-SOLUTION", None, "none-return", {"C02", "C03"}),  # giving up early loses solutions; what is reported stays valid
    ("R-SOLUTION", None, "backtrack-call", {"C02", "C03"}),
    ("R-HANDOVER", None, "announce-row", {"C01", "C02", "C07", "C08", "C09"}),
    ("R-HANDOVER", None, None, {"C01", "C02", "C08", "C09"}),
    # ---- multiprocessing parent ----------------------------------------------------------------------------
    ("R-STATS-SLOT", None, None, {"C11", "C17"}),
    ("R-MARKER", None, "solution-forwarded:lossy-put", {"C11", "C12"}),
    ("R-MARKER", None, "solution-forwarded:deduplicated", {"C11", "C17"}),
    ("R-MARKER", None, "solution-forwarded", {"C01", "C02", "C11", "C12"}),  # C12: the union of the parts' solutions reaches the caller
    ("R-MARKER", None, "one-marker-last", {"C11", "C12"}),  # a marker-shaped message sent early ends the collection of that part: the union is incomplete
    ("R-MARKER", None, "marker-recorded", {"C11", "C12"}),
    ("R-MARKER", None, "spawn", {"C11", "C12"}),  # a part that is never started (or is taken for dead) is missing from the union  # a healthy part reported dead: the union is never delivered
    ("R-MARKER", None, "completion-flags-fresh", {"C11", "C18"}),
    ("R-MARKER", None, "marker-on-error-path", {"C11", "C19"}),
    ("R-MARKER", None, None, {"C11"}),
    ("R-KEEPBEST", None, None, {"C03", "C11"}),
    # joining a worker that may still be writing into a queue nobody reads deadlocks healthy runs too ("the call returns once every worker
    # has finished", C11); the other liveness clauses only matter when a worker dies (C18)
    ("R-LIVENESS", None, "unbounded-join", {"C03", "C11", "C18"}),  # C03: the distributed optimisation terminates
    ("R-LIVENESS", None, None, {"C18"}),
    ("R-STATS-MAP", "BacktrackSolver", None, {"C17"}),
    ("R-STATS-MAP", "MultiprocessingSolver", None, {"C11", "C17"}),
    ("R-STATS-MAP", None, "aggregator", {"C11", "C17"}),
    ("R-STATS-MAP", None, None, {"C17"}),
    # ---- branching -----------------------------------------------------------------------------------------
    # announcing the moved bounds is about what propagation sees (C02/C09, and through them C01/C08), not about termination
    ("R-BRANCH-EVENTS", None, None, {"C01", "C02", "C08", "C09"}),
    # strict shrink of every sub-range is the progress measure of the search tree
    ("R-PARTITION", None, "no-push-path", {"C04"}),
    ("R-PARTITION", None, "store-level:dom_update", {"C02", "C09"}),  # where the replay record is written is not a progress matter
    ("R-PARTITION", None, None, {"C02", "C04", "C09"}),
    # ---- choice-point stack: C07 is only concerned with the enabled-flags half
    ("R-PUSH-POP", "cp_init", "flags-row0", {"C02", "C03", "C07", "C09"}),
    ("R-PUSH-POP", "cp_init", None, {"C02", "C03", "C09"}),  # a restart of the optimisation goes through cp_init
    ("R-FLAGS-WRITERS", "cp_init", "protocol-writer-silent", {"C01", "C03", "C07", "C08"}),
    ("R-PUSH-POP", None, "copy-flags", {"C02", "C07", "C09"}),
    ("R-PUSH-POP", None, "push-flags-row", {"C01", "C02", "C07", "C08", "C09"}),
    ("R-PUSH-POP", None, "push-other-domains", {"C01", "C02", "C08", "C09"}),
    ("R-PUSH-POP", None, "flags-row0", {"C02", "C03", "C07", "C09"}),
    ("R-PUSH-POP", None, "restore-stores", {"C02", "C07", "C09"}),
    ("R-PUSH-POP", None, "lower-levels:not_entailed", {"C02", "C07", "C09"}),
    ("R-PUSH-POP", None, None, {"C02", "C09"}),
    ("R-ANNOUNCE", "backtrack", "replay-row", {"C02", "C07", "C09"}),
    ("R-ANNOUNCE", "backtrack", None, {"C02", "C09"}),
    # ---- who consults / writes the enabled flags
    ("R-FLAGS-WRITERS", None, "wake-row", {"C01", "C02", "C07", "C08"}),
    ("R-FLAGS-WRITERS", None, None, {"C01", "C02", "C03", "C07", "C08", "C09"}),
    # ---- Problem.init: re-creation / ordering clauses concern reuse and determinism (C15) as well as the encoding (C13); what the caches
    # contain is an encoding matter only
    ("R-INIT-COHERENCE", None, "not-reassigned", {"C13", "C15"}),
    ("R-INIT-COHERENCE", None, "not-fresh", {"C13", "C15"}),
    ("R-INIT-COHERENCE", None, "accumulates", {"C13", "C15"}),
    ("R-INIT-COHERENCE", None, "sort-guard-stale", {"C15"}),
    ("R-INIT-COHERENCE", None, "posting-order-list", {"C01", "C13"}),  # the order changes the schedule (statistics), not the solution set
    ("R-INIT-COHERENCE", None, "sort-", {"C13", "C15"}),
    ("R-INIT-COHERENCE", None, "missing", {"C13", "C15"}),
    ("R-INIT-COHERENCE", None, "triggers-extent", {"C13", "C15", "C16"}),  # an undersized table is read out of bounds by the engine
    ("R-INIT-COHERENCE", None, "triggers-shape", {"C13", "C15"}),  # a table accumulated with |= over uninitialised memory depends on the history of the process
    ("R-INIT-COHERENCE", None, None, {"C13"}),
    # the shaving loop scans with first_not_instantiated and stops on its 'none left' answer
    ("R-SENTINEL", "first_not_instantiated", "returns-non-decision-domain", {"C01", "C02", "C04", "C09", "C10", "C16"}),
    ("R-SENTINEL", "first_not_instantiated", None, {"C04", "C10", "C16"}),
    ("R-SENTINEL", None, "returns-non-decision-domain", {"C01", "C02", "C04", "C09", "C16"}),
    ("R-SENTINEL", None, None, {"C04", "C16"}),
    # a given of the model dropped / an argument replaced by its default: the model solved is not the model written (C13); what is
    # reported still satisfies the constraints that were posted
    ("R-CAPACITY", "optimize", "refusal-not-reported", {"C19", "C03"}),
    ("R-CAPACITY", None, "refusal-not-reported", {"C19", "C02"}),  # an overflow answered as 'no more solutions': not an out-of-bounds matter
    ("R-OPTIONAL-ZERO", None, "element-truthiness", {"C13"}),
    ("R-OPTIONAL-ZERO", None, "given-argument-overwritten", {"C13"}),
    # groundness tested for the variables' domains only: the vector reported is an assignment all the same (C01, C03 unaffected)
    ("R-SOLVED", None, "all-domains", {"C02"}),
    ("R-SOLVED", None, "wrong-level:root", {"C02", "C03"}),
    ("R-OPTIONAL-ZERO", None, None, {"C01", "C02", "C03", "C13"}),
    # solving a model leaves it as written: reuse (C15), re-optimisation (C03), the rewritten model compared with the original (C13)
    ("R-PROBLEM-READONLY", None, "writes-model-array", {"C01", "C03", "C13", "C15"}),
    ("R-PROBLEM-READONLY", None, None, {"C03", "C13", "C15"}),
    ("R-MODE-ARITH", None, "narrow-sum-compared", {"C15", "C16", "C19"}),
    ("R-MODE-ARITH", None, None, {"C15"}),
    # ---- wake-up primitive ---------------------------------------------------------------------------------
    ("R-WAKEUP", None, None, {"C01", "C02", "C08"}),
    # ---- optimisation loop: which clauses are also termination conditions
    # the worker side of a distributed optimisation (C11: same optimal value as the sequential solver)
    ("R-TIGHTEN", "_and_queue", "reset-then-tighten", {"C03", "C04", "C11"}),
    ("R-TIGHTEN", "_and_queue", "emptiness-guard", {"C03", "C04", "C11"}),
    ("R-TIGHTEN", "_and_queue", "tighten-call", {"C03", "C04", "C11"}),
    ("R-TIGHTEN", "_and_queue", "tighten-args", {"C03", "C04", "C11"}),
    ("R-TIGHTEN", "_and_queue", None, {"C03", "C11"}),
    ("R-TIGHTEN", None, "reset-then-tighten", {"C03", "C04"}),
    ("R-TIGHTEN", None, "emptiness-guard", {"C03", "C04"}),
    ("R-TIGHTEN", None, "tighten-call", {"C03", "C04"}),
    ("R-TIGHTEN", None, "tighten-args", {"C03", "C04"}),
    ("R-TIGHTEN", None, None, {"C03"}),
    # ---- shaving: the loop's own progress is also a termination matter
    ("R-SHAVE", None, "bound-argument-range", {"C01", "C02", "C10", "C16"}),  # an index 2 on the bound axis writes into the next shared domain
    ("R-SHAVE", None, "round-without-probe", {"C02", "C04", "C10"}),
    ("R-SHAVE", None, "cursor-may-move-back", {"C02", "C04", "C10"}),
    ("R-SHAVE", None, "no-advance-after-failed-probe", {"C02", "C04", "C10"}),
    # what the shaving algorithm hands back must be a propagated state with the right status: validity (C01) and fixpoint (C08) under the
    # shaving configuration; the un-probing is a backtrack to the saved alternative, whose moved bound must be announced (C09)
    # the probe's propagation runs on a pushed level that is discarded: a constraint entailed only under the probe's hypothesis must not
    # stay disabled at the enclosing level (C07)
    ("R-SHAVE", None, "probe-value", {"C02", "C07", "C10"}),
    ("R-SHAVE", None, "own-store", {"C02", "C07", "C10"}),
    ("R-SHAVE", None, "undo-replay", {"C01", "C02", "C07", "C08", "C09", "C10"}),  # C07: un-probing is a backtrack - a constraint disabled inside the probe is effective again (woken against the restored row)
    ("R-SHAVE", None, "re-propagation", {"C01", "C02", "C08", "C10"}),
    ("R-SHAVE", None, "shave-then-exit", {"C01", "C02", "C08", "C10"}),
    ("R-SHAVE", None, "first-pass-", {"C01", "C02", "C08", "C10"}),
    ("R-SHAVE", None, "initial-propagation", {"C01", "C02", "C08", "C10"}),
    ("R-SHAVE", None, "status-", {"C01", "C02", "C08", "C10"}),
    ("R-SHAVE", None, "final-status", {"C01", "C02", "C08", "C10"}),
    ("R-SHAVE", None, None, {"C02", "C10"}),  # C02: the same multiset of solutions with shaving as with plain bound consistency
    # a raise behind a pointer is mode-dependent behaviour (C15); in the push primitive it is the capacity check that cannot be reported
    # (C19), and on the decision path it leaves the state unchanged so that the search loop never ends (C04)
    ("R-SWALLOWED-RAISE", "shav", "division", {"C02", "C10", "C15"}),  # a discarded ZeroDivisionError in shaving: an arbitrary status, a consistent node taken for a failure
    ("R-SWALLOWED-RAISE", None, "division", {"C01", "C02", "C15"}),
    ("R-SWALLOWED-RAISE", "cp_", "raise:DOM_HEURISTIC", {"C04", "C15", "C19"}),
    ("R-SWALLOWED-RAISE", "cp_", None, {"C15", "C19"}),
    ("R-SWALLOWED-RAISE", None, None, {"C15"}),
    # where the function addresses are taken: per call, in the process that uses them (C11: every start method; C15: no state kept across calls)
    ("R-DISPATCH", None, "address-params", {"C11", "C15"}),
    ("R-DISPATCH", None, None, {"C15"}),
    # state shared by the solvers of one process: the solvers of the parts of a split run side by side (C11 / C12), any other module-level
    # state is a reproducibility matter (C15)
    ("R-GLOBAL-STATE", None, "argument-aliased", {"C15"}),  # workers are separate processes: an aliased configuration array leaks between solvers of ONE process only
    ("R-GLOBAL-STATE", None, None, {"C11", "C12", "C15"}, "nucs/solvers/"),
    ("R-GLOBAL-STATE", None, None, {"C15"}),
    # the parts of a split are what the multiprocessing solver enumerates: a part that leaves the declared domain yields out-of-domain
    # solutions (C01), overlapping or missing values duplicate / lose solutions (C02)
    ("R-SPLIT", None, "translation", {"C01", "C02", "C12"}),
    ("R-SPLIT", None, "adjacency", {"C01", "C02", "C12"}),
    ("R-SPLIT", None, "first-part", {"C01", "C02", "C12"}),
    ("R-SPLIT", None, "covers-domain", {"C01", "C02", "C12"}),
    ("R-SPLIT", None, None, {"C12"}),
    # ---- capacity ------------------------------------------------------------------------------------------
    ("R-CAPACITY", None, "push-unreported", {"C19"}),
    ("R-CAPACITY", None, None, {"C16", "C19", "C10"}),
]


def in_scope(prop: str, rule: str, function: str, construct: str, file: str = "") -> bool:
    for entry in TABLE:
        r, fsub, cpre, props = entry[:4]
        if r != rule:
            continue
        if len(entry) > 4 and entry[4] not in file:
            continue
        if fsub is not None and fsub not in function:
            continue
        if cpre is not None and not construct.startswith(cpre):
            continue
        return prop in props
    return True
