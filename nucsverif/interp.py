"""Path-sensitive abstract interpreter for the Python subset nucs is written in.

Abstract values are affine forms over opaque atoms (terms.Aff) and array views
(root, index prefix).  Memory is a store log per analysed path with exact / may / no
alias resolution on affine index forms.  Branches whose condition cannot be decided
from the path facts fork the path; loops are summarised (body analysed once from a
state in which everything the loop may modify is havoc'ed).  The result of analysing a
function is the list of its abstract paths, each with its ordered event trace (stores,
calls, returns, yields, loop summaries).  Rules are predicates over those traces.

This is abstract interpretation / dataflow over the syntax tree: nothing is executed,
no solver is called; equalities are decided by normal-form identity of affine forms and
inequalities by Fourier-Motzkin elimination over the path facts.
"""
from __future__ import annotations

import ast
from dataclasses import dataclass, field
from typing import Any, Callable, Dict, List, Optional, Sequence, Tuple

from .program import AnalysisError, FuncInfo, Program, NO
from .terms import (
    Aff,
    Facts,
    K,
    ONE,
    ZERO,
    bool_aff,
    cmp_cond,
    cond_of,
    const_cond,
    negate,
    show_val,
)

ALL = ":"  # full slice index component


# ------------------------------------------------------------------------ values
@dataclass(frozen=True)
class View:
    root: str
    idx: Tuple[Any, ...] = ()

    def __repr__(self) -> str:
        if not self.idx:
            return self.root
        return f"{self.root}[{', '.join(show_comp(c) for c in self.idx)}]"


@dataclass(frozen=True)
class Dual:
    """A name bound to `root[idx]`: scalar uses see the value snapshot taken at binding time
    (NumPy scalar indexing copies), further subscripting sees the live view (NumPy views alias)."""

    view: View
    snap: Any

    def __repr__(self) -> str:
        return f"{self.view!r}@{show_val(self.snap)}"


def as_view(v: Any) -> Any:
    return v.view if isinstance(v, Dual) else v


@dataclass(frozen=True)
class Tup:
    items: Tuple[Any, ...]


@dataclass(frozen=True)
class FuncVal:
    fn: FuncInfo

    def __repr__(self) -> str:
        return f"<fn {self.fn.fq}>"


@dataclass(frozen=True)
class ClassVal:
    module: str
    name: str


@dataclass(frozen=True)
class ModVal:
    name: str


@dataclass(frozen=True)
class AttrVal:
    base: Any
    attr: str

    def __repr__(self) -> str:
        return f"{self.base!r}.{self.attr}"


@dataclass(frozen=True)
class RangeVal:
    start: Aff
    stop: Aff
    step: Aff


@dataclass(frozen=True)
class EnumVal:
    inner: Any


@dataclass(frozen=True)
class LambdaVal:
    node: ast.Lambda


def show_comp(c: Any) -> str:
    if c == ALL:
        return ":"
    if isinstance(c, tuple) and c and c[0] == "slice":
        return f"{'' if c[1] is None else show_val(c[1])}:{'' if c[2] is None else show_val(c[2])}"
    if isinstance(c, tuple) and c and c[0] == "fancy":
        return f"<{c[1]!r}>"
    return show_val(c)


# ------------------------------------------------------------------------ events
@dataclass
class Event:
    kind: str  # store | call | icall | mcall | return | yield | raise | loop | iter | enter | exit | branch
    node: Optional[ast.AST] = None
    fn: Optional[str] = None  # fq name of the function whose body contains `node`
    root: Optional[str] = None
    idx: Tuple[Any, ...] = ()
    value: Any = None
    aug: Optional[Tuple[str, Any]] = None  # (op, operand) for augmented stores
    name: Optional[str] = None  # callee name
    args: Tuple[Any, ...] = ()
    kwargs: Tuple[Tuple[str, Any], ...] = ()
    recv: Any = None
    loop: Any = None
    cond: Any = None
    taken: Optional[bool] = None
    depth: int = 0
    old: Any = None  # for stores: abstract value of the cell before the store
    hpos: int = 0  # heap length when the event happened (for load_at)
    ret: Any = None  # abstract value returned by an opaque / indirect call

    @property
    def line(self) -> int:
        return getattr(self.node, "lineno", 0)


@dataclass
class Store:
    root: str
    idx: Tuple[Any, ...]
    value: Any  # Aff | View | HAVOC marker
    havoc_id: Optional[int] = None
    only: Optional[frozenset] = None  # for a loop's havoc: the constant cells the loop may have written (None = anything)


@dataclass
class LoopSummary:
    node: ast.AST
    loop_id: int
    kind: str  # for | while
    iter_value: Any
    index: Optional[Aff]
    paths: List["PathResult"] = field(default_factory=list)  # one per abstract path through the body
    fn: Optional[str] = None
    stored_roots: Tuple[str, ...] = ()
    pre_env: Dict[str, Any] = field(default_factory=dict)
    assigned: Tuple[str, ...] = ()
    invariants: List[Any] = field(default_factory=list)


class State:
    __slots__ = ("env", "heap", "facts", "trace", "frames", "raised")

    def __init__(self):
        self.raised = False
        self.env: Dict[str, Any] = {}
        self.heap: List[Store] = []
        self.facts = Facts()
        self.trace: List[Event] = []
        self.frames: List[Tuple[FuncInfo, Dict[str, Any]]] = []

    def fork(self) -> "State":
        s = State()
        s.env = dict(self.env)
        s.heap = list(self.heap)
        s.facts = self.facts.copy()
        s.trace = list(self.trace)
        s.frames = list(self.frames)
        s.raised = self.raised
        return s


@dataclass
class PathResult:
    state: State
    outcome: str  # return | fall | raise | break | continue
    value: Any = None
    start: int = 0  # index in state.trace where this region's events begin

    @property
    def events(self) -> List[Event]:
        return self.state.trace[self.start :]


NONE = Aff.atom(("none",))


def is_none(v: Any) -> bool:
    return isinstance(v, Aff) and v == NONE


class Interp:
    def __init__(
        self,
        program: Program,
        no_inline: Optional[Dict[str, Sequence[int]]] = None,
        assume_globals: Optional[Dict[str, Any]] = None,
        max_depth: int = 5,
        max_paths: int = 30000,
        inline_filter: Optional[Callable[[FuncInfo], bool]] = None,
        axioms: bool = True,
    ):
        self.p = program
        self.no_inline = {"function_from_address": [], "build_function_address_list": []}
        self.no_inline.update(no_inline or {})
        self.assume_globals = dict(assume_globals or {})
        self.max_depth = max_depth
        self.max_paths = max_paths
        self.inline_filter = inline_filter
        self.axioms = axioms
        self.summaries: Dict[str, Callable] = {}  # bare function name -> summary(interp, state, fn, args, node) -> value
        self.track_index = False  # record every subscript evaluation as an 'index' event (R-EXTENT)
        self.invariants = False  # Houdini order invariants on loops (opt-in: costs a few entailment queries per loop)
        self.n = 0
        self.allocs: Dict[str, Tuple] = {}
        self.stored_roots: List[str] = []
        self.cur_fn: List[FuncInfo] = []
        self.path_budget = 0
        self.unmodelled: List[str] = []

    # ------------------------------------------------------------------ utils
    def fresh(self, tag: str = "unk") -> Aff:
        self.n += 1
        return Aff.atom((tag, self.n))

    def fresh_root(self, hint: str, origin: Tuple) -> View:
        self.n += 1
        r = f"{hint}#{self.n}"
        self.allocs[r] = origin
        return View(r, ())

    def fq(self) -> Optional[str]:
        return self.cur_fn[-1].fq if self.cur_fn else None

    def ev(self, st: State, kind: str, node: Optional[ast.AST] = None, **kw: Any) -> Event:
        e = Event(kind=kind, node=node, fn=self.fq(), depth=len(self.cur_fn), hpos=len(st.heap), **kw)
        st.trace.append(e)
        return e

    # ------------------------------------------------------------------- heap
    def _match_comp(self, st: State, a: Any, b: Any) -> Optional[bool]:
        """Does store component a cover load component b?  True / False / None (may)."""
        if a == ALL or b == ALL:
            return True
        if isinstance(a, tuple) and a and a[0] == "slice" and isinstance(b, Aff):
            # does the stored slice lo:hi contain the loaded position?
            lo, hi = a[1], a[2]
            inside_lo = True if lo is None else (st.facts.decide(cmp_cond(">=", b, lo)) if isinstance(lo, Aff) else None)
            inside_hi = True if hi is None else (st.facts.decide(cmp_cond("<", b, hi)) if isinstance(hi, Aff) and not (hi.is_const() and hi.c < 0) else None)
            if inside_lo is False or inside_hi is False:
                return False
            if inside_lo is True and inside_hi is True:
                return True
            return None
        if isinstance(a, Aff) and isinstance(b, Aff):
            d = a - b
            if d.is_const():
                return d.c == 0
            return st.facts.decide(("eq0", d if (d.t and d.t[0][1] > 0) else -d))
        if a == b:
            return True
        return None

    def load_at(self, st: State, pos: int, root: str, idx: Tuple[Any, ...]) -> Any:
        """Value of cell root[idx] as of heap position `pos` (exclusive)."""
        for i in range(pos - 1, -1, -1):
            s = st.heap[i]
            if s.root != root:
                continue
            if s.havoc_id is not None and not s.idx:
                if s.only is not None and idx and all(isinstance(c_, Aff) and c_.is_const() for c_ in idx) \
                        and all(len(o_) == len(idx) and any(o_[k_] != idx[k_].c and (o_[k_] < 0) == (idx[k_].c < 0) for k_ in range(len(idx))) for o_ in s.only):
                    continue  # the loop wrote other constant cells only: this cell is what it was before the loop
                return Aff.atom(("hav", s.havoc_id, root, idx))
            verdict: Optional[bool] = True
            n = min(len(s.idx), len(idx))
            for k in range(n):
                m = self._match_comp(st, s.idx[k], idx[k])
                if m is False:
                    verdict = False
                    break
                if m is None:
                    verdict = None
            if verdict is False:
                continue
            if verdict is None:
                return self.fresh("unk")
            if s.havoc_id is not None:
                return Aff.atom(("hav", s.havoc_id, root, idx))
            if len(s.idx) > len(idx):
                # partial overwrite of the loaded aggregate: not a scalar any more
                return self.fresh("unk")
            # covered
            free = [idx[k] for k in range(n) if s.idx[k] == ALL or (isinstance(s.idx[k], tuple) and s.idx[k][:1] == ("slice",))]
            free_kind = [("all" if s.idx[k] == ALL else "slice") for k in range(n) if s.idx[k] == ALL or (isinstance(s.idx[k], tuple) and s.idx[k][:1] == ("slice",))]
            free_lo = [(s.idx[k][1] if isinstance(s.idx[k], tuple) and isinstance(s.idx[k][1], Aff) else ZERO) for k in range(n)
                       if s.idx[k] == ALL or (isinstance(s.idx[k], tuple) and s.idx[k][:1] == ("slice",))]
            rest = tuple(idx[len(s.idx) :])
            v = s.value
            if isinstance(v, Aff):
                return v
            if isinstance(v, Tup):
                if len(rest) == 1 and isinstance(rest[0], Aff) and rest[0].is_const() and -len(v.items) <= rest[0].c < len(v.items):
                    item = v.items[rest[0].c]
                    return item if isinstance(item, Aff) else self.scalar(st, item)
                return self.fresh("unk")
            if isinstance(v, View):
                new_idx: List[Any] = []
                fi = 0
                for c in v.idx:
                    if c == ALL and fi < len(free):
                        # position relative to the start of the stored region
                        new_idx.append(free[fi] - free_lo[fi] if (free_kind[fi] == "slice" and isinstance(free[fi], Aff)) else free[fi])
                        fi += 1
                    else:
                        new_idx.append(c)
                # leftover dimensions of the stored region: a full-axis (:) dimension addresses the same position of the value; a sliced
                # leading dimension that the (lower-rank) value does not have is a broadcast dimension (every row of the slice gets the value)
                for k2 in range(fi, len(free)):
                    if free_kind[k2] == "all":
                        new_idx.append(free[k2])
                new_idx.extend(rest)
                return self.load_at(st, i, v.root, tuple(new_idx))
            return self.fresh("unk")
        return Aff.atom(("init", root, idx))

    def load(self, st: State, v: View) -> Any:
        for c in v.idx:
            if not isinstance(c, Aff):
                return Aff.atom(("agg", v.root, v.idx, self._epoch(st, v.root)))
        return self.load_at(st, len(st.heap), v.root, v.idx)

    def _epoch(self, st: State, root: str) -> int:
        return sum(1 for s in st.heap if s.root == root)

    def store(self, st: State, target: View, value: Any, node: Optional[ast.AST], aug: Optional[Tuple[str, Any]] = None) -> None:
        old = None
        if all(isinstance(c, Aff) for c in target.idx):
            old = self.load_at(st, len(st.heap), target.root, target.idx)
        st.heap.append(Store(target.root, target.idx, value))
        self.stored_roots.append(target.root)
        self.ev(st, "store", node, root=target.root, idx=target.idx, value=value, aug=aug, old=old)

    def _immutable_param(self, v: View) -> bool:
        """A parameter of the analysed entry function annotated int / bool / str / float: no callee can change it."""
        if v.idx or not self.cur_fn:
            return False
        a = self.cur_fn[0].node.args
        for p_ in a.posonlyargs + a.args + a.kwonlyargs:
            if p_.arg == v.root and p_.annotation is not None and ast.unparse(p_.annotation) in ("int", "bool", "str", "float", "np.uint32", "np.int32", "np.int64"):
                return True
        return False

    def havoc_root(self, st: State, root: str, prefix: Tuple[Any, ...] = ()) -> None:
        """Forget the contents of root[prefix...] (the whole array when prefix is empty)."""
        self.n += 1
        st.heap.append(Store(root, tuple(prefix), None, havoc_id=self.n))

    def scalar(self, st: State, v: Any) -> Aff:
        if isinstance(v, Aff):
            return v
        if isinstance(v, Dual):
            return v.snap if isinstance(v.snap, Aff) else self.scalar(st, v.view)
        if isinstance(v, View):
            r = self.load(st, v)
            if isinstance(r, Aff):
                return r
            return Aff.atom(("agg", v.root, v.idx, self._epoch(st, v.root)))
        if isinstance(v, bool):
            return K(1 if v else 0)
        if isinstance(v, int):
            return K(v)
        if v is None:
            return NONE
        if isinstance(v, str):
            return Aff.atom(("str", v))
        return Aff.atom(("obj", repr(v)))

    def value_at(self, st: State, hpos: int, v: Any) -> Aff:
        """Scalar value of `v` as of heap position `hpos` (the time of an event)."""
        if isinstance(v, Dual):
            return v.snap if isinstance(v.snap, Aff) else self.value_at(st, hpos, v.view)
        if isinstance(v, View):
            if all(isinstance(c, Aff) for c in v.idx):
                r = self.load_at(st, hpos, v.root, v.idx)
                if isinstance(r, Aff):
                    return r
            return Aff.atom(("agg", v.root, v.idx, hpos))
        return self.scalar(st, v)

    def _houdini(self, summ: "LoopSummary", pre: State) -> List[Tuple]:
        """Inductive order invariants among loop-carried scalars (candidates x<=y, x>=x0, x<=x0)."""
        names = []
        for nm in summ.assigned:
            v0 = summ.pre_env.get(nm)
            if isinstance(v0, (Aff, Dual)) or (isinstance(v0, View) and not v0.idx):
                names.append(nm)
        names = names[:8]
        if not names:
            return []
        lv = {nm: Aff.atom(("lv", nm, summ.loop_id)) for nm in names}
        pre_val = {nm: self.scalar(pre, summ.pre_env[nm]) for nm in names}
        cands: List[Tuple[str, Tuple, Any]] = []  # (description, cond on lv atoms, builder for end values)
        for x in names:
            for y in names:
                if x != y:
                    cands.append((f"{x}<={y}", cmp_cond("<=", lv[x], lv[y]), ("le", x, y)))
            if not any(isinstance(a, tuple) and a[0] in ("unk",) for a in pre_val[x].atoms()):
                cands.append((f"{x}>=init", cmp_cond(">=", lv[x], pre_val[x]), ("ge0", x)))
                cands.append((f"{x}<=init", cmp_cond("<=", lv[x], pre_val[x]), ("le0", x)))
        # two cursors started one outside each end of a range (lo = last + 1, hi = first - 1) stay on their own side of the other's start:
        # x >= init(y) + 1,  x <= init(y) - 1
        clean = [x for x in names if not any(isinstance(a, tuple) and a[0] in ("unk",) for a in pre_val[x].atoms())]
        for x in clean:
            for y in clean:
                if x != y and len(clean) <= 5:
                    cands.append((f"{x}>=init({y})+1", cmp_cond(">=", lv[x], pre_val[y] + ONE), ("geo", x, y)))
                    cands.append((f"{x}<=init({y})-1", cmp_cond("<=", lv[x], pre_val[y] - ONE), ("leo", x, y)))
        # initially true?
        alive = []
        for desc, c, b in cands:
            if b[0] == "le":
                ok0 = pre.facts.decide(cmp_cond("<=", pre_val[b[1]], pre_val[b[2]])) is True
            elif b[0] == "geo":
                ok0 = pre.facts.decide(cmp_cond(">=", pre_val[b[1]], pre_val[b[2]] + ONE)) is True
            elif b[0] == "leo":
                ok0 = pre.facts.decide(cmp_cond("<=", pre_val[b[1]], pre_val[b[2]] - ONE)) is True
            else:
                ok0 = True
            if ok0:
                alive.append((desc, c, b))
        iter_paths = [bp for bp in summ.paths if bp.outcome in ("fall", "continue")]
        for _ in range(6):
            changed = False
            keep = []
            for desc, c, b in alive:
                okp = True
                for bp in iter_paths:
                    f = bp.state.facts.copy()
                    for _, c2, _ in alive:
                        f.add(c2)
                    if f.infeasible():
                        continue
                    def endv(nm: str) -> Aff:
                        v = bp.state.env.get(nm)
                        return self.scalar(bp.state, v) if v is not None else lv[nm]
                    if b[0] == "le":
                        q = cmp_cond("<=", endv(b[1]), endv(b[2]))
                    elif b[0] == "geo":
                        q = cmp_cond(">=", endv(b[1]), pre_val[b[2]] + ONE)
                    elif b[0] == "leo":
                        q = cmp_cond("<=", endv(b[1]), pre_val[b[2]] - ONE)
                    elif b[0] == "ge0":
                        q = cmp_cond(">=", endv(b[1]), pre_val[b[1]])
                    else:
                        q = cmp_cond("<=", endv(b[1]), pre_val[b[1]])
                    if f.decide(q) is not True:
                        okp = False
                        break
                if okp:
                    keep.append((desc, c, b))
                else:
                    changed = True
            alive = keep
            if not changed:
                break
        return [c for _, c, _ in alive]

    # ------------------------------------------------------------- entry point
    def run(self, fn: FuncInfo, args: Optional[Dict[str, Any]] = None, state: Optional[State] = None) -> List[PathResult]:
        st = state if state is not None else State()
        self.path_budget = 0
        env: Dict[str, Any] = {}
        for p in fn.params:
            env[p] = (args or {}).get(p, View(p, ()))
        a = fn.node.args
        if a.vararg or a.kwarg or a.kwonlyargs:
            self.unmodelled.append(f"{fn.fq}: *args/**kwargs")
        st.env = env
        start = len(st.trace)
        self.cur_fn.append(fn)
        try:
            res = self.exec_block(fn.node.body, st)
        finally:
            self.cur_fn.pop()
        out = []
        for r in res:
            if r.outcome == "fall":
                r = PathResult(r.state, "return", NONE)
            r.start = start
            out.append(r)
        return out

    # -------------------------------------------------------------- statements
    def exec_block(self, stmts: Sequence[ast.stmt], st: State) -> List[PathResult]:
        live = [st]
        done: List[PathResult] = []
        for s in stmts:
            nxt: List[State] = []
            for cur in live:
                for r in self.exec_stmt(s, cur):
                    if r.state.raised and r.outcome != "raise":
                        r = PathResult(r.state, "raise")
                    if r.outcome == "fall":
                        nxt.append(r.state)
                    else:
                        done.append(r)
            live = nxt
            self.path_budget = max(self.path_budget, len(live) + len(done))
            if len(live) + len(done) > self.max_paths:
                raise AnalysisError(f"path explosion in {self.fq()} at line {getattr(s, 'lineno', 0)}")
            if not live:
                break
        done.extend(PathResult(s, "fall") for s in live)
        return done

    def exec_stmt(self, s: ast.stmt, st: State) -> List[PathResult]:
        if isinstance(s, ast.Expr):
            if isinstance(s.value, ast.Constant):
                return [PathResult(st, "fall")]
            if isinstance(s.value, (ast.Yield, ast.YieldFrom)):
                out = []
                inner = s.value.value
                for st2, v in (self.eval(inner, st) if inner is not None else [(st, NONE)]):
                    self.ev(st2, "yield", s, value=v)
                    out.append(PathResult(st2, "fall"))
                return out
            return [PathResult(st2, "fall") for st2, _ in self.eval(s.value, st)]
        if isinstance(s, ast.Assign):
            out = []
            for st2, v in self.eval(s.value, st):
                for t in s.targets:
                    self.assign(t, v, st2, s)
                out.append(PathResult(st2, "fall"))
            return out
        if isinstance(s, ast.AnnAssign):
            if s.value is None:
                return [PathResult(st, "fall")]
            out = []
            for st2, v in self.eval(s.value, st):
                self.assign(s.target, v, st2, s)
                out.append(PathResult(st2, "fall"))
            return out
        if isinstance(s, ast.AugAssign):
            return self.exec_aug(s, st)
        if isinstance(s, ast.If):
            out = []
            for st2, taken in self.branch(s.test, st, s):
                out.extend(self.exec_block(s.body if taken else s.orelse, st2))
            return out
        if isinstance(s, ast.Return):
            if s.value is None:
                self.ev(st, "return", s, value=NONE)
                return [PathResult(st, "return", NONE)]
            out = []
            for st2, v in self.eval(s.value, st):
                self.ev(st2, "return", s, value=v)
                out.append(PathResult(st2, "return", v))
            return out
        if isinstance(s, ast.Break):
            return [PathResult(st, "break")]
        if isinstance(s, ast.Continue):
            return [PathResult(st, "continue")]
        if isinstance(s, ast.Pass):
            return [PathResult(st, "fall")]
        if isinstance(s, ast.Raise):
            self.ev(st, "raise", s, value=ast.unparse(s.exc) if s.exc else None)
            return [PathResult(st, "raise")]
        if isinstance(s, ast.While):
            return self.exec_loop(s, st)
        if isinstance(s, ast.For):
            return self.exec_loop(s, st)
        if isinstance(s, ast.Assert):
            # an assertion guarantees nothing: it is stripped by `python -O` (and, in compiled code reached through a function pointer, its
            # failure is discarded).  The statement that follows is analysed without the asserted fact.
            return [PathResult(st, "fall")]
        if isinstance(s, ast.Try):
            # approximation: the handlers start from the state at the entry of the try block (the statement that
            # raised had no effect); the normal path runs body (+ else); finally blocks are appended to both.
            out: List[PathResult] = []
            entry = st.fork()
            body = self.exec_block(list(s.body) + list(s.orelse), st)
            results: List[PathResult] = []
            caught: List[State] = [entry]
            for r in body:
                if r.outcome == "raise" and s.handlers:
                    r.state.raised = False
                    caught.append(r.state)
                else:
                    results.append(r)
            for h in s.handlers:
              for src in caught:
                hs = src.fork()
                self.ev(hs, "except", h, value=ast.unparse(h.type) if h.type is not None else "BaseException")
                if h.name:
                    hs.env[h.name] = self.fresh_root("exc", ("exception", ast.unparse(h.type) if h.type is not None else ""))
                results.extend(self.exec_block(h.body, hs))
                if len(s.handlers) > 1 and src is not entry:
                    break
            if s.finalbody:
                fin: List[PathResult] = []
                for r in results:
                    was_raised = r.state.raised
                    r.state.raised = False  # the finally block runs normally, the pending exception resumes after it
                    for r2 in self.exec_block(s.finalbody, r.state):
                        if was_raised and r2.outcome == "fall":
                            r2.state.raised = True
                        fin.append(r2 if r2.outcome != "fall" else PathResult(r2.state, r.outcome, r.value))
                results = fin
            return results
        if isinstance(s, ast.With):
            for item in s.items:
                for st2, v in self.eval(item.context_expr, st):
                    if item.optional_vars is not None:
                        self.assign(item.optional_vars, v, st2, s)
            return self.exec_block(s.body, st)
        if isinstance(s, ast.Delete):
            return [PathResult(st, "fall")]
        if isinstance(s, (ast.Import, ast.ImportFrom, ast.Global, ast.Nonlocal)):
            if isinstance(s, ast.Global):
                self.unmodelled.append(f"{self.fq()}: global statement at line {s.lineno}")
            return [PathResult(st, "fall")]
        if isinstance(s, ast.FunctionDef):
            st.env[s.name] = LambdaVal(s)  # nested function: opaque
            return [PathResult(st, "fall")]
        raise AnalysisError(f"unmodelled statement {type(s).__name__} in {self.fq()} line {getattr(s, 'lineno', 0)}")

    def exec_aug(self, s: ast.AugAssign, st: State) -> List[PathResult]:
        out = []
        for st2, rhs in self.eval(s.value, st):
            for st3, tgt in self.eval_target(s.target, st2):
                if isinstance(tgt, str):
                    cur = st3.env.get(tgt)
                    if cur is None:
                        cur = self.lookup_name(tgt, st3, s)
                    nv = self.binop(s.op, cur, rhs, st3, s)
                    st3.env[tgt] = nv
                else:
                    cur = self.scalar(st3, tgt)
                    nv = self.binop(s.op, cur, rhs, st3, s)
                    self.store(st3, tgt, nv, s, aug=(type(s.op).__name__, self.scalar(st3, rhs) if not isinstance(rhs, Tup) else rhs))
                out.append(PathResult(st3, "fall"))
        return out

    def eval_target(self, t: ast.expr, st: State) -> List[Tuple[State, Any]]:
        """Returns (state, name-or-View)."""
        if isinstance(t, ast.Name):
            return [(st, t.id)]
        if isinstance(t, ast.Subscript):
            out = []
            for st2, base in self.eval(t.value, st):
                for st3, idx in self.eval_index(t.slice, st2):
                    out.append((st3, self.subscript(base, idx, st3, t)))
            return out
        if isinstance(t, ast.Attribute):
            out = []
            for st2, base in self.eval(t.value, st):
                out.append((st2, self.attr(base, t.attr)))
            return out
        raise AnalysisError(f"unmodelled assignment target {type(t).__name__} in {self.fq()} line {getattr(t, 'lineno', 0)}")

    def bind(self, st: State, v: Any) -> Any:
        """Value as bound to a name / parameter: snapshot potential scalars."""
        if isinstance(v, View) and v.idx and all(isinstance(c, Aff) for c in v.idx):
            return Dual(v, self.load(st, v))
        if isinstance(v, View) and not v.idx and (v.root.startswith("ret#") or v.root.startswith("iret#")):
            # a call result bound to a name: scalar uses see the value returned (python ints are immutable)
            return Dual(v, self.load(st, v))
        return v

    def assign(self, t: ast.expr, v: Any, st: State, node: ast.AST) -> None:
        if isinstance(t, ast.Name):
            st.env[t.id] = self.bind(st, v)
            return
        if isinstance(t, (ast.Tuple, ast.List)):
            n = len(t.elts)
            if isinstance(v, Tup) and len(v.items) == n:
                for e, x in zip(t.elts, v.items):
                    self.assign(e, x, st, node)
            elif isinstance(v, (View, Dual)):
                vv = as_view(v)
                for i, e in enumerate(t.elts):
                    self.assign(e, View(vv.root, vv.idx + (K(i),)), st, node)
            else:
                a = self.scalar(st, v)
                for i, e in enumerate(t.elts):
                    self.assign(e, Aff.atom(("elem", a, i)), st, node)
            return
        res = self.eval_target(t, st)
        if len(res) != 1:
            raise AnalysisError(f"forking assignment target in {self.fq()} line {getattr(t, 'lineno', 0)}")
        st2, tgt = res[0]
        assert st2 is st
        if isinstance(tgt, View):
            if isinstance(v, Dual):
                v = v.snap if isinstance(v.snap, Aff) and not (isinstance(v.snap.single_atom(), tuple) and v.snap.single_atom()[0] == "agg") else v.view
            val = v if isinstance(v, (Aff, View, Tup)) else self.scalar(st, v)
            self.store(st, tgt, val, node)
        elif isinstance(tgt, AttrVal):
            self.ev(st, "store", node, root=repr(tgt), idx=(), value=v)
        else:
            raise AnalysisError(f"cannot assign to {tgt!r} in {self.fq()}")

    # ------------------------------------------------------------------ loops
    @staticmethod
    def assigned_names(stmts: Sequence[ast.AST]) -> List[str]:
        names: List[str] = []
        for s in stmts:
            for n in ast.walk(s):
                if isinstance(n, ast.Name) and isinstance(n.ctx, ast.Store) and n.id not in names:
                    names.append(n.id)
        return names

    def exec_loop(self, s: ast.stmt, st: State) -> List[PathResult]:
        is_for = isinstance(s, ast.For)
        out: List[PathResult] = []
        iters: List[Tuple[State, Any]] = self.eval(s.iter, st) if is_for else [(st, None)]
        for st0, itv in iters:
            self.n += 1
            loop_id = self.n
            body_nodes: List[ast.AST] = list(s.body) + ([s.target] if is_for else [s.test])
            assigned = self.assigned_names(body_nodes)
            # pass 1: discover which roots the body may store to
            mark = len(self.stored_roots)
            roots: List[str] = []
            for _ in range(3):
                probe = st0.fork()
                self._havoc_loop(probe, assigned, roots, loop_id)
                saved_n = self.n
                probe_res = self._loop_body(s, probe, itv, loop_id, is_for, None)
                new_roots = [r for r in dict.fromkeys(self.stored_roots[mark:]) if r not in roots]
                del self.stored_roots[mark:]
                if not new_roots:
                    break
                roots.extend(new_roots)
            hst = st0.fork()
            n_before = len(hst.heap)
            self._havoc_loop(hst, assigned, roots, loop_id)
            try:
                only_cells = self._const_cells_written(probe_res[0] if probe_res else [], roots)
                for sto in hst.heap[n_before:]:
                    if sto.havoc_id is not None and not sto.idx and sto.root in only_cells:
                        sto.only = only_cells[sto.root]
            except Exception:
                pass
            summ = LoopSummary(s, loop_id, "for" if is_for else "while", itv, None, [], self.fq(), tuple(roots),
                               dict(st0.env), tuple(assigned))
            body_res, index, exit_states = self._loop_body(s, hst.fork(), itv, loop_id, is_for, summ)
            summ.index = index
            for r in body_res:
                summ.paths.append(r)
            # monotone cells: a cell of an array that the loop only ever changes by `+= positive constant` (resp. `-=`) ends at least (resp.
            # at most) where it started.  Only when every store of the loop into that array addresses a constant cell (no aliasing).
            try:
                by_root: Dict[str, List[Event]] = {}
                nested_roots: set = set()

                def _collect(evs: List[Event]) -> None:
                    for e_ in evs:
                        if e_.kind == "store" and e_.root is not None:
                            by_root.setdefault(e_.root, []).append(e_)
                        elif e_.kind in ("loop", "iter") and e_.loop is not None and e_.loop is not summ:
                            nested_roots.update(e_.loop.stored_roots)
                for r_ in body_res:
                    _collect(r_.events)
                for root_, evs_ in by_root.items():
                    if root_ in nested_roots or root_ not in roots:
                        continue
                    if not all(e_.idx and all(isinstance(c_, Aff) and c_.is_const() for c_ in e_.idx) for e_ in evs_):
                        continue
                    cells_: Dict[Tuple[Any, ...], List[Event]] = {}
                    for e_ in evs_:
                        cells_.setdefault(tuple(e_.idx), []).append(e_)
                    for idx_, ces in cells_.items():
                        dirs = set()
                        for e_ in ces:
                            if e_.aug is not None and e_.aug[0] in ("Add", "Sub") and isinstance(e_.aug[1], Aff) and e_.aug[1].is_const() and e_.aug[1].c > 0:
                                dirs.add("up" if e_.aug[0] == "Add" else "down")
                            elif isinstance(e_.value, Aff) and isinstance(e_.old, Aff) and (e_.value - e_.old).is_const() and (e_.value - e_.old).c != 0:
                                dirs.add("up" if (e_.value - e_.old).c > 0 else "down")  # written out: x[k] = x[k] + 1
                            else:
                                dirs.add("?")
                        if len(dirs) != 1 or "?" in dirs:
                            continue
                        pre_v = self.load_at(st0, len(st0.heap), root_, idx_)
                        post_v = self.load_at(hst, len(hst.heap), root_, idx_)
                        if isinstance(pre_v, Aff) and isinstance(post_v, Aff):
                            c_ = cmp_cond(">=", post_v, pre_v) if "up" in dirs else cmp_cond("<=", post_v, pre_v)
                            for ex in exit_states:
                                ex.facts.add(c_)
                            for r_ in body_res:
                                r_.state.facts.add(c_)
            except AnalysisError:
                pass
            if self.invariants:
                inv = self._houdini(summ, st0)
                summ.invariants = inv
                for c in inv:
                    for ex in exit_states:
                        ex.facts.add(c)
                    for r in body_res:
                        r.state.facts.add(c)
            # normal exits
            for ex in exit_states:
                self.ev(ex, "loop", s, loop=summ)
                if s.orelse:
                    out.extend(self.exec_block(s.orelse, ex))
                else:
                    out.append(PathResult(ex, "fall"))
            for r in body_res:
                if r.outcome in ("return", "raise"):
                    out.append(PathResult(r.state, r.outcome, r.value))
                elif r.outcome == "break":
                    ex = r.state
                    self.ev(ex, "loop", s, loop=summ)
                    out.append(PathResult(ex, "fall"))
        return out

    def _const_cells_written(self, body_res: List["PathResult"], roots: List[str]) -> Dict[str, frozenset]:
        """root -> the constant cells an iteration may write, for the roots whose every store in the body addresses a constant cell and
        that no nested loop and no opaque call can touch."""
        by_root: Dict[str, List[Event]] = {}
        dirty: set = set()
        for r_ in body_res:
            for e_ in r_.events:
                if e_.kind == "store" and e_.root is not None:
                    by_root.setdefault(e_.root, []).append(e_)
                elif e_.kind in ("loop", "iter") and e_.loop is not None:
                    dirty.update(e_.loop.stored_roots)
                elif e_.kind in ("call", "icall", "mcall"):
                    for a_ in list(e_.args) + ([e_.recv] if e_.recv is not None else []):
                        v_ = as_view(a_)
                        if isinstance(v_, View):
                            dirty.add(v_.root)
        out: Dict[str, frozenset] = {}
        for root_ in roots:
            evs_ = by_root.get(root_, [])
            if root_ in dirty or not evs_:
                continue
            if all(e_.idx and all(isinstance(c_, Aff) and c_.is_const() for c_ in e_.idx) for e_ in evs_):
                out[root_] = frozenset(tuple(c_.c for c_ in e_.idx) for e_ in evs_)
        return out

    def _havoc_loop(self, st: State, assigned: List[str], roots: List[str], loop_id: int) -> None:
        for nm in assigned:
            if nm in st.env:
                cur = st.env[nm]
                if isinstance(cur, (Aff, View, Dual)):
                    st.env[nm] = Aff.atom(("lv", nm, loop_id))
        for r in roots:
            self.havoc_root(st, r)

    def _loop_body(self, s: ast.stmt, st: State, itv: Any, loop_id: int, is_for: bool, summ: Optional[LoopSummary]):
        """Analyse one abstract iteration.  Returns (body results, index symbol, exit states)."""
        exit_states: List[State] = []
        index: Optional[Aff] = None
        starts: List[State] = []
        if is_for:
            exit_states.append(st.fork())
            index = Aff.atom(("it", loop_id))
            tgt_val = self._iter_element(itv, index, st, s)
            self.ev(st, "iter", s, value=loop_id, loop=summ)
            self.assign(s.target, tgt_val, st, s)
            starts.append(st)
        else:
            self.ev(st, "iter", s, value=loop_id, loop=summ)
            for st2, taken in self.branch(s.test, st, s):
                if taken:
                    starts.append(st2)
                else:
                    # drop the iteration marker for the exit state
                    exit_states.append(st2)
        res: List[PathResult] = []
        for b in starts:
            mark = len(b.trace)
            for r in self.exec_block(s.body, b):
                # find iteration marker position
                pos = 0
                for k in range(len(r.state.trace) - 1, -1, -1):
                    e = r.state.trace[k]
                    if e.kind == "iter" and e.value == loop_id:
                        pos = k
                        break
                r.start = pos
                res.append(r)
        return res, index, exit_states

    def _iter_element(self, itv: Any, index: Aff, st: State, node: ast.AST) -> Any:
        itv = as_view(itv)
        if isinstance(itv, RangeVal):
            step = itv.step
            if step.is_const() and step.c == 1:
                st.facts.add(cmp_cond(">=", index, itv.start))
                st.facts.add(cmp_cond("<", index, itv.stop))
                return index
            if step.is_const() and step.c == -1:
                st.facts.add(cmp_cond("<=", index, itv.start))
                st.facts.add(cmp_cond(">", index, itv.stop))
                return index
            return index
        if isinstance(itv, EnumVal):
            st.facts.add(cmp_cond(">=", index, ZERO))
            inner = itv.inner
            if isinstance(inner, View):
                st.facts.add(cmp_cond("<", index, self.len_of(inner, st)))
            return Tup((index, self._iter_element(inner, index, st, node)))
        if isinstance(itv, View):
            st.facts.add(cmp_cond(">=", index, ZERO))
            st.facts.add(cmp_cond("<", index, self.len_of(itv, st)))
            return View(itv.root, itv.idx + (index,))
        if isinstance(itv, Tup):
            return self.fresh("unk")
        return self.fresh("unk")

    def len_of(self, v: Any, st: State) -> Aff:
        v = as_view(v)
        if isinstance(v, Tup):
            return K(len(v.items))
        if isinstance(v, View):
            # length of a simple slice of a whole array: expressed through the length of the array itself
            if len(v.idx) == 1 and isinstance(v.idx[0], tuple) and v.idx[0][0] == "slice":
                lo, hi = v.idx[0][1], v.idx[0][2]
                base = Aff.atom(("len", v.root, ()))
                st.facts.add(cmp_cond(">=", base, ZERO))
                cut = ZERO
                okk = True
                if lo is not None:
                    if isinstance(lo, Aff) and lo.is_const() and lo.c >= 0:
                        cut = cut + lo
                    else:
                        okk = False
                if hi is not None:
                    if isinstance(hi, Aff) and hi.is_const() and hi.c < 0:
                        cut = cut - hi
                    else:
                        okk = False
                if okk:
                    r = Aff.atom(("slen", v.root, show_comp(v.idx[0])))
                    # r = max(0, base - cut): r >= 0, r >= base - cut, and r <= base - cut when base >= cut
                    st.facts.add(cmp_cond(">=", r, ZERO))
                    st.facts.add(cmp_cond(">=", r, base - cut))
                    st.facts.add(("or", cmp_cond("==", r, base - cut), cmp_cond("==", r, ZERO)))
                    return r
            a = Aff.atom(("len", v.root, v.idx))
            st.facts.add(cmp_cond(">=", a, ZERO))
            if not v.idx:
                # an array allocated in this function with an explicit shape: its length is the first extent
                org = self.allocs.get(v.root)
                if org and org[0] == "alloc" and len(org) > 2 and org[2] and org[1] not in ("numpy.array", "numpy.zeros_like", "numpy.empty_like"):
                    shp = org[2][0]
                    first = shp.items[0] if isinstance(shp, Tup) and shp.items else (None if isinstance(shp, Tup) else shp)
                    if first is not None:
                        try:
                            fv = self.scalar(st, first)
                        except Exception:
                            fv = None
                        if isinstance(fv, Aff):
                            st.facts.add(cmp_cond("==", a, fv))
            return a
        if isinstance(v, Aff):
            # a loop-carried array variable (summarised as one opaque value): its length is a function of that value
            sa = v.single_atom() if hasattr(v, "single_atom") else None
            if isinstance(sa, tuple) and sa and sa[0] == "lv":
                a = Aff.atom(("len", f"lv:{sa[1]}:{sa[2]}", ()))
                st.facts.add(cmp_cond(">=", a, ZERO))
                return a
        return self.fresh("unk")

    # ---------------------------------------------------------------- branches
    def branch(self, test: ast.expr, st: State, node: ast.AST) -> List[Tuple[State, bool]]:
        out: List[Tuple[State, bool]] = []
        for st2, v in self.eval(test, st):
            c = self.truth(st2, v)
            d = st2.facts.decide(c)
            if d is not None:
                self.ev(st2, "branch", node, cond=c, taken=d, value="decided")
                out.append((st2, d))
                continue
            t = st2.fork()
            t.facts.add(c)
            self.ev(t, "branch", node, cond=c, taken=True)
            f = st2
            f.facts.add(negate(c))
            self.ev(f, "branch", node, cond=c, taken=False)
            if not t.facts.infeasible():
                out.append((t, True))
            if not f.facts.infeasible():
                out.append((f, False))
        return out

    def truth(self, st: State, v: Any) -> Tuple:
        if isinstance(v, (View, Dual)):
            v = self.scalar(st, v)
        if isinstance(v, Aff):
            if v == NONE:
                return ("ge0", K(-1))
            a = v.single_atom()
            if a is not None and isinstance(a, tuple) and a[0] in ("str",):
                return ("ge0", ZERO) if a[1] else ("ge0", K(-1))
            return cond_of(v)
        if isinstance(v, Tup):
            return ("ge0", ZERO) if v.items else ("ge0", K(-1))
        if isinstance(v, (FuncVal, ClassVal, ModVal, LambdaVal)):
            return ("ge0", ZERO)
        return ("truthy", ("obj", repr(v)))

    # ------------------------------------------------------------- expressions
    def eval(self, e: ast.expr, st: State) -> List[Tuple[State, Any]]:
        m = getattr(self, "e_" + type(e).__name__, None)
        if m is None:
            raise AnalysisError(f"unmodelled expression {type(e).__name__} in {self.fq()} line {getattr(e, 'lineno', 0)}")
        return m(e, st)

    def eval_list(self, es: Sequence[ast.expr], st: State) -> List[Tuple[State, List[Any]]]:
        acc: List[Tuple[State, List[Any]]] = [(st, [])]
        for e in es:
            nxt = []
            for s, vals in acc:
                for s2, v in self.eval(e, s):
                    nxt.append((s2, vals + [v]))
            acc = nxt
        return acc

    def e_Constant(self, e: ast.Constant, st: State):
        v = e.value
        if isinstance(v, bool):
            return [(st, K(1 if v else 0))]
        if isinstance(v, int):
            return [(st, K(v))]
        if v is None:
            return [(st, NONE)]
        if isinstance(v, str):
            return [(st, Aff.atom(("str", v)))]
        return [(st, Aff.atom(("lit", repr(v))))]

    def lookup_name(self, name: str, st: State, node: Optional[ast.AST]) -> Any:
        if name in st.env:
            return st.env[name]
        if name in self.assume_globals:
            v = self.assume_globals[name]
            return K(1 if v else 0) if isinstance(v, bool) else v
        fn = self.cur_fn[-1] if self.cur_fn else None
        if fn is not None:
            r = self.p.resolve(fn.module, name)
            if r is not None:
                if r[0] == "func":
                    return FuncVal(r[1])
                if r[0] == "class":
                    return ClassVal(r[1], r[2])
                if r[0] == "const":
                    v = r[1]
                    if isinstance(v, bool):
                        return K(1 if v else 0)
                    if isinstance(v, int):
                        return K(v)
                    if isinstance(v, str):
                        return Aff.atom(("str", v))
                    if v is None:
                        return NONE
                    if isinstance(v, tuple):
                        return Tup(tuple(K(x) if isinstance(x, int) else Aff.atom(("lit", repr(x))) for x in v))
                    return Aff.atom(("lit", repr(v)))
                if r[0] == "global":
                    return View(f"G:{r[2]}", ())
                if r[0] == "module":
                    return ModVal(r[1])
                if r[0] == "external":
                    return ModVal(f"{r[1]}.{r[2]}" if r[2] else r[1])
        return ModVal(name)  # builtin or unknown

    def e_Name(self, e: ast.Name, st: State):
        return [(st, self.lookup_name(e.id, st, e))]

    def e_Tuple(self, e: ast.Tuple, st: State):
        return [(s, Tup(tuple(vs))) for s, vs in self.eval_list(e.elts, st)]

    def e_List(self, e: ast.List, st: State):
        if not e.elts:
            return [(st, self.fresh_root("list", ("list",)))]  # a mutable, initially empty python list
        return self.e_Tuple(e, st)  # type: ignore[arg-type]

    def e_JoinedStr(self, e: ast.JoinedStr, st: State):
        return [(st, Aff.atom(("fstr", getattr(e, "lineno", 0))))]

    def e_Lambda(self, e: ast.Lambda, st: State):
        return [(st, LambdaVal(e))]

    def e_Dict(self, e: ast.Dict, st: State):
        out = []
        ks = [k for k in e.keys if k is not None]
        for s, kv in self.eval_list(ks, st):
            for s2, vv in self.eval_list(e.values, s):
                v = self.fresh_root("dict", ("dict", tuple(kv), tuple(vv)))
                out.append((s2, v))
        return out

    def e_ListComp(self, e: Any, st: State):
        """Comprehension: its element / filter expressions are evaluated once on a generic element (so that the calls
        they make are recorded); the result is an opaque collection."""
        saved = dict(st.env)
        try:
            for g in e.generators:
                its = self.eval(g.iter, st)
                if not its:
                    continue
                self.n += 1
                idx = Aff.atom(("it", self.n))
                self.assign(g.target, self._iter_element(its[0][1], idx, st, e), st, e)
                for c in g.ifs:
                    self.eval(c, st)
            parts = [e.key, e.value] if isinstance(e, ast.DictComp) else [e.elt]
            for part in parts:
                self.eval(part, st)
        except AnalysisError:
            raise
        finally:
            st.env = saved
        return [(st, self.fresh_root("listcomp", ("listcomp", ast.unparse(e))))]

    e_GeneratorExp = e_ListComp
    e_SetComp = e_ListComp
    e_DictComp = e_ListComp

    def e_NamedExpr(self, e: ast.NamedExpr, st: State):
        out = []
        for s, v in self.eval(e.value, st):
            self.assign(e.target, v, s, e)
            out.append((s, v))
        return out

    def e_UnaryOp(self, e: ast.UnaryOp, st: State):
        out = []
        for s, v in self.eval(e.operand, st):
            if isinstance(e.op, ast.USub):
                out.append((s, -self.scalar(s, v)))
            elif isinstance(e.op, ast.UAdd):
                out.append((s, self.scalar(s, v)))
            elif isinstance(e.op, ast.Not):
                out.append((s, bool_aff(negate(self.truth(s, v)))))
            else:
                out.append((s, Aff.atom(("invert", self.scalar(s, v)))))
        return out

    def e_BoolOp(self, e: ast.BoolOp, st: State):
        if self.track_index:
            return self._boolop_short_circuit(e, st)
        out = []
        for s, vals in self.eval_list(e.values, st):
            conds = [self.truth(s, v) for v in vals]
            tag = "and" if isinstance(e.op, ast.And) else "or"
            c = conds[0]
            for c2 in conds[1:]:
                c = (tag, c, c2)
            out.append((s, bool_aff(c)))
        return out

    def _boolop_short_circuit(self, e: ast.BoolOp, st: State):
        """`a and b` / `a or b` with Python's evaluation order: b is evaluated only in the states where a does not decide the result
        (needed when every subscript evaluation is an obligation: `i < n and x[i] ...` never reads x[n])."""
        is_and = isinstance(e.op, ast.And)
        out: List[Tuple[State, Any]] = []

        def rec(k: int, s: State) -> None:
            for s2, v in self.eval(e.values[k], s):
                c = self.truth(s2, v)
                if k == len(e.values) - 1:
                    out.append((s2, bool_aff(c)))
                    continue
                d = s2.facts.decide(c)
                stop_when = False if is_and else True  # value of the operand that ends the evaluation
                if d is not None:
                    if d == stop_when:
                        out.append((s2, K(1 if d else 0)))
                    else:
                        rec(k + 1, s2)
                    continue
                go = s2.fork()
                go.facts.add(c if is_and else negate(c))
                halt = s2
                halt.facts.add(negate(c) if is_and else c)
                if not halt.facts.infeasible():
                    out.append((halt, K(0 if is_and else 1)))
                if not go.facts.infeasible():
                    rec(k + 1, go)

        rec(0, st)
        return out

    def e_Compare(self, e: ast.Compare, st: State):
        out = []
        for s, vals in self.eval_list([e.left] + list(e.comparators), st):
            conds = []
            for op, a, b in zip(e.ops, vals[:-1], vals[1:]):
                conds.append(self.compare(op, a, b, s))
            c = conds[0]
            for c2 in conds[1:]:
                c = ("and", c, c2)
            out.append((s, bool_aff(c)))
        return out

    def compare(self, op: ast.cmpop, a: Any, b: Any, st: State) -> Tuple:
        if isinstance(op, (ast.Is, ast.IsNot)):
            x, y = self.scalar(st, a), self.scalar(st, b)
            c = ("is", x, y)
            if x == y:
                c = ("ge0", ZERO)
            elif (x == NONE or y == NONE) and isinstance(a if y == NONE else b, (Tup, FuncVal)):
                c = ("ge0", K(-1))
            return negate(c) if isinstance(op, ast.IsNot) else c
        if isinstance(op, (ast.In, ast.NotIn)):
            c = ("truthy", ("in", self.scalar(st, a), self.scalar(st, b)))
            return negate(c) if isinstance(op, ast.NotIn) else c
        sym = {ast.Lt: "<", ast.LtE: "<=", ast.Gt: ">", ast.GtE: ">=", ast.Eq: "==", ast.NotEq: "!="}[type(op)]
        x, y = self.scalar(st, a), self.scalar(st, b)
        if sym in ("==", "!=") and (_nonint(x) or _nonint(y)):
            c = ("is", x, y) if x != y else ("ge0", ZERO)
            return negate(c) if sym == "!=" else c
        return cmp_cond(sym, x, y)

    def e_IfExp(self, e: ast.IfExp, st: State):
        out = []
        for s, taken in self.branch(e.test, st, e):
            out.extend(self.eval(e.body if taken else e.orelse, s))
        return out

    def e_BinOp(self, e: ast.BinOp, st: State):
        out = []
        for s, (a, b) in [(s, tuple(v)) for s, v in self.eval_list([e.left, e.right], st)]:
            out.append((s, self.binop(e.op, a, b, s, e)))
        return out

    def binop(self, op: ast.operator, a: Any, b: Any, st: State, node: ast.AST) -> Any:
        # array-valued expressions stay symbolic aggregates
        if _is_array_like(self, st, a) or _is_array_like(self, st, b):
            a, b = as_view(a), as_view(b)
            va = a if isinstance(a, View) else self.scalar(st, a)
            vb = b if isinstance(b, View) else self.scalar(st, b)
            return self.fresh_root("arr", ("binop", type(op).__name__, va, vb))
        x, y = self.scalar(st, a), self.scalar(st, b)
        if isinstance(op, ast.Add):
            return x + y
        if isinstance(op, ast.Sub):
            return x - y
        if isinstance(op, ast.Mult):
            if x.is_const():
                return y.scale(x.c)
            if y.is_const():
                return x.scale(y.c)
            args = sorted([x, y], key=repr)
            return Aff.atom(("mul", args[0], args[1]))
        if isinstance(op, ast.FloorDiv):
            if x.is_const() and y.is_const() and y.c != 0:
                return K(x.c // y.c)
            r = Aff.atom(("floordiv", x, y))
            if self.axioms and y.is_const() and y.c > 0:
                # y*r <= x <= y*r + y - 1
                st.facts.add(cmp_cond("<=", r.scale(y.c), x))
                st.facts.add(cmp_cond("<=", x, r.scale(y.c).addc(y.c - 1)))
            return r
        if isinstance(op, ast.Mod):
            if x.is_const() and y.is_const() and y.c != 0:
                return K(x.c % y.c)
            r = Aff.atom(("mod", x, y))
            if self.axioms and y.is_const() and y.c > 0:
                st.facts.add(cmp_cond(">=", r, ZERO))
                st.facts.add(cmp_cond("<", r, y))
            return r
        if isinstance(op, (ast.BitOr, ast.BitAnd, ast.LShift, ast.RShift, ast.BitXor)):
            nm = type(op).__name__
            if x.is_const() and y.is_const():
                f = {"BitOr": lambda p, q: p | q, "BitAnd": lambda p, q: p & q, "LShift": lambda p, q: p << q,
                     "RShift": lambda p, q: p >> q, "BitXor": lambda p, q: p ^ q}[nm]
                return K(f(x.c, y.c))
            if nm in ("BitOr", "BitAnd", "BitXor"):
                args = sorted([x, y], key=repr)
                return Aff.atom((nm.lower(), args[0], args[1]))
            return Aff.atom((nm.lower(), x, y))
        if isinstance(op, ast.Div):
            return Aff.atom(("div", x, y))
        if isinstance(op, ast.Pow):
            return Aff.atom(("pow", x, y))
        return Aff.atom((type(op).__name__.lower(), x, y))

    # ---- subscripts / attributes
    def eval_index(self, sl: ast.expr, st: State) -> List[Tuple[State, Tuple[Any, ...]]]:
        elts = list(sl.elts) if isinstance(sl, ast.Tuple) else [sl]
        acc: List[Tuple[State, Tuple[Any, ...]]] = [(st, ())]
        for el in elts:
            nxt = []
            for s, comps in acc:
                if isinstance(el, ast.Slice):
                    if el.lower is None and el.upper is None and el.step is None:
                        nxt.append((s, comps + (ALL,)))
                    else:
                        parts = [el.lower, el.upper]
                        vals_acc: List[Tuple[State, List[Any]]] = [(s, [])]
                        for part in parts:
                            nn = []
                            for s2, vs in vals_acc:
                                if part is None:
                                    nn.append((s2, vs + [None]))
                                else:
                                    for s3, v in self.eval(part, s2):
                                        nn.append((s3, vs + [self.scalar(s3, v)]))
                            vals_acc = nn
                        for s2, vs in vals_acc:
                            nxt.append((s2, comps + (("slice", vs[0], vs[1]),)))
                else:
                    for s2, v in self.eval(el, s):
                        if isinstance(v, Dual):
                            v = v.view if self._arrayish_index(s2, v.view) else v.snap
                        if isinstance(v, View) and self._arrayish_index(s2, v):
                            nxt.append((s2, comps + (("fancy", v),)))
                        elif isinstance(v, Tup):
                            nxt.append((s2, comps + (("fancy", v),)))
                        else:
                            nxt.append((s2, comps + (self.scalar(s2, v),)))
            acc = nxt
        return acc

    def _arrayish_index(self, st: State, v: View) -> bool:
        """Is this view (used as an index) an array rather than a scalar cell?"""
        if any(not isinstance(c, Aff) for c in v.idx):
            return True
        org = self.allocs.get(v.root)
        if not v.idx and org is not None and org[0] in ("binop", "alloc", "copy", "listcomp"):
            return True
        return v.root in self.array_roots and len(v.idx) < self.array_roots[v.root]

    array_roots: Dict[str, int] = {}

    def subscript(self, base: Any, idx: Tuple[Any, ...], st: State, node: ast.AST) -> Any:
        base = as_view(base)
        if isinstance(base, View):
            v = View(base.root, self.compose_index(st, base.idx, idx))
            if self.track_index:
                self.ev(st, "index", node, root=v.root, idx=v.idx, value=(base.idx, idx))
            return v
        if isinstance(base, Tup):
            if len(idx) == 1 and isinstance(idx[0], Aff) and idx[0].is_const():
                k = idx[0].c
                if -len(base.items) <= k < len(base.items):
                    return base.items[k]
            return self.fresh("unk")
        if isinstance(base, Aff):
            a = base.single_atom()
            r = self.fresh_root("sub", ("subscript", base))
            return View(r.root, idx)
        return self.fresh("unk")

    def compose_index(self, st: State, old: Tuple[Any, ...], new: Tuple[Any, ...]) -> Tuple[Any, ...]:
        """NumPy view composition: the new index components address, in order, the dimensions that the
        existing prefix left open (':' / slice / fancy); what remains is appended."""
        out = list(old)
        pos = 0
        rest: List[Any] = []
        for c in new:
            while pos < len(out) and isinstance(out[pos], Aff):
                pos += 1
            if pos >= len(out):
                rest.append(c)
                continue
            o = out[pos]
            if o == ALL:
                out[pos] = c
            elif isinstance(o, tuple) and o[0] == "slice":
                lo, hi = o[1], o[2]
                if isinstance(c, Aff):
                    if c.is_const() and c.c < 0:
                        out[pos] = (hi + c) if hi is not None else c
                    else:
                        out[pos] = (lo + c) if lo is not None else c
                elif c == ALL:
                    pass
                elif isinstance(c, tuple) and c[0] == "slice":
                    nlo = (lo + c[1]) if (lo is not None and c[1] is not None and not (c[1].is_const() and c[1].c < 0)) else (c[1] if lo is None else None)
                    out[pos] = ("slice", nlo, None) if nlo is not None or lo is None else ("slice", lo, None)
                    if c[2] is not None or hi is not None:
                        out[pos] = ("slice", out[pos][1], ("?",))  # unknown upper end
                else:
                    out[pos] = ("fancy", ("of-slice", o, c))
            elif isinstance(o, tuple) and o[0] == "fancy":
                inner = o[1]
                if isinstance(c, Aff) and isinstance(inner, View):
                    out[pos] = self.scalar(st, View(inner.root, self.compose_index(st, inner.idx, (c,))))
                elif isinstance(c, Aff) and isinstance(inner, Tup) and c.is_const() and 0 <= c.c < len(inner.items):
                    out[pos] = self.scalar(st, inner.items[c.c])
                elif c == ALL:
                    pass
                else:
                    out[pos] = ("fancy", ("of-fancy", o, c))
            pos += 1
        return tuple(out) + tuple(rest)

    def e_Subscript(self, e: ast.Subscript, st: State):
        out = []
        for s, base in self.eval(e.value, st):
            for s2, idx in self.eval_index(e.slice, s):
                out.append((s2, self.subscript(base, idx, s2, e)))
        return out

    def attr(self, base: Any, name: str) -> Any:
        base = as_view(base)
        if name in ("T", "mT") and isinstance(base, View) and not base.root.startswith("G:"):
            # a view with its axes exchanged: the index / extent bookkeeping of this interpreter is per axis position; treating it as an
            # unrelated array would make every obligation on it 'unproved' (an alarm on code that may well be right)
            raise AnalysisError(f"transposed view `{base.root}.{name}` is not modelled (axes exchanged)")
        if isinstance(base, View) and not base.idx:
            return View(f"{base.root}.{name}", ())
        if isinstance(base, ModVal):
            return ModVal(f"{base.name}.{name}")
        return AttrVal(base, name)

    def e_Attribute(self, e: ast.Attribute, st: State):
        return [(s, self.attr(b, e.attr)) for s, b in self.eval(e.value, st)]

    def e_Starred(self, e: ast.Starred, st: State):
        return self.eval(e.value, st)

    # ---- calls
    def e_Call(self, e: ast.Call, st: State):
        out = []
        for s, fv in self.eval(e.func, st):
            for s2, args in self.eval_list(e.args, s):
                kw_nodes = [k for k in e.keywords]
                for s3, kwv in self.eval_list([k.value for k in kw_nodes], s2):
                    kwargs = tuple((k.arg or "**", v) for k, v in zip(kw_nodes, kwv))
                    out.extend(self.call(fv, args, kwargs, s3, e))
        return out

    def call(self, fv: Any, args: List[Any], kwargs: Tuple[Tuple[str, Any], ...], st: State, node: ast.Call) -> List[Tuple[State, Any]]:
        fv = as_view(fv)
        if isinstance(fv, FuncVal):
            return self.call_user(fv.fn, args, kwargs, st, node)
        if isinstance(fv, ModVal):
            return self.call_builtin(fv.name, args, kwargs, st, node)
        if isinstance(fv, AttrVal):
            return self.call_method(fv.base, fv.attr, args, kwargs, st, node)
        if isinstance(fv, View):
            # attribute-style method on an object root:  self.x.fill(...)  arrives as View("self.x.fill")
            if not fv.idx and "." in fv.root:
                base_root, meth = fv.root.rsplit(".", 1)
                return self.call_method(View(base_root, ()), meth, args, kwargs, st, node)
            # indirect call through a table / function value
            ev = self.ev(st, "icall", node, recv=fv, args=tuple(args), kwargs=kwargs, name=repr(fv))
            positions = self._indirect_mod_positions(fv)
            for i, a in enumerate(args):
                a = as_view(a)
                if isinstance(a, View) and (positions is None or i in positions) and not self._immutable_param(a):
                    self.stored_roots.append(a.root)  # (a loop around this call must forget the array too)
                    self.havoc_root(st, a.root)
            ev.ret = self.fresh_root("iret", ("icall", fv, tuple(args)))
            return [(st, ev.ret)]
        if isinstance(fv, ClassVal):
            self.ev(st, "call", node, name=f"{fv.module}:{fv.name}", args=tuple(args), kwargs=kwargs)
            return [(st, self.fresh_root(fv.name, ("new", fv.module, fv.name, tuple(args), kwargs)))]
        if isinstance(fv, LambdaVal):
            self.ev(st, "call", node, name="<lambda>", args=tuple(args), kwargs=kwargs)
            return [(st, self.fresh("unk"))]
        self.ev(st, "call", node, name=repr(fv), args=tuple(args), kwargs=kwargs)
        return [(st, self.fresh("unk"))]

    def registry_of(self, fv: View) -> Optional[str]:
        """Registry an indirect callee value was taken from: REG[i] or function_from_address(TYPE_X, addrs[i])."""
        regs = {nm for (_, nm) in self.p.registries}
        if fv.root.startswith("G:") and fv.root[2:] in regs:
            return fv.root[2:]
        org = self.allocs.get(fv.root)
        if org and org[0] == "call" and str(org[1]).endswith("function_from_address") and org[2]:
            t = as_view(org[2][0])
            if isinstance(t, View) and t.root.startswith("G:"):
                return self.p.dispatch_types().get(t.root[2:])
        return None

    def _indirect_mod_positions(self, fv: View) -> Optional[set]:
        """Argument positions some member of the callee's registry may store through (None: unknown callee)."""
        reg = self.registry_of(fv)
        if reg is None:
            return None
        from .effects import get_effects

        r = self.p.registry(reg)
        members = [e for e in list(r.entries) + list(r.extra) if isinstance(e, FuncInfo)]
        if len(members) != len(r.entries) + len(r.extra):
            return None
        return get_effects(self.p).modified_positions(members)

    def call_user(self, fn: FuncInfo, args: List[Any], kwargs, st: State, node: ast.Call) -> List[Tuple[State, Any]]:
        if fn.name in self.summaries:
            ev = self.ev(st, "call", node, name=fn.fq, args=tuple(args), kwargs=kwargs, value="summary")
            ev.ret = self.summaries[fn.name](self, st, fn, args, node)
            return [(st, ev.ret)]
        opaque = fn.name in self.no_inline
        recursive = any(f.fq == fn.fq for f in self.cur_fn)
        too_deep = len(self.cur_fn) >= self.max_depth
        filtered = self.inline_filter is not None and not self.inline_filter(fn)
        if opaque or recursive or too_deep or filtered:
            ev = self.ev(st, "call", node, name=fn.fq, args=tuple(args), kwargs=kwargs,
                         value="opaque" if opaque else ("recursive" if recursive else "depth"))
            positions = self.no_inline.get(fn.name)
            if positions is None:
                from .effects import get_effects

                positions = get_effects(self.p).modified_positions([fn])
            for i, a in enumerate(args):
                a = as_view(a)
                if isinstance(a, View) and (positions is None or i in positions) and not self._immutable_param(a):
                    self.stored_roots.append(a.root)
                    self.havoc_root(st, a.root)
            ev.ret = self.fresh_root("ret", ("call", fn.fq, tuple(args)))
            return [(st, ev.ret)]
        params = fn.params
        env: Dict[str, Any] = {}
        for i, a in enumerate(args):
            if i < len(params):
                env[params[i]] = self.bind(st, a)
        for k, v in kwargs:
            env[k] = self.bind(st, v)
        defaults = fn.node.args.defaults
        for i, d in enumerate(defaults):
            pn = params[len(params) - len(defaults) + i]
            if pn not in env:
                r = self.eval(d, st)
                env[pn] = r[0][1]
        for pn in params:
            env.setdefault(pn, View(pn, ()))
        saved_env = st.env
        self.ev(st, "enter", node, name=fn.fq, args=tuple(args))
        st.env = env
        st.frames.append((fn, saved_env))
        self.cur_fn.append(fn)
        try:
            results = self.exec_block(fn.node.body, st)
        finally:
            self.cur_fn.pop()
        out = []
        for r in results:
            s = r.state
            _, caller_env = s.frames.pop()
            s.env = dict(caller_env)
            self.ev(s, "exit", node, name=fn.fq, value=r.value if r.outcome == "return" else NONE)
            if r.outcome == "raise":
                # the exception propagates into the caller: the enclosing statement ends with outcome 'raise'
                s.raised = True
                out.append((s, Aff.atom(("raised", fn.fq))))
            else:
                out.append((s, r.value if r.outcome == "return" else NONE))
        return out

    ALLOC_FUNCS = {"numpy.zeros": 0, "numpy.ones": 1, "numpy.empty": None, "numpy.full": "fill", "numpy.zeros_like": 0,
                   "numpy.array": "data", "numpy.asarray": "data", "numpy.empty_like": None}

    def call_builtin(self, name: str, args: List[Any], kwargs, st: State, node: ast.Call) -> List[Tuple[State, Any]]:
        nm = name
        if nm.startswith("np."):
            nm = "numpy." + nm[3:]
        if nm == "len" and len(args) == 1:
            return [(st, self.len_of(args[0], st))]
        if nm in ("int", "bool", "float") and len(args) == 1:
            if nm == "bool":
                return [(st, bool_aff(self.truth(st, args[0])))]
            return [(st, self.scalar(st, args[0]))]
        if nm in ("max", "min") and len(args) == 2 and not any(_is_array_like(self, st, a) for a in args):
            a, b = self.scalar(st, args[0]), self.scalar(st, args[1])
            d = st.facts.decide(cmp_cond(">=", a, b))
            if d is not None:
                return [(st, (a if d else b) if nm == "max" else (b if d else a))]
            xs = sorted([a, b], key=repr)
            r = Aff.atom((nm, xs[0], xs[1]))
            if self.axioms:
                op = ">=" if nm == "max" else "<="
                st.facts.add(cmp_cond(op, r, a))
                st.facts.add(cmp_cond(op, r, b))
                st.facts.add(("or", cmp_cond("==", r, a), cmp_cond("==", r, b)))
            return [(st, r)]
        if nm == "range":
            xs = [self.scalar(st, a) for a in args]
            if len(xs) == 1:
                return [(st, RangeVal(ZERO, xs[0], ONE))]
            if len(xs) == 2:
                return [(st, RangeVal(xs[0], xs[1], ONE))]
            if len(xs) == 3:
                return [(st, RangeVal(xs[0], xs[1], xs[2]))]
        if nm == "enumerate" and len(args) == 1:
            return [(st, EnumVal(args[0]))]
        if nm in ("list", "tuple") and len(args) == 1 and isinstance(args[0], Tup):
            return [(st, args[0])]
        if nm == "getattr" and len(args) >= 2:
            a = self.scalar(st, args[1]).single_atom()
            self.ev(st, "call", node, name="getattr", args=tuple(args), kwargs=kwargs)
            if a is not None and a[0] == "str":
                return [(st, self.attr(args[0], a[1]))]
            return [(st, AttrVal(args[0], "?"))]
        if nm in self.ALLOC_FUNCS:
            v = self.fresh_root(nm.split(".")[-1], ("alloc", nm, tuple(args), kwargs))
            fill = self.ALLOC_FUNCS[nm]
            if fill == "fill":
                fv = dict(kwargs).get("fill_value", args[1] if len(args) > 1 else None)
                if fv is not None:
                    st.heap.append(Store(v.root, (), self.scalar(st, fv)))
            elif fill == "data":
                if args and isinstance(as_view(args[0]), View):
                    st.heap.append(Store(v.root, (), as_view(args[0])))
            elif fill is not None:
                st.heap.append(Store(v.root, (), K(fill)))
            self.ev(st, "call", node, name=nm, args=tuple(args), kwargs=kwargs, value=v)
            return [(st, v)]
        if nm == "numpy.copy" and len(args) == 1 and isinstance(as_view(args[0]), View):
            v = self.fresh_root("copy", ("copy", as_view(args[0])))
            st.heap.append(Store(v.root, (), as_view(args[0])))
            self.ev(st, "call", node, name=nm, args=tuple(args), kwargs=kwargs, value=v)
            return [(st, v)]
        # default: opaque pure function of its arguments
        ev = self.ev(st, "call", node, name=nm, args=tuple(args), kwargs=kwargs)
        ev.ret = self.fresh_root("ret", ("call", nm, tuple(args), kwargs))
        return [(st, ev.ret)]

    PURE_METHODS = {"min", "max", "copy", "reshape", "sum", "all", "any", "astype", "tolist", "item", "get", "qsize",
                    "is_alive", "debug", "info", "warning", "error", "keys", "values", "items", "format"}

    def call_method(self, recv: Any, meth: str, args: List[Any], kwargs, st: State, node: ast.Call) -> List[Tuple[State, Any]]:
        recv = as_view(recv)
        if isinstance(recv, View) and recv == View("self", ()) and self.cur_fn and self.cur_fn[-1].cls:
            m = self._find_method(self.cur_fn[-1].module, self.cur_fn[-1].cls, meth)
            if m is not None:
                return self.call_user(m, [recv] + list(args), kwargs, st, node)
        mev = self.ev(st, "mcall", node, recv=recv, name=meth, args=tuple(args), kwargs=kwargs)
        if isinstance(recv, View):
            if meth == "fill" and len(args) == 1:
                self.store(st, View(recv.root, recv.idx), self.scalar(st, args[0]), node)
                return [(st, NONE)]
            if meth == "copy":
                v = self.fresh_root("copy", ("copy", recv))
                st.heap.append(Store(v.root, (), recv))
                return [(st, v)]
            if meth == "astype":
                # a conversion: a fresh array holding the same data (modelled like np.array(recv, dtype=...))
                kw = tuple(kwargs) + ((("dtype", args[0]),) if args else ())
                v = self.fresh_root("astype", ("alloc", "numpy.array", (recv,), kw))
                st.heap.append(Store(v.root, (), recv))
                mev.ret = v
                return [(st, v)]
            if meth in ("append", "extend", "insert", "sort", "pop", "remove", "clear", "put", "update", "add", "setdefault"):
                # mutation of a python-level container / queue
                self.stored_roots.append(recv.root)
                self.havoc_root(st, recv.root)
                return [(st, self.fresh_root("ret", ("mcall", recv, meth, tuple(args))))]
        mev.ret = self.fresh_root("ret", ("mcall", recv, meth, tuple(args), kwargs))
        return [(st, mev.ret)]

    def _find_method(self, module: str, cls: str, meth: str, depth: int = 0) -> Optional[FuncInfo]:
        m = self.p.modules.get(module)
        if m is None or depth > 5:
            return None
        f = m.classes.get(cls, {}).get(meth)
        if f is not None:
            return f
        for b in m.class_bases.get(cls, []):
            r = self.p.resolve(module, b)
            if r and r[0] == "class":
                f = self._find_method(r[1], r[2], meth, depth + 1)
                if f is not None:
                    return f
        return None


def _nonint(x: Aff) -> bool:
    a = x.single_atom()
    return a is not None and isinstance(a, tuple) and a[0] in ("none", "str", "obj", "lit")


def _is_array_like(it: Interp, st: State, v: Any) -> bool:
    v = as_view(v)
    if isinstance(v, View):
        if any(not isinstance(c, Aff) for c in v.idx):
            return True
        org = it.allocs.get(v.root)
        if org is not None and not v.idx and org[0] in ("binop", "alloc", "copy"):
            return True
        if v.root in it.array_roots and len(v.idx) < it.array_roots[v.root]:
            return True
    return False
